#!/bin/bash
# Offline from-clean build of the whole Coq development (full .vo build).
set -e
cd "$(dirname "$0")"
export PYTHONPATH="${NPTDMS_REPO:-/repo}" PYTHONHASHSEED=0 NPTDMS_VERIF=1 PYTHONDONTWRITEBYTECODE=1
/venv/bin/python harness/build_all.py "$@"
