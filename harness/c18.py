"""C18 -- Thermocouple conversions follow the NIST ITS-90 reference functions.

Proof: Props/C18.v (tables_are_nist, coverage, closed forms, continuity, monotonicity per piece,
inverse accuracy, scaling round trip) over Gen/ThermoTables.v, regenerated from
nptdms/thermocouples.py on every run, with the generated `interval` lemmas Gen/Thermo_<T>.v.

Tie (correspondence):
  * bit-exact: Model/ThermoF.v (PrimFloat Horner as numpy's polyval, np.piecewise selection) against
    Thermocouple.celsius_to_mv / mv_to_celsius and ThermocoupleScaling.scale on a grid plus every
    piece boundary and its float neighbours, all eight types, both directions; where the type-K
    exponential term is on, the polynomial part is compared with an exponential-free Thermocouple
    object built through the public constructors from the same literals;
  * `interval`-checked per-sample goals: |Model/ThermoR.v value - implementation| <= 1e-9 mV
    (type K with its exponential term) and <= 1e-6 uV through ThermocoupleScaling;
  * constructor behaviour (Range.__init__, _verify_contiguous) and np.piecewise order/default on
    small random tables.
Direct oracle on the implementation: never NaN in and around the range; forward equals the vendored
NIST function (data/nist_its90.json) within 1e-9 mV; inverse within the NIST-stated bounds
(data/nist_inverse_spec.json) of the true temperature; continuity at boundaries; monotone per
piece; ThermocoupleScaling direction / microvolt convention (also end to end through a TDMS file).
"""
import io
import json
import math
import os
import random
import re
import sys
from decimal import Decimal

sys.path.insert(0, os.path.dirname(os.path.abspath(__file__)))
import common as H

H.ensure_env()

import numpy as np  # noqa: E402
from nptdms import thermocouples as tcmod  # noqa: E402
from nptdms.scaling import ThermocoupleScaling  # noqa: E402

sys.path.insert(0, str(H.VERIF / "harness" / "gen"))
import gen_thermo as G  # noqa: E402
import thermo_lemmas  # noqa: E402

thermo_lemmas.G = G

TYPES = G.TYPES
NI_TYPE_CODES = {"b": 10047, "e": 10055, "j": 10072, "k": 10073, "n": 10077, "r": 10082, "s": 10085, "t": 10086}
FWD_TOL_MV = 1e-9
CONT_TOL_MV = 1e-6
MONO_MIN_STEP = 1e-3   # degC: below this, float rounding of the evaluation hides the increase
np.seterr(all="ignore")   # extreme inputs overflow by design
IMPORTS = ("From Coq Require Import PrimFloat ZArith.\n"
           "From NpTdms Require Import Gen.ThermoTables.\nFrom NpTdms Require Import Model.ThermoF.\n")
CHECK_DEFS = """
Definition feq (a b : float) : bool :=
  if is_nan a then is_nan b else ((a =? b) && ((1 / a) =? (1 / b)))%float.
Definition res_feq (r : res float) (y : float) : bool := match r with Ok v => feq v y | Err _ => false end.
Definition exact_c2mv (tc : thermocouple) (t : float) : res float :=
  match celsius_to_mv tc t with Ok (Exact v) => Ok v | Ok (PlusExp _ _ _) => Err ValueError | Err e => Err e end.
(* (type, kind, x, aux, y):  0 celsius_to_mv exact   1 polynomial part where the exponential is on
   2 mv_to_celsius   3 scale direction 0   4 scale direction 1 given celsius_to_mv = aux
   5 scale direction 1 where the model is exact *)
Definition check (c : tctype * Z * float * float * float) : bool :=
  let '(T, kind, x, aux, y) := c in
  match type_tc T with
  | Err _ => false
  | Ok tc =>
    match kind with
    | 0%Z => res_feq (exact_c2mv tc x) y
    | 1%Z => match celsius_to_mv tc x with Ok (PlusExp v _ t) => feq v y && feq t x | _ => false end
    | 2%Z => res_feq (mv_to_celsius tc x) y
    | 3%Z => res_feq (scale tc 0 (fun _ => Err ValueError) x) y
    | 4%Z => res_feq (scale tc 1 (fun _ => Ok aux) x) y
    | 5%Z => res_feq (scale tc 1 (exact_c2mv tc) x) y
    | _ => false
    end
  end.
(* small tables through the public constructors: None = ValueError at construction *)
Definition check_custom (c : list pieceF * float * option float) : bool :=
  let '(raw, x, y) := c in
  match mk_thermocouple raw [] None, y with
  | Err ValueError, None => true
  | Ok tc, Some y => res_feq (celsius_to_mv_poly tc x) y
  | _, _ => false
  end.
"""


def cf(x):
    """python float -> Coq PrimFloat term (bit-exact)"""
    x = float(x)
    if x != x:
        return "nan"
    if x == math.inf:
        return "infinity"
    if x == -math.inf:
        return "neg_infinity"
    h = x.hex()
    return "(%s)%%float" % h


def hexs(a):
    return [float(v).hex() for v in a]


def neighbours(x, n=2):
    out = [x]
    lo = hi = x
    for _ in range(n):
        lo = float(np.nextafter(lo, -np.inf))
        hi = float(np.nextafter(hi, np.inf))
        out += [lo, hi]
    return out


def same_bits(a, b):
    a = np.asarray(a, dtype=np.float64)
    b = np.asarray(b, dtype=np.float64)
    return (a.view(np.uint64) == b.view(np.uint64)) | (np.isnan(a) & np.isnan(b))


# ---------------------------------------------------------------------------
# vendored NIST function (independent of nptdms and of thermocouples_reference)

class Nist:
    def __init__(self):
        self.fwd = json.loads((H.VERIF / "data" / "nist_its90.json").read_text())["types"]
        self.inv = json.loads((H.VERIF / "data" / "nist_inverse_spec.json").read_text())["types"]

    def pieces(self, k):
        t = self.fwd[k.upper()]
        e = t.get("exponential")
        out = []
        for i, p in enumerate(t["pieces"]):
            a = [float(x) for x in e["a"]] if e is not None and e["piece"] == i else None
            out.append((float(p["t_min"]), float(p["t_max"]), [float(c) for c in p["coefficients"]], a))
        return out

    def range(self, k):
        ps = self.pieces(k)
        return ps[0][0], ps[-1][1]

    def mono_from(self, k):
        return float(self.fwd[k.upper()]["monotone_from"])

    @staticmethod
    def eval_piece(piece, t):
        _, _, cs, a = piece
        y = np.zeros_like(t) + cs[-1]
        for c in cs[-2::-1]:
            y = y * t + c
        if a is not None:
            y = y + a[0] * np.exp(a[1] * (t - a[2]) ** 2)
        return y

    def candidates(self, k, t):
        """values of every NIST piece whose closed range contains t (two at an interior boundary)"""
        t = np.asarray(t, dtype=np.float64)
        res = []
        for p in self.pieces(k):
            m = (t >= p[0]) & (t <= p[1])
            y = np.full_like(t, np.nan)
            y[m] = self.eval_piece(p, t[m])
            res.append(y)
        return res

    def value(self, k, t):
        """NIST emf; at an interior boundary the upper piece"""
        y = np.full_like(np.asarray(t, dtype=np.float64), np.nan)
        for c in self.candidates(k, t):
            m = ~np.isnan(c)
            y[m] = c[m]
        return y

    def rows(self, k):
        out = []
        for r in self.inv[k.upper()]:
            out.append((float(r["t_low"]), float(r["t_high"]),
                        float(G.widened(r["stated_err_low"])), float(G.widened(r["stated_err_high"])), r))
        return out


# ---------------------------------------------------------------------------

class Check:
    def __init__(self, run):
        self.run = run
        self.nist = Nist()
        self.impl = {k: getattr(tcmod, "type_" + k) for k in TYPES}
        try:
            self.src = G.parse(H.REPO / "nptdms" / "thermocouples.py")
        except G.Unrecognised as e:
            self.src = None
            run.notes.append("translator does not recognise the source (%s): table-dependent parts skipped" % e)
        self.noexp = {}
        if self.src is not None:
            for k in TYPES:       # the same literals through the public constructors, exponential term left out
                t = self.src["tables"][k]
                try:
                    mk = lambda ps: [tcmod.Polynomial(applicable_range=tcmod.Range(s, e), coefficients=list(cs))
                                     for (s, e, cs) in ps]
                    self.noexp[k] = tcmod.Thermocouple(forward_polynomials=mk(t["for"]),
                                                       inverse_polynomials=mk(t["inv"]))
                except Exception as e:      # noqa: BLE001
                    run.notes.append("cannot rebuild type_%s through the constructors: %r" % (k, e))
        self.worst = {}        # violation key -> (score, args)
        self.maxdev = {}       # type -> max |implementation - NIST| seen (mV)
        self.corr_cases = []   # (coq term, meta)
        self.real_goals = []   # (goal text, meta)
        self.model_ok = True

    # -- violations: keep the worst per key -----------------------------------------------
    def bad(self, key, score, what, case, **kw):
        cur = self.worst.get(key)
        if cur is None or score > cur[0]:
            self.worst[key] = (score, what, case, kw)

    def flush(self):
        order = ["fwd-nan", "inv-nan", "fwd-nist", "inv-bound", "fwd-gap", "fwd-mono", "scale", "e2e"]

        def prio(key):
            return ([i for i, p in enumerate(order) if key.startswith(p)] + [len(order)])[0], key
        for key in sorted(self.worst, key=prio):
            score, what, case, kw = self.worst[key]
            self.run.violation(key, what, case, **kw)
        self.worst = {}

    # -- table helpers (from the parsed source) ------------------------------------------------
    def boundaries(self, k, d):
        if self.src is None:
            ps = self.nist.pieces(k)
            return [p[1] for p in ps[:-1]] if d == "for" else []
        return [p[1] for p in self.src["tables"][k][d] if p[1] is not None]

    def exp_on(self, k, t):
        """is the exponential term switched on at t (translated condition)"""
        if self.src is None or self.src["tables"][k]["exp"] is None:
            return np.zeros_like(t, dtype=bool)
        l, op, r = self.src["exp_cond"]
        c = r[1] if isinstance(r, tuple) else l[1]
        if isinstance(l, tuple):
            op = {"lt": "gt", "le": "ge", "gt": "lt", "ge": "le"}[op]
        return {"lt": t < c, "le": t <= c, "gt": t > c, "ge": t >= c}[op]

    # -- forward -----------------------------------------------------------------------------------
    def forward(self, k, ts, label, corr_idx=None):
        run = self.run
        ts = np.asarray(ts, dtype=np.float64)
        impl = self.impl[k]
        y = impl.celsius_to_mv(ts.copy())
        run.cov["evaluations"] += len(ts)
        run.count("forward_%s" % label, len(ts))
        lo, hi = self.nist.range(k)
        pad = 0.25 * (hi - lo)
        around = np.isfinite(ts) & (ts >= lo - pad) & (ts <= hi + pad)
        # oracle 1: never NaN in and around the range
        for i in np.nonzero(around & np.isnan(y))[0][:1]:
            self.bad("fwd-nan-%s" % k, 1, "type %s celsius_to_mv(%r) is NaN" % (k.upper(), float(ts[i])),
                     {"op": "point", "type": k, "dir": "fwd", "x": float(ts[i]).hex()},
                     expected="a number", actual="nan")
        # oracle 2: equals the vendored NIST function within 1e-9 mV on the NIST range
        inr = (ts >= lo) & (ts <= hi)
        if inr.any():
            cands = self.nist.candidates(k, ts[inr])
            dev = np.fmin.reduce(np.abs(np.array(cands) - y[inr]), axis=0)
            dev = np.where(np.isnan(dev), np.inf, dev)
            j = int(np.argmax(dev))
            self.maxdev[k] = max(self.maxdev.get(k, 0.0), float(dev[j]))
            if dev[j] > FWD_TOL_MV:
                t = float(ts[inr][j])
                self.bad("fwd-nist-%s" % k, float(dev[j]),
                         "type %s celsius_to_mv(%r) = %r differs from the NIST ITS-90 value %r by %.3g mV (> %g)"
                         % (k.upper(), t, float(y[inr][j]), float(self.nist.value(k, np.array([t]))[0]),
                            float(dev[j]), FWD_TOL_MV),
                         {"op": "point", "type": k, "dir": "fwd", "x": t.hex()},
                         expected=float(self.nist.value(k, np.array([t]))[0]).hex(), actual=float(y[inr][j]).hex())
        # correspondence cases
        if corr_idx is None:
            corr_idx = range(len(ts))
        if self.src is not None:
            on = self.exp_on(k, ts)
            ynx = self.noexp[k].celsius_to_mv(ts.copy()) if (on.any() and k in self.noexp) else None
            for i in corr_idx:
                x = float(ts[i])
                meta = {"op": "point", "type": k, "dir": "fwd", "x": x.hex()}
                if on[i]:
                    if ynx is not None:
                        self.corr_cases.append(("(T%s, 1%%Z, %s, %s, %s)" % (k.upper(), cf(x), cf(0.0), cf(ynx[i])),
                                                meta, float(ynx[i]), not (around[i] and math.isnan(ynx[i]))))
                    if inr[i]:
                        self.real_goal(k, x, float(y[i]), 1.0, FWD_TOL_MV, meta)
                else:
                    self.corr_cases.append(("(T%s, 0%%Z, %s, %s, %s)" % (k.upper(), cf(x), cf(0.0), cf(y[i])),
                                            meta, float(y[i]), True))
        return y

    def real_goal(self, k, t, y, factor, tol, meta):
        """per-sample goal closed by interval: the R model of the selected piece at t is within tol of y"""
        fwd = self.src["tables"][k]["for"]
        sel = [i for i, p in enumerate(fwd)
               if thermo_lemmas.selectable(self.src["within_range"], p, t)]
        if len(sel) != 1 or not math.isfinite(y):
            return
        i = sel[0]
        pm = "(type_%s_fwdR_%d, true)" % (k, i)
        E = "type_%s_expR" % k
        txt = ("Goal selR type_%s_fwdR_%d %s /\\ exp_condR %s /\\ Rabs (%s * piece_formula %s %s %s - %s) <= %s.\n"
               "Proof. cbv [selR exp_condR piece_formula formula polyR hornerR exp_fun pr_start pr_end pr_c0 pr_cs fst snd\n"
               "  wrR_end_only wrR_start_only wrR_both %s type_%s_fwdR_%d]. repeat split; interval with (i_prec 80). Qed.\n"
               % (k, i, G.rl(t), G.rl(t), G.dec_R(Decimal(factor)), E, pm, G.rl(t), G.rl(y),
                  G.dec_R(Decimal(repr(tol))), E, k, i))
        self.real_goals.append((txt, meta))

    # -- inverse -----------------------------------------------------------------------------------
    def inverse_points(self, k, vs, label, corr_idx=None):
        run = self.run
        vs = np.asarray(vs, dtype=np.float64)
        t = self.impl[k].mv_to_celsius(vs.copy())
        run.cov["evaluations"] += len(vs)
        run.count("inverse_%s" % label, len(vs))
        lo, hi = self.nist.range(k)
        vlo, vhi = (float(v) for v in self.nist.value(k, np.array([lo, hi])))
        vmin = min(vlo, float(np.nanmin(self.nist.value(k, np.linspace(lo, hi, 2001)))))
        pad = 0.25 * (vhi - vmin)
        around = np.isfinite(vs) & (vs >= vmin - pad) & (vs <= vhi + pad)
        for i in np.nonzero(around & np.isnan(t))[0][:1]:
            self.bad("inv-nan-%s" % k, 1, "type %s mv_to_celsius(%r) is NaN" % (k.upper(), float(vs[i])),
                     {"op": "point", "type": k, "dir": "inv", "x": float(vs[i]).hex()},
                     expected="a number", actual="nan")
        if corr_idx is None:
            corr_idx = range(len(vs))
        for i in (corr_idx if self.src is not None else ()):
            x = float(vs[i])
            self.corr_cases.append(("(T%s, 2%%Z, %s, %s, %s)" % (k.upper(), cf(x), cf(0.0), cf(t[i])),
                                    {"op": "point", "type": k, "dir": "inv", "x": x.hex()}, float(t[i]), True))
        return t

    def inverse_accuracy(self, k, n, rng, extra=()):
        """true temperature t on each NIST validity range -> NIST emf -> implementation inverse"""
        run = self.run
        measured = []
        for (tl, th, elo, ehi, row) in self.nist.rows(k):
            ts = np.concatenate([np.linspace(tl, th, n), [rng.uniform(tl, th) for _ in range(n // 10)],
                                 [x for x in extra if tl <= x <= th]])
            v = self.nist.value(k, ts)
            back = self.impl[k].mv_to_celsius(v.copy())
            err = back - ts
            run.cov["evaluations"] += len(ts)
            run.count("inverse_accuracy_points", len(ts))
            worst = np.where(np.isnan(err), np.inf, np.maximum(elo - err, err - ehi))
            j = int(np.argmax(worst))
            if worst[j] > 0:
                self.bad("inv-bound-%s-%s" % (k, row["t_low"]), float(worst[j]),
                         "type %s: true temperature %r degC, NIST emf %r mV, mv_to_celsius gives %r: error %.6g outside "
                         "[%g, %g] (NIST-stated %s..%s on %s..%s degC)"
                         % (k.upper(), float(ts[j]), float(v[j]), float(back[j]), float(err[j]), elo, ehi,
                            row["stated_err_low"], row["stated_err_high"], row["t_low"], row["t_high"]),
                         {"op": "inverse-accuracy", "type": k, "t": float(ts[j]).hex()},
                         expected=[elo, ehi], actual=float(err[j]))
            measured.append({"type": k.upper(), "range": [row["t_low"], row["t_high"]],
                             "err_min": float(np.nanmin(err)), "err_max": float(np.nanmax(err)),
                             "bound": [elo, ehi], "recorded": [row["measured_err_min"], row["measured_err_max"]]})
        return measured

    # -- continuity and monotonicity on the implementation ---------------------------------------------
    def continuity(self, k):
        for b in self.boundaries(k, "for"):
            below = float(np.nextafter(b, -np.inf))
            y = self.impl[k].celsius_to_mv(np.array([below, b]))
            self.run.cov["evaluations"] += 2
            gap = abs(float(y[1] - y[0]))
            if not gap <= CONT_TOL_MV:
                self.bad("fwd-gap-%s" % k, gap if gap == gap else math.inf,
                         "type %s: celsius_to_mv jumps by %r mV at the piece boundary %r degC (> %g)"
                         % (k.upper(), gap, b, CONT_TOL_MV),
                         {"op": "continuity", "type": k, "boundary": float(b).hex()},
                         expected="<= %g" % CONT_TOL_MV, actual=gap)

    def monotone(self, k, ts, y):
        lo, hi = self.nist.mono_from(k), self.nist.range(k)[1]
        bs = sorted(self.boundaries(k, "for"))
        piece = np.searchsorted(bs, ts, side="right")
        ok = (ts[:-1] >= lo) & (ts[1:] <= hi) & (piece[:-1] == piece[1:]) & (ts[1:] - ts[:-1] >= MONO_MIN_STEP)
        badm = ok & ~(y[1:] > y[:-1])
        for i in np.nonzero(badm)[0][:1]:
            self.bad("fwd-mono-%s" % k, 1,
                     "type %s: celsius_to_mv not increasing between %r and %r degC (same piece): %r -> %r"
                     % (k.upper(), float(ts[i]), float(ts[i + 1]), float(y[i]), float(y[i + 1])),
                     {"op": "monotone", "type": k, "t1": float(ts[i]).hex(), "t2": float(ts[i + 1]).hex()},
                     expected="increasing", actual=[float(y[i]), float(y[i + 1])])

    # -- ThermocoupleScaling -----------------------------------------------------------------------
    def scaling(self, k, ts, vs, corr_idx_t, corr_idx_v):
        run = self.run
        ts = np.asarray(ts, dtype=np.float64)
        uvs = np.asarray(vs, dtype=np.float64) * 1000.0
        props = {"NI_Scale[3]_Thermocouple_Thermocouple_Type": NI_TYPE_CODES[k],
                 "NI_Scale[3]_Thermocouple_Scaling_Direction": 1}
        s1 = ThermocoupleScaling.from_properties(props, 3)
        props0 = dict(props)
        props0["NI_Scale[3]_Thermocouple_Scaling_Direction"] = 0
        s0 = ThermocoupleScaling.from_properties(props0, 3)
        y1 = s1.scale(ts.copy())
        mv = self.impl[k].celsius_to_mv(ts.copy())
        uv_arg = uvs.copy()
        y0 = s0.scale(uv_arg)
        # the same float64 array scaled again must give the same temperatures (a scaling dividing the caller's
        # array by 1000 in place is right once and wrong afterwards)
        y0_again = s0.scale(uv_arg)
        if y0_again.tobytes() != y0.tobytes():
            i = int(np.flatnonzero(~((y0_again == y0) | (np.isnan(y0_again) & np.isnan(y0))))[0])
            self.bad("scale-dir0-again-%s" % k, float("inf"),
                           "ThermocoupleScaling(type %s, direction 0) applied twice to the same float64 array: first %r, "
                           "then %r for %r uV - the array passed in was modified" % (k, float(y0[i]), float(y0_again[i]),
                                                                                float(uvs[i])),
                           {"op": "point", "type": k, "dir": "scale0", "x": float(uvs[i]).hex()},
                           expected=float(y0[i]), actual=float(y0_again[i]))
        run.cov["evaluations"] += len(ts) + len(uvs)
        run.count("scaling_points", len(ts) + len(uvs))
        # direction 1: microvolts = 1000 * NIST millivolts
        lo, hi = self.nist.range(k)
        inr = (ts >= lo) & (ts <= hi)
        if inr.any():
            cands = self.nist.candidates(k, ts[inr])
            dev = np.fmin.reduce(np.abs(1000.0 * np.array(cands) - y1[inr]), axis=0)
            dev = np.where(np.isnan(dev), np.inf, dev)
            j = int(np.argmax(dev))
            if dev[j] > 1000 * FWD_TOL_MV:
                t = float(ts[inr][j])
                self.bad("scale-dir1-%s" % k, float(dev[j]),
                         "ThermocoupleScaling(type %s, direction 1).scale(%r) = %r uV, NIST gives %r uV"
                         % (k.upper(), t, float(y1[inr][j]), 1000 * float(self.nist.value(k, np.array([t]))[0])),
                         {"op": "point", "type": k, "dir": "scale1", "x": t.hex()},
                         expected=1000 * float(self.nist.value(k, np.array([t]))[0]), actual=float(y1[inr][j]))
        # direction 0: same as mv_to_celsius(uv / 1000)
        want0 = self.impl[k].mv_to_celsius(uvs / 1000.0)
        for i in np.nonzero(~same_bits(y0, want0))[0][:1]:
            self.bad("scale-dir0-%s" % k, 1,
                     "ThermocoupleScaling(type %s, direction 0).scale(%r uV) = %r but mv_to_celsius(%r mV) = %r"
                     % (k.upper(), float(uvs[i]), float(y0[i]), float(uvs[i] / 1000.0), float(want0[i])),
                     {"op": "point", "type": k, "dir": "scale0", "x": float(uvs[i]).hex()},
                     expected=float(want0[i]).hex(), actual=float(y0[i]).hex())
        on = self.exp_on(k, ts)
        if self.src is None:
            corr_idx_t = corr_idx_v = ()
        for i in corr_idx_t:
            x = float(ts[i])
            meta = {"op": "point", "type": k, "dir": "scale1", "x": x.hex()}
            self.corr_cases.append(("(T%s, 4%%Z, %s, %s, %s)" % (k.upper(), cf(x), cf(mv[i]), cf(y1[i])),
                                    meta, float(y1[i]), True))
            if self.src is not None and on[i]:
                if inr[i]:
                    self.real_goal(k, x, float(y1[i]), 1000.0, 1000 * FWD_TOL_MV, meta)
            else:
                self.corr_cases.append(("(T%s, 5%%Z, %s, %s, %s)" % (k.upper(), cf(x), cf(0.0), cf(y1[i])),
                                        meta, float(y1[i]), True))
        for i in corr_idx_v:
            x = float(uvs[i])
            self.corr_cases.append(("(T%s, 3%%Z, %s, %s, %s)" % (k.upper(), cf(x), cf(0.0), cf(y0[i])),
                                    {"op": "point", "type": k, "dir": "scale0", "x": x.hex()}, float(y0[i]), True))

    def scaling_roundtrip(self, k, n):
        """temperature -> microvolts (direction 1) -> temperature (direction 0) within the NIST bounds"""
        s1 = ThermocoupleScaling(NI_TYPE_CODES[k], 1, 0xFFFFFFFF)
        s0 = ThermocoupleScaling(NI_TYPE_CODES[k], 0, 0xFFFFFFFF)
        for (tl, th, elo, ehi, row) in self.nist.rows(k):
            ts = np.linspace(tl, th, n)
            back = s0.scale(s1.scale(ts.copy()))
            err = back - ts
            self.run.cov["evaluations"] += len(ts)
            worst = np.where(np.isnan(err), np.inf, np.maximum(elo - err, err - ehi))
            j = int(np.argmax(worst))
            if worst[j] > 0:
                self.bad("scale-roundtrip-%s-%s" % (k, row["t_low"]), float(worst[j]),
                         "type %s: %r degC -> direction 1 -> direction 0 gives %r: error %.6g outside [%g, %g]"
                         % (k.upper(), float(ts[j]), float(back[j]), float(err[j]), elo, ehi),
                         {"op": "scale-roundtrip", "type": k, "t": float(ts[j]).hex()},
                         expected=[elo, ehi], actual=float(err[j]))

    def end_to_end(self, k):
        """the same through a TDMS file: NI_Scale properties on a channel, read back scaled"""
        from nptdms import TdmsWriter, TdmsFile, ChannelObject
        lo, hi = self.nist.range(k)
        ts = np.linspace(lo, hi, 25)
        for direction in (1, 0):
            data = ts if direction == 1 else 1000.0 * self.nist.value(k, ts)
            props = {"NI_Number_Of_Scales": 1, "NI_Scaling_Status": "unscaled",
                     "NI_Scale[0]_Scale_Type": "Thermocouple",
                     "NI_Scale[0]_Thermocouple_Thermocouple_Type": NI_TYPE_CODES[k],
                     "NI_Scale[0]_Thermocouple_Scaling_Direction": direction}
            buf = io.BytesIO()
            with TdmsWriter(buf) as w:
                w.write_segment([ChannelObject("g", "c", np.asarray(data, dtype=np.float64), props)])
            buf.seek(0)
            got = TdmsFile.read(buf)["g"]["c"][:]
            want = (1000.0 * self.impl[k].celsius_to_mv(ts.copy()) if direction == 1
                    else self.impl[k].mv_to_celsius(np.asarray(data) / 1000.0))
            self.run.cov["evaluations"] += len(ts)
            self.run.count("end_to_end_tdms_channels")
            if not same_bits(got, want).all():
                i = int(np.nonzero(~same_bits(got, want))[0][0])
                self.bad("e2e-%s-%d" % (k, direction), 1,
                         "TDMS channel with Thermocouple scaling (type %s, direction %d): value %r -> %r, expected %r"
                         % (k.upper(), direction, float(data[i]), float(got[i]), float(want[i])),
                         {"op": "e2e", "type": k, "direction": direction}, expected=float(want[i]),
                         actual=float(got[i]))

    # -- small tables: constructors, contiguity check, piecewise order and default ------------------------
    def custom_tables(self, rng, n):
        pool = [None, -1.0, 0.0, -0.0, 1.0, 2.0, 5.0]
        xs = [-2.0, -1.0, float(np.nextafter(-1.0, -np.inf)), -0.0, 0.0, 5e-324, 1.0, float(np.nextafter(1.0, 2)),
              1.5, 2.0, float(np.nextafter(2.0, 0)), 5.0, 7.0, math.inf, -math.inf, math.nan]
        cases, metas = [], []
        for _ in range(n):
            npieces = rng.randint(1, 4)
            raw = []
            if rng.random() < 0.7:      # mostly contiguous
                cuts = sorted(rng.sample([-1.0, 0.0, 1.0, 2.0, 5.0], min(npieces + 1, 5)))
                if rng.random() < 0.7:
                    cuts[0] = None
                if rng.random() < 0.7:
                    cuts[-1] = None
                for a, b in zip(cuts, cuts[1:]):
                    raw.append((a, b))
                if rng.random() < 0.3 and raw:
                    raw.append((rng.choice(pool), rng.choice(pool)))
            else:
                raw = [(rng.choice(pool), rng.choice(pool)) for _ in range(npieces)]
            raw = [(s, e, [rng.choice([0.5, -1.25, 3.0, 0.1]) for _ in range(rng.randint(1, 3))]) for s, e in raw]
            x = rng.choice(xs)
            try:
                obj = tcmod.Thermocouple(
                    forward_polynomials=[tcmod.Polynomial(tcmod.Range(s, e), cs) for s, e, cs in raw],
                    inverse_polynomials=[])
                y = float(obj.celsius_to_mv(np.array([x]))[0])
                obs = "(Some %s)" % cf(y)
                self.run.cov["distinct_nontrivial"] += 1
            except ValueError:
                y, obs = None, "None"
            term = "([%s], %s, %s)" % ("; ".join("(%s, %s, [%s])" % (H.copt(s, cf), H.copt(e, cf),
                                                                     "; ".join(cf(c) for c in cs))
                                                  for s, e, cs in raw), cf(x), obs)
            cases.append(term)
            metas.append({"op": "custom", "table": [[s, e, cs] for s, e, cs in raw], "x": float(x).hex(),
                          "observed": None if y is None else float(y).hex()})
        self.run.cov["evaluations"] += len(cases)
        self.run.count("custom_small_tables", len(cases))
        return cases, metas


# ---------------------------------------------------------------------------

def vendored_matches_package(nist):
    """cross-check data/nist_its90.json against the installed thermocouples_reference (when present)"""
    try:
        import thermocouples_reference as tr
    except Exception:      # noqa: BLE001
        return None
    for k in TYPES:
        tab = tr.thermocouples[k.upper()].func.table
        ps = nist.pieces(k)
        if len(tab) != len(ps):
            return False
        for (tmin, tmax, pc, ec), (a, b, cs, e) in zip(tab, ps):
            if (float(tmin), float(tmax)) != (a, b) or [float(c) for c in pc][::-1] != cs or \
                    (None if ec is None else [float(x) for x in ec]) != e:
                return False
    return True


def table_differences(chk):
    """where the code's forward tables differ from the vendored NIST tables (for the report)"""
    out = []
    if chk.src is None:
        return out
    for k in TYPES:
        code = chk.src["tables"][k]["for"]
        nist = chk.nist.pieces(k)
        if len(code) != len(nist):
            out.append({"type": k, "what": "number of pieces", "code": len(code), "nist": len(nist)})
            continue
        for i, ((s, e, cs), (a, b, ncs, _)) in enumerate(zip(code, nist)):
            if i > 0 and s != a:
                out.append({"type": k, "piece": i, "what": "start", "code": s, "nist": a})
            if i < len(code) - 1 and e != b:
                out.append({"type": k, "piece": i, "what": "end", "code": e, "nist": b})
            if len(cs) != len(ncs):
                out.append({"type": k, "piece": i, "what": "number of coefficients", "code": len(cs), "nist": len(ncs)})
            for j, (c, n) in enumerate(zip(cs, ncs)):
                if c != n or math.copysign(1, c) != math.copysign(1, n):
                    out.append({"type": k, "piece": i, "what": "coefficient %d" % j, "code": c, "nist": n})
        e = chk.src["tables"][k]["exp"]
        ne = [p[3] for p in nist if p[3] is not None]
        if (e or None) != (ne[0] if ne else None):
            out.append({"type": k, "what": "exponential term", "code": e, "nist": ne[0] if ne else None})
    return out


def grids(chk, k, n, rng, widen):
    """temperature and voltage inputs for one type; special_* are always sent to the correspondence"""
    lo, hi = chk.nist.range(k)
    pad = 0.2 * (hi - lo)
    ts = list(np.linspace(lo - pad, hi + pad, n))
    special_t = [lo, hi, 0.0, -0.0, 5e-324, -5e-324]
    for b in chk.boundaries(k, "for"):
        special_t += neighbours(b)
    for (tl, th, _, _, _) in chk.nist.rows(k):
        special_t += neighbours(tl, 1) + neighbours(th, 1)
    if widen is not None:      # a proof obligation is broken: search densely around every boundary
        for b in chk.boundaries(k, "for") + [p[1] for p in chk.nist.pieces(k)[:-1]]:
            ts += list(np.linspace(b - 0.05, b + 0.05, 2001))
        for d in widen["diffs"]:
            if d["type"] == k and d["what"] in ("start", "end") and d["code"] is not None and d["nist"] is not None:
                a, b = sorted((d["code"], d["nist"]))
                ts += list(np.linspace(a, b, 20001))
                special_t += neighbours(a) + neighbours(b)
    ts += [rng.uniform(lo, hi) for _ in range(max(10, n // 10))]
    ts = np.array(sorted(set(ts + special_t), key=lambda v: (v, math.copysign(1, v))))
    vlo, vhi = (float(v) for v in chk.nist.value(k, np.array([lo, hi])))
    vmin = min(vlo, float(np.nanmin(chk.nist.value(k, np.linspace(lo, hi, 2001)))))
    vpad = 0.2 * (vhi - vmin)
    vs = list(np.linspace(vmin - vpad, vhi + vpad, n)) + [rng.uniform(vmin, vhi) for _ in range(max(10, n // 10))]
    special_v = [vmin, vhi, 0.0, -0.0, 5e-324, -5e-324]
    for b in chk.boundaries(k, "inv"):
        special_v += neighbours(b)
    # the voltages of the forward boundaries and of the validity-range ends
    edge_t = np.array(list(chk.boundaries(k, "for")) + [r[0] for r in chk.nist.rows(k)] + [r[1] for r in chk.nist.rows(k)])
    special_v += [float(v) for v in chk.nist.value(k, edge_t[(edge_t >= lo) & (edge_t <= hi)])]
    vs = np.array(sorted(set(vs + special_v), key=lambda v: (v, math.copysign(1, v))))
    return ts, special_t, vs, special_v


def pick_indices(rng, n, k, always):
    """k random indices out of n plus the ones that must always be taken"""
    idx = set(always)
    if k >= n:
        return sorted(range(n))
    idx.update(rng.sample(range(n), k))
    return sorted(idx)


def run_correspondence(run, chk, custom):
    """evaluate the collected cases inside Coq"""
    cases = [c[0] for c in chk.corr_cases]
    shard = run.pick(500, 2500)
    bad, errors = H.run_sharded(run.pid, IMPORTS, "tctype * Z * float * float * float", "check", cases,
                                shard=shard, extra_defs=CHECK_DEFS, tag="corr")
    run.corr_errors(errors)
    if not errors:
        run.cov["traces_validated_against_impl"] += len(cases) - len(bad)
    for i in bad[:5]:
        term, meta, y, ok = chk.corr_cases[i]
        # the implementation output is NaN where the property forbids it -> ordinary violation, else no input
        run.violation("corr-%s-%s" % (meta["type"], meta["dir"]),
                      "PrimFloat model and implementation disagree: type %s %s at %s (implementation %r)"
                      % (meta["type"].upper(), meta["dir"], meta["x"], y), meta,
                      kind="correspondence-broken", theorem="Model.ThermoF vs nptdms.thermocouples",
                      actual=float(y).hex() if y == y else "nan", model=term, no_input=ok)
    ccases, cmetas = custom
    if ccases:
        bad2, err2 = H.run_sharded(run.pid, "From Coq Require Import List.\nImport ListNotations.\n" + IMPORTS,
                                   "list pieceF * float * option float", "check_custom", ccases,
                                   shard=shard, extra_defs=CHECK_DEFS, tag="custom")
        run.corr_errors(err2)
        run.cov["traces_validated_against_impl"] += len(ccases) - len(bad2)
        for i in bad2[:3]:
            run.violation("corr-custom", "model and implementation disagree on a small table: %r" % (cmetas[i],),
                          cmetas[i], kind="correspondence-broken",
                          theorem="Model.ThermoF (mk_thermocouple, piecewise) vs nptdms.thermocouples",
                          model=ccases[i], no_input=True)
    # interval-checked samples
    goals = chk.real_goals
    if goals:
        files = []
        per = 40
        head = ("From Coq Require Import Reals.\nFrom Interval Require Import Tactic.\n"
                "From NpTdms Require Import Gen.ThermoTables.\nFrom NpTdms Require Import Model.ThermoR.\nOpen Scope R_scope.\n")
        for a in range(0, len(goals), per):
            files.append(("real_%04d" % (a // per), head + "\n".join(g[0] for g in goals[a:a + per])))
        res = H.coq_eval_files(run.pid, files, timeout=900)
        nbad = 0
        for (name, rc, out), a in zip(res, range(0, len(goals), per)):
            if rc == 0:
                run.cov["traces_validated_against_impl"] += len(goals[a:a + per])
                continue
            # find the failing goal: re-run one by one
            single = [("%s_%02d" % (name, j), head + g[0]) for j, g in enumerate(goals[a:a + per])]
            for (n1, rc1, out1), g in zip(H.coq_eval_files(run.pid, single, timeout=300), goals[a:a + per]):
                if rc1 == 0:
                    run.cov["traces_validated_against_impl"] += 1
                elif nbad < 3:
                    nbad += 1
                    run.violation("corr-real-%s" % g[1]["type"],
                                  "interval cannot confirm |R model - implementation| <= tolerance: type %s %s at %s"
                                  % (g[1]["type"].upper(), g[1]["dir"], g[1]["x"]), g[1],
                                  kind="correspondence-broken", theorem="Model.ThermoR vs nptdms.thermocouples",
                                  model=g[0] + "\n" + out1[-800:], no_input=True)
        run.count("interval_checked_samples", len(goals))


def replay(run, chk, case):
    op = case.get("op")
    k = case.get("type")
    rng = random.Random(run.seed)
    if op == "point":
        x = float.fromhex(case["x"])
        d = case["dir"]
        if d == "fwd":
            y = chk.forward(k, np.array([x]), "replay")
            print("replay: type %s celsius_to_mv(%r) = %r ; NIST %r" % (k.upper(), x, float(y[0]),
                                                                       float(chk.nist.value(k, np.array([x]))[0])))
        elif d == "inv":
            t = chk.inverse_points(k, np.array([x]), "replay")
            print("replay: type %s mv_to_celsius(%r) = %r" % (k.upper(), x, float(t[0])))
        elif d == "scale1":
            chk.scaling(k, np.array([x]), np.array([0.0]), [0], [])
        else:
            chk.scaling(k, np.array([0.0]), np.array([x / 1000.0]), [], [0])
    elif op == "inverse-accuracy":
        chk.inverse_accuracy(k, 2, rng, extra=[float.fromhex(case["t"])])
    elif op == "continuity":
        chk.continuity(k)
    elif op == "monotone":
        ts = np.array([float.fromhex(case["t1"]), float.fromhex(case["t2"])])
        chk.monotone(k, ts, chk.forward(k, ts, "replay"))
    elif op == "scale-roundtrip":
        chk.scaling_roundtrip(k, 2001)
    elif op == "e2e":
        chk.end_to_end(k)
    elif op == "custom":
        print("replay: custom-table cases are regenerated from the seed")
        return chk.custom_tables(rng, 400)
    else:
        print("replay: nothing to re-run for", op)
    return [], []


def main():
    run = H.Run("C18")
    gen_files = ["theories/Gen/Thermo_%s.v" % k for k in TYPES]
    proved = run.prove(extra_files=["theories/Proofs/ThermoCoverage.v", "theories/Proofs/ThermoReal.v",
                                    "theories/Proofs/ThermoAll.v"] + gen_files)
    chk = Check(run)
    model_built = proved
    if not proved:
        # the models only depend on Gen/ThermoTables.v: keep the correspondence running if they still build
        try:
            H.make(["theories/Model/ThermoF.vo", "theories/Model/ThermoR.vo"])
            model_built = True
        except H.BuildError as e:
            run.notes.append("models do not build either: %s" % e.what)
    if not proved:
        for v in run.violations:
            if v.key == "build":        # say where, not the list of make targets
                what, where, log = getattr(run, "broken_build", ("", "?", ""))
                m = re.search(r'File "([^"]+)", line (\d+)[^\n]*\n(Error:[^\n]*(?:\n[^\n]+){0,3})', log)
                v.what = "proof obligation no longer checks at %s: %s" % (
                    where, re.sub(r"\s+", " ", m.group(3))[:200] if m
                    else (what + ": " + (log.strip().split("\n") or [""])[-1])[:260])
    diffs = table_differences(chk)
    if diffs:
        run.notes.append({"forward_tables_differ_from_nist": diffs[:20]})
        for v in run.violations:
            if v.key == "build":
                v.what = ("tables_are_nist: the forward tables differ from the vendored NIST tables (%s); %s"
                          % ("; ".join("type %s piece %s %s: code %r, NIST %r"
                                       % (d["type"].upper(), d.get("piece", "-"), d["what"], d["code"], d["nist"])
                                       for d in diffs[:3]), v.what[:160]))
        print("  # forward tables differ from the vendored NIST tables: %s" % json.dumps(diffs[:4]))
    if run.replay:
        custom = replay(run, chk, json.load(open(run.replay))["case"])
        chk.flush()
        if model_built:
            run_correspondence(run, chk, custom)
        run.finish()
    rng = random.Random(run.seed)
    widen = None if (proved and not diffs) else {"diffs": diffs}
    n = run.pick(2000, 100000)
    if not proved:
        n = max(n, 100000)       # widened search when a proof obligation is broken
    ncorr = run.pick(250, 12000)
    measured = []
    for k in TYPES:
        ts, special_t, vs, special_v = grids(chk, k, n, rng, widen)
        sp_t, sp_v = set(special_t), set(special_v)
        always_t = [i for i, t in enumerate(ts) if float(t) in sp_t]
        always_v = [i for i, v in enumerate(vs) if float(v) in sp_v]
        y = chk.forward(k, ts, "grid", pick_indices(rng, len(ts), ncorr, always_t))
        chk.monotone(k, ts, y)
        chk.continuity(k)
        chk.inverse_points(k, vs, "grid", pick_indices(rng, len(vs), ncorr, always_v))
        measured += chk.inverse_accuracy(k, n, rng, extra=special_t)
        nsc = run.pick(60, 1500)
        chk.scaling(k, ts, vs, pick_indices(rng, len(ts), nsc, always_t), pick_indices(rng, len(vs), nsc, always_v))
        chk.scaling_roundtrip(k, run.pick(500, 20000))
        chk.end_to_end(k)
        # extreme inputs: observed (and compared with the model), not part of the "in range" oracle
        ext = np.array([1e6, -1e6, 1e300, -1e300, math.inf, -math.inf, math.nan])
        chk.forward(k, ext, "extreme")
        chk.inverse_points(k, ext, "extreme")
        run.cov["distinct_nontrivial"] += len(always_t) + len(always_v)
    chk.flush()
    custom = chk.custom_tables(rng, run.pick(400, 6000))
    if model_built:
        run_correspondence(run, chk, custom)
    else:
        run.notes.append("correspondence skipped: models not built")
    run.cov["inverse_error_extremes"] = measured
    run.cov["vendored_nist_table_equals_installed_thermocouples_reference"] = vendored_matches_package(chk.nist)
    run.cov["max_forward_deviation_from_nist_mV"] = {k.upper(): v for k, v in sorted(chk.maxdev.items())}
    run.cov["rule"] = ("per type and direction: %d-point grid over the NIST range widened by 20%% (plus 10%% random points), every "
                       "forward / inverse piece boundary and validity-range end with its np.nextafter neighbours, +-0.0, "
                       "denormals; inverse accuracy on %d points per NIST validity range (true temperature -> vendored NIST "
                       "emf -> mv_to_celsius); ThermocoupleScaling both directions, temperature->uV->temperature, and through "
                       "a TDMS file; the in-Coq correspondence takes every boundary/neighbour point plus %d random grid points "
                       "per type and direction; small random tables for constructors / np.piecewise order. Non-trivial = "
                       "boundary, neighbour and special points, and accepted small tables. Inputs are float64 arrays."
                       % (n, n, ncorr))
    run.sample({"type": "K", "celsius_to_mv(100.0)": float(chk.impl["k"].celsius_to_mv(np.array([100.0]))[0]),
                "nist": float(chk.nist.value("k", np.array([100.0]))[0])})
    run.sample({"type": "S", "boundary": 1064.18,
                "celsius_to_mv(below, at)": hexs(chk.impl["s"].celsius_to_mv(np.array([np.nextafter(1064.18, 0), 1064.18])))})
    run.sample({"type": "B", "mv_to_celsius(2.431 below, at)":
                [float(v) for v in chk.impl["b"].mv_to_celsius(np.array([np.nextafter(2.431, 0), 2.431]))]})
    run.assumptions = [
        "real-number theorems are about the exact real function of the code's binary64 coefficients; rounding in "
        "polyval / exp is not bounded by a theorem (measured: forward agrees with the NIST evaluation to <= 1e-9 mV, "
        "interval-checked per sample for type K)",
        "numpy primitives modelled, validated by the bit-exact correspondence: polynomial.polyval = Horner "
        "(c[-1] + x*0, then c[-i] + c0*x), np.piecewise = sequential masked assignment with a NaN default",
        "vendored NIST tables: data/nist_its90.json (from thermocouples_reference/source_NIST.py), "
        "data/nist_inverse_spec.json (inverse error ranges transcribed from NIST SRD 60, widened by one unit of the "
        "last stated digit; cross-checked by dense sweep, extremes recorded in the file and re-measured each run)",
        "gen_thermo.py emits each number twice (PrimFloat literal and hex real literal) from the same float.hex() text; "
        "that the two denote the same value rests on the translator and Coq's number notations",
        "overflow of Horner evaluation for astronomically large inputs and infinities (x*0 = NaN) is outside "
        "'in each type's range'; such inputs are only compared with the model",
    ]
    run.finish()


if __name__ == "__main__":
    main()
