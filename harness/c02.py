"""C02 — Segment metadata inheritance never changes what is read.

Oracle on the implementation: every valid encoding stream reads (eagerly and lazily)
exactly like its fully explicit re-encoding and like the reference meaning; forbidden
encodings are rejected.  Exhaustive over a small bound, random beyond it.
Correspondence: Model/Reader.v on the same streams.
"""
import itertools
import os
import random
import struct
import sys

sys.path.insert(0, os.path.dirname(os.path.abspath(__file__)))
import common as H

H.ensure_env()
import tdmsgen as G          # noqa: E402
import readerlib as R        # noqa: E402

G.silence_logs()

CH = [(G.quote_path("g", "a"), 2), (G.quote_path("g", "b"), 3), (G.quote_path("h", "c"), 10)]
# float channels: their "other type" is the float-with-unit type of the same width, which has the SAME NumPy dtype
# (a consistency check comparing NumPy dtypes instead of TDMS types cannot see that change)
CHF = [(G.quote_path("g", "a"), 9), (G.quote_path("g", "b"), 10)]
OTHER_TYPE = {2: 4, 3: 4, 4: 3, 9: 0x19, 10: 0x1A, 0x19: 9, 0x1A: 10}
ENC = ["full", "prev", "nodata", "unlisted"]


def seg_options(nch, first):
    opts = []
    if not first:
        opts.append(("nometa", None, None))
    for newlist in (False, True):
        for encs in itertools.product(ENC, repeat=nch):
            opts.append(("meta", newlist, encs))
    return opts


class Counter:
    def __init__(self):
        self.v = 0

    def next(self, sz):
        self.v += 1
        return (self.v % (1 << (8 * sz))).to_bytes(sz, "little")


def build_stream(choice, nch, chunk_pattern, endian_pattern, with_props, type_change_at=None, chans=None):
    """choice: list of seg options -> (segs, spec_error or None, offending path)"""
    segs = []
    st = G.SpecState()
    cnt = Counter()
    err = None
    for si, (kind, newlist, encs) in enumerate(choice):
        e = endian_pattern[si % len(endian_pattern)]
        if kind == "nometa":
            seg = G.Seg(e=e, toc=G.TOC_RAW, entries=None)
        else:
            entries = []
            for ci in range(nch):
                p, dt = (chans or CH)[ci]
                props = [G.Prop(b"k%d" % ci, 3, struct.pack("<l", 100 * si + ci))] if with_props else []
                en = encs[ci]
                if en == "full":
                    n = 1 + (si + ci) % 3
                    d = dt
                    if type_change_at == (si, ci):
                        d = OTHER_TYPE[dt]
                    entries.append(G.Entry(p, ("full", 20, d, 1, n, None), props))
                elif en == "prev":
                    entries.append(G.Entry(p, "prev", props))
                elif en == "nodata":
                    entries.append(G.Entry(p, None, props))
            toc = G.TOC_META | G.TOC_RAW | (G.TOC_NEWLIST if newlist else 0)
            seg = G.Seg(e=e, toc=toc, entries=entries)
        try:
            st.apply_metadata(seg)
        except G.SpecError as ex:
            err = (si, str(ex))
            segs.append(seg)
            # give the offending segment some bytes so that it cannot pass as "no data"
            seg.data = b"\x01\x02\x03\x04\x05\x06\x07\x08"
            return segs, err
        st.nsegs += 1
        nchunks = chunk_pattern[si % len(chunk_pattern)]
        data = b""
        for _ in range(nchunks):
            for (p, (dt, n, total)) in st.data_objects():
                for _k in range(n):
                    data += G.canon_to_stored(e, dt, cnt.next(G.SIZES[dt]))
        seg.data = data
        segs.append(seg)
    return segs, err


def check_stream(run, segs, err, label, cases, meta, want_lazy=True):
    data = G.ser_file(segs)
    run.cov["evaluations"] += 1
    run.count(label)
    impl, ex = G.read_eager(data)
    desc = R.describe_segs(segs)
    failed = False
    if err is not None:
        run.count("forbidden")
        if impl is not None:
            failed = True
            run.violation("forbidden-accepted", "forbidden encoding (%s) read without error" % (err[1],),
                          {"op": "read", "hex": data.hex(), "desc": desc}, expected="an exception",
                          actual="accepted")
    else:
        content = G.meaning(segs)
        expected = G.expected_tokens(content)
        exp_data = G.ser_file(G.explicit_form(segs))
        impl_exp, ex2 = G.read_eager(exp_data)
        if impl != expected:
            failed = True
            run.violation("inherit-vs-meaning", "encoding stream read differs from its meaning: %s"
                          % (repr(ex)[:200] if ex else R.first_diff(impl, expected)),
                          {"op": "read", "hex": data.hex(), "desc": desc},
                          expected="reference meaning", actual=repr(ex)[:300] if ex else R.first_diff(impl, expected))
        elif impl != impl_exp:
            failed = True
            run.violation("inherit-vs-explicit", "encoding stream and its explicit form read differently: %s"
                          % (repr(ex2)[:200] if ex2 else R.first_diff(impl, impl_exp)),
                          {"op": "read", "hex": data.hex(), "explicit_hex": exp_data.hex(), "desc": desc},
                          expected="same as explicit form", actual=R.first_diff(impl, impl_exp))
        if want_lazy:
            lz, ex3 = G.read_lazy(data)
            if lz != impl and not failed:
                failed = True
                run.violation("inherit-lazy", "lazy read of an encoding stream differs from the eager read: %s"
                              % (repr(ex3)[:200] if ex3 else R.first_diff(lz, impl)),
                              {"op": "lazy", "hex": data.hex(), "desc": desc},
                              expected="same as eager", actual=repr(ex3)[:300] if ex3 else R.first_diff(lz, impl))
    cases.append(R.case_all(data, impl))
    meta.append({"data": data, "impl": R.exc_kind(ex) or "tokens", "desc": desc, "oracle_failed": failed})
    return failed


def replay(run, case):
    data = bytes.fromhex(case["hex"])
    impl, ex = G.read_eager(data)
    R.run_agree_all(run, [R.case_all(data, impl)], [{"data": data, "impl": R.exc_kind(ex)}], "replay", "replay")
    if "explicit_hex" in case:
        impl2, _ = G.read_eager(bytes.fromhex(case["explicit_hex"]))
        if impl != impl2:
            run.violation("inherit-vs-explicit", "still differs from explicit form", case,
                          actual=R.first_diff(impl, impl2))
    if case.get("op") == "lazy":
        lz, ex3 = G.read_lazy(data)
        if lz != impl:
            run.violation("inherit-lazy", "lazy still differs from eager", case, actual=repr(ex3))


def main():
    run = H.Run("C02")
    run.prove()
    if run.replay:
        import json
        replay(run, json.load(open(run.replay))["case"])
        run.finish()
    rng = random.Random(run.seed)
    cases, meta = [], []
    # (a) exhaustive: 2 segments x 2 channels, all encodings, 2 chunk patterns, LE/BE patterns
    nch = 2
    first, later = seg_options(nch, True), seg_options(nch, False)
    space2 = [(a, b) for a in first for b in later]
    for choice in space2:
        for cp in ((1, 2), (2, 1)):
            segs, err = build_stream(list(choice), nch, cp, ("<", ">"), with_props=True)
            check_stream(run, segs, err, "exhaustive_2seg_2ch", cases, meta)
            if err is None:
                run.cov["distinct_nontrivial"] += 1
    # (b) 3 segments x 2 channels: exhaustive in thorough, sampled in quick
    space3 = [(a, b, c) for a in first for b in later for c in later]
    if not run.thorough:
        space3 = rng.sample(space3, 2500)
    for choice in space3:
        segs, err = build_stream(list(choice), nch, (1, 2, 1), ("<", "<", ">"), with_props=False)
        check_stream(run, segs, err, "3seg_2ch", cases, meta, want_lazy=run.thorough or rng.random() < 0.3)
        if err is None:
            run.cov["distinct_nontrivial"] += 1
    # (c) 3-4 segments x 3 channels sampled, with type changes injected now and then
    opts_f, opts_l = seg_options(3, True), seg_options(3, False)
    for _ in range(run.pick(600, 30000)):
        k = rng.choice([3, 4])
        choice = [rng.choice(opts_f)] + [rng.choice(opts_l) for _ in range(k - 1)]
        if rng.random() < 0.03:
            choice[0] = ("nometa", None, None)
        tc = None
        if rng.random() < 0.1:
            tc = (rng.randrange(1, k), rng.randrange(3))
        segs, err = build_stream(choice, 3, (rng.randint(0, 2), rng.randint(1, 2), 1, 2),
                                 rng.choice([("<",), (">",), ("<", ">")]), with_props=rng.random() < 0.5,
                                 type_change_at=tc)
        check_stream(run, segs, err, "sampled_3ch", cases, meta, want_lazy=rng.random() < 0.3)
    # (c') the forbidden "channel changes data type" encoding in EVERY position of a 3-segment x 2-channel stream:
    # for every encoding of the stream in which some channel is restated in full in segment 2 or 3 after having been
    # defined, the restated index gets another data type - in new-object-list segments and in incremental ones,
    # for listed, carried-over and dropped-then-relisted objects alike
    opts_f2, opts_l2 = seg_options(2, True), seg_options(2, False)
    grid = [(a, b, c) for a in opts_f2 for b in opts_l2 for c in opts_l2]
    rng2 = random.Random(run.seed + 17)
    rng2.shuffle(grid)
    done = 0
    for choice in grid:
        if done >= run.pick(260, 4000):
            break
        cands = [(si, ci) for si in (1, 2) for ci in range(2)
                 if choice[si][0] == "meta" and choice[si][2][ci] == "full"]
        if not cands:
            continue
        tc = rng2.choice(cands)
        segs, err = build_stream(list(choice), 2, (1, 1, 2), ("<",), with_props=False, type_change_at=tc,
                                 chans=CHF if done % 2 else None)
        if err is None:
            continue                       # the channel had no earlier index: not a type change
        check_stream(run, segs, err, "type_change_grid", cases, meta, want_lazy=False)
        done += 1
    # (d) random longer streams from the general generator (property updates, strings, all types)
    for _ in range(run.pick(150, 5000)):
        segs = G.gen_file(rng, G.GenParams(max_segs=8, p_nometa=0.25, p_keep_list=0.75, max_vals=3))
        check_stream(run, segs, None, "random_long", cases, meta, want_lazy=True)
    run.sample({"stream": meta[5]["desc"]})
    run.sample({"stream": meta[-1]["desc"]})
    R.run_agree_all(run, cases, meta, "streams", "encoding stream")
    run.cov["exhaustive"] = True
    run.cov["rule"] = ("(a) ALL encodings of 2 segments x 2 channels (full / matches-previous / no-data / unlisted x "
                       "new-object-list flag x metadata flag) x 2 chunk patterns; (b) 3 segments x 2 channels "
                       "(sampled in quick, all 35 937 in thorough); (c) sampled 3-4 segments x 3 channels with "
                       "injected type changes; (d) random longer streams with property updates. Each valid stream is "
                       "compared with the reference meaning, with the read of its fully explicit form, and lazily; "
                       "forbidden ones must raise. Non-trivial = a valid stream of the enumerated spaces.")
    run.assumptions = ["aliasing between segment objects cannot be expressed in the pure model; retroactive mutation "
                      "is covered by the lazy/eager/explicit comparison on the implementation"]
    run.finish()


if __name__ == "__main__":
    main()
