"""C08 - TdmsWriter emits structurally valid segments and a faithful index file.

Proof: Props/C08.v (the writer model's output strict-parses, clause by clause, and the index
twin is the data file with raw data removed and the tag replaced).
Tie: byte-exact correspondence of Model/Writer.v with nptdms.TdmsWriter (data and index
bytes), the Coq strict parser (Model/StrictParse.v) run on the real writer's bytes, and an
independently written Python strict parser as the direct oracle.
"""
import json
import os
import random
import sys

sys.path.insert(0, os.path.dirname(os.path.abspath(__file__)))
import common as H

H.ensure_env()

import writer_cases as W  # noqa: E402

CFG = {"rejects": True, "d11": False, "d12": False}


def main():
    run = H.Run("C08")
    run.prove()
    if run.replay:
        W.process(run, [json.load(open(run.replay))["case"]], "C08")
        run.finish()
    rng = random.Random(run.seed)
    cases = [W.gen_case(rng, CFG) for _ in range(run.pick(350, 8000))]
    for c in cases[:3]:
        run.sample({"case": W.describe(c), "first_call": c["sessions"][0][0][:2]})
    step = 2000
    for k in range(0, len(cases), step):
        W.process(run, cases[k:k + step], "C08")
    run.cov["rule"] = ("random write_segment sequences (1-5 calls x 0-6 objects, 1-3 sessions, versions 4712/4713, "
                       "index off/on, stream/path). Non-trivial = an accepted case with >= 2 segments or at least one "
                       "channel with typed data. Each accepted case: Python strict parse + index twin (oracle), Coq "
                       "strict_parse + strip_raw_and_retag on the same bytes, and byte equality of data and index "
                       "with Model/Writer.v; refused calls: the model must refuse too.")
    run.assumptions = ["array -> bytes is NumPy's tobytes of the little-endian array (supplied to the model)",
                       "timestamp second fractions are taken from the written bytes (C12 covers their value)",
                       "struct.error for counts >= 2^32 is not modelled (outside wf_call)"]
    run.finish()


if __name__ == "__main__":
    main()
