"""Shared machinery of the writer checks (C07, C08): generator of write_segment call
sequences, construction of the Python objects, the real TdmsWriter run, an independent
strict TDMS parser in Python, the read-back oracle and the Coq terms for Model/Writer.v.

A *case* is a JSON-able dict (so that a replay file reproduces it exactly):

  {"version": 4712|4713, "index": "off"|"on", "target": "stream"|"path",
   "sessions": [[call, ...], ...]}          call = [obj, ...]
  obj  = {"k": "root", "props": [...]} | {"k": "group", "name": s, "props": [...]}
       | {"k": "chan", "group": s, "name": s, "data": data, "props": [...]}
  data = {"kind": "array", "dtype": "int16", "hex": <little-endian bytes>, "order": "<"|">",
          "strided": bool}
       | {"kind": "intlist", "vals": [...], "tuple": bool} | {"kind": "boollist", "vals": [...]}
       | {"kind": "floatlist", "hex": [<8 bytes>, ...]} | {"kind": "mixedlist", "vals": [...]}
       | {"kind": "strlist", "vals": [...], "as": "list"|"objarray"}
       | {"kind": "datetimes", "us": [...], "as": "list"|"array_us"|"array_ms"|"array_s"}
       | {"kind": "empty", "of": "list"|"datetime64"|"objarray"|<dtype name>}
  prop = [name, kind, payload]   (see PROP_KINDS)
"""
import datetime as _dt
import io
import os
import struct

import numpy as np

import common as H

EPOCH_1904_US = -2082844800 * 10 ** 6      # 1904-01-01 relative to the Unix epoch, in microseconds

NP_TYPES = {"int8": 1, "int16": 2, "int32": 3, "int64": 4, "uint8": 5, "uint16": 6, "uint32": 7,
            "uint64": 8, "float32": 9, "float64": 10, "bool": 0x21, "complex64": 0x08000c,
            "complex128": 0x10000d}
T_STRING, T_BOOL, T_TIME = 0x20, 0x21, 0x44
SIZES = {1: 1, 2: 2, 3: 4, 4: 8, 5: 1, 6: 2, 7: 4, 8: 8, 9: 4, 10: 8, 0x19: 4, 0x1A: 8, 0x21: 1, 0x44: 16,
         0x08000c: 8, 0x10000d: 16}
INT_FMT = {1: "b", 2: "h", 3: "l", 4: "q", 5: "B", 6: "H", 7: "L", 8: "Q"}
TYPE_NP = {v: k for k, v in NP_TYPES.items()}
WRAPPERS = {"Int8": 1, "Int16": 2, "Int32": 3, "Int64": 4, "Uint8": 5, "Uint16": 6, "Uint32": 7, "Uint64": 8,
            "SingleFloat": 9, "DoubleFloat": 10, "String": T_STRING, "Boolean": T_BOOL, "TimeStamp": T_TIME}


# ---------------------------------------------------------------------------
# independent strict parser (Python twin of Model/StrictParse.v, written from the TDMS layout)

class StrictError(Exception):
    def __init__(self, key, what):
        Exception.__init__(self, what)
        self.key = key
        self.what = what


def split_path(p):
    """Canonical object path -> () | (group,) | (group, channel); None when not canonical."""
    if p == "/":
        return ()
    comps, i = [], 0
    while i < len(p):
        if p[i] != "/" or i + 1 >= len(p) or p[i + 1] != "'":
            return None
        i += 2
        cur = []
        while True:
            if i >= len(p):
                return None
            if p[i] == "'":
                if i + 1 < len(p) and p[i + 1] == "'":
                    cur.append("'")
                    i += 2
                    continue
                i += 1
                break
            cur.append(p[i])
            i += 1
        comps.append("".join(cur))
    if not 1 <= len(comps) <= 2:
        return None
    return tuple(comps)


def make_path(*comps):
    return "/" + "/".join("'" + c.replace("'", "''") + "'" for c in comps) if comps else "/"


class _Rd:
    def __init__(self, b, what):
        self.b, self.i, self.what = b, 0, what

    def take(self, n, field):
        if n < 0 or self.i + n > len(self.b):
            raise StrictError("length-field", "%s: %s needs %d bytes, %d remain"
                              % (self.what, field, n, len(self.b) - self.i))
        x = self.b[self.i:self.i + n]
        self.i += n
        return x

    def u32(self, f):
        return struct.unpack("<L", self.take(4, f))[0]

    def u64(self, f):
        return struct.unpack("<Q", self.take(8, f))[0]

    def string(self, f):
        return self.take(self.u32(f + " length"), f)


def pystrict(data, tag=b"TDSm"):
    """Parse the whole byte string strictly; returns the list of segments."""
    segs, pos, declared = [], 0, set()
    while pos < len(data):
        k = len(segs)
        if len(data) - pos < 28:
            raise StrictError("short-leadin", "segment %d: %d bytes left, a lead-in needs 28" % (k, len(data) - pos))
        t, toc, ver, nxt, raw = struct.unpack("<4sLlQQ", data[pos:pos + 28])
        if t != tag:
            raise StrictError("tag", "segment %d: tag %r" % (k, t))
        if toc != 0x0E:
            raise StrictError("toc", "segment %d: ToC 0x%x, the writer emits MetaData|NewObjList|RawData" % (k, toc))
        if ver not in (4712, 4713):
            raise StrictError("version", "segment %d: version %d" % (k, ver))
        if raw > nxt or pos + 28 + nxt > len(data):
            raise StrictError("offsets", "segment %d: raw_data_offset %d, next_segment_offset %d, %d bytes after "
                              "the lead-in" % (k, raw, nxt, len(data) - pos - 28))
        meta = data[pos + 28:pos + 28 + raw]
        r = _Rd(meta, "segment %d metadata" % k)
        entries = []
        for _ in range(r.u32("object count")):
            pb = r.string("object path")
            try:
                path = pb.decode("utf-8")
            except UnicodeDecodeError:
                raise StrictError("utf8", "segment %d: path %r is not UTF-8" % (k, pb))
            hdr = r.u32("raw index header")
            if hdr == 0xFFFFFFFF:
                idx = None
            else:
                dt, dim, n = r.u32("data type"), r.u32("dimension"), r.u64("value count")
                total = r.u64("total size") if dt == T_STRING else None
                want = 28 if dt == T_STRING else 20
                if hdr != want:
                    key = "d6-string-index-length" if (dt == T_STRING and hdr == 20) else "index-length"
                    what = "segment %d object %s: raw data index length field %d, %d bytes of index follow" \
                        % (k, path, hdr, want)
                    if _LENIENT is None:
                        raise StrictError(key, what)
                    if not any(p[0] == key for p in _LENIENT):
                        _LENIENT.append((key, what))
                if dim != 1:
                    raise StrictError("dimension", "segment %d object %s: dimension %d" % (k, path, dim))
                if dt != T_STRING and dt not in SIZES:
                    raise StrictError("data-type", "segment %d object %s: data type 0x%x has no size" % (k, path, dt))
                idx = (hdr, dt, dim, n, total)
            props = []
            for _ in range(r.u32("property count")):
                name = r.string("property name")
                ty = r.u32("property type")
                if ty == T_STRING:
                    val = r.string("string property value")
                elif ty in SIZES and ty not in (0x08000c, 0x10000d):
                    val = r.take(SIZES[ty], "property value")
                else:
                    raise StrictError("prop-type", "segment %d object %s: property type 0x%x" % (k, path, ty))
                props.append((name.decode("utf-8"), ty, val))
            entries.append({"path": path, "idx": idx, "props": props})
        if r.i != len(meta):
            raise StrictError("metadata-length", "segment %d: metadata parses to %d bytes, raw_data_offset is %d"
                              % (k, r.i, raw))
        # raw data
        rawb = data[pos + 28 + raw:pos + 28 + nxt]
        rr = _Rd(rawb, "segment %d raw data" % k)
        values = []
        for en in entries:
            if en["idx"] is None:
                values.append([])
                continue
            _, dt, _, n, total = en["idx"]
            if dt == T_STRING:
                start = rr.i
                if 4 * n > len(rawb) - rr.i:
                    raise StrictError("raw-length", "segment %d object %s: %d string offsets do not fit"
                                      % (k, en["path"], n))
                offs = [rr.u32("string offset") for _ in range(n)]
                prev, vals = 0, []
                for o in offs:
                    if o < prev:
                        raise StrictError("string-offsets", "segment %d object %s: offsets decrease" % (k, en["path"]))
                    vals.append(rr.take(o - prev, "string data"))
                    prev = o
                if total != rr.i - start:
                    raise StrictError("string-total", "segment %d object %s: declared total size %d, actual "
                                      "4*%d + %d" % (k, en["path"], total, n, prev))
                values.append(vals)
            else:
                sz = SIZES[dt]
                if sz * n > len(rawb) - rr.i:
                    raise StrictError("raw-length", "segment %d object %s: %d values of %d bytes do not fit in the "
                                      "raw data" % (k, en["path"], n, sz))
                values.append([rr.take(sz, "value") for _ in range(n)])
        if rr.i != len(rawb):
            raise StrictError("raw-length", "segment %d: next_segment_offset - raw_data_offset = %d but the declared "
                              "types and counts imply %d bytes" % (k, len(rawb), rr.i))
        # hierarchy
        seen = set()
        for en in entries:
            p = en["path"]
            comps = split_path(p)
            if comps is None or make_path(*comps) != p:
                raise StrictError("path", "segment %d: %r is not a canonical object path" % (k, p))
            if p in seen:
                raise StrictError("duplicate", "segment %d: path %r listed twice" % (k, p))
            if len(comps) == 2 and make_path(comps[0]) not in declared:
                raise StrictError("group-order", "segment %d: channel %r before its group object" % (k, p))
            seen.add(p)
            declared.add(p)
        if k == 0 and "/" not in seen:
            raise StrictError("root", "first segment does not declare the root object")
        segs.append({"pos": pos, "toc": toc, "version": ver, "next": nxt, "raw": raw, "entries": entries,
                     "values": values, "meta": meta})
        pos += 28 + nxt
    return segs


def py_strip(data):
    """The data file with raw data removed and the tag replaced (positional)."""
    out, pos = [], 0
    while pos < len(data):
        nxt, raw = struct.unpack("<QQ", data[pos + 12:pos + 28])
        out.append(b"TDSh" + data[pos + 4:pos + 28 + raw])
        pos += 28 + nxt
    return b"".join(out)


# ---------------------------------------------------------------------------
# generator

NAMES = ["g", "grp", "a'b", "/", "é", "中文", "\U0001f600", "", " ", "x/y'z", "''", "Grp", "g2", "0", "é́",
         "a\nb", "'", "//", "long name with spaces"]
PNAMES = ["p", "prop", "unit_string", "wf_increment", "é", "中", "", "a'b", "NI_x", "P", "description",
          "\U0001f600k", "wf_start_time", "p\x00", "unit_string\x00"]
TEXTS = ["", "a", "abc", "é", "中文字", "\U0001f600", "a'b/c", "line\nbreak", "x" * 40, " ", "é́", "nul\x00mid"]
# text ending in NUL: allowed wherever the text does not pass through a fixed-width NumPy unicode array (property
# values, property names, object arrays of strings)
TEXTS_NUL = TEXTS + ["end\x00", "\x00", "a\x00\x00"]
INT_PROPS = sorted({0, 1, -1, 5, 127, 128, -128, -129, 2 ** 31 - 1, 2 ** 31, 2 ** 31 + 1, -2 ** 31, -2 ** 31 - 1,
                    -2 ** 31 + 1, 2 ** 32, 2 ** 63 - 1, 2 ** 63, 2 ** 63 + 1, -2 ** 63, -2 ** 63 + 1, 2 ** 64 - 1,
                    123456789012, -987654321098})
INT_PROPS_REJECT = [2 ** 64, -2 ** 63 - 1, 2 ** 70]
FLOATS = [0.0, -0.0, 1.0, -1.5, 3.141592653589793, 1e308, -1e308, 5e-324, 2.2250738585072014e-308,
          float("inf"), float("-inf"), float("nan"), 1e-7, 123456.789]

# dtype classes of _infer_dtype: (lo, hi) of the class, anchors that force the class
INT_CLASSES = {
    "int8": (-2 ** 7, 2 ** 7 - 1), "uint8": (0, 2 ** 8 - 1), "int16": (-2 ** 15, 2 ** 15 - 1),
    "uint16": (0, 2 ** 16 - 1), "int32": (-2 ** 31, 2 ** 31 - 1), "uint32": (0, 2 ** 32 - 1),
    "int64": (-2 ** 63, 2 ** 63 - 1), "uint64": (0, 2 ** 64 - 1)}
# lists that force each class (every generated list of a channel contains one of these)
INT_ANCHORS = {
    "int8": [[0], [-1], [127], [-128], [-128, 127], [1, 2, 3]],
    "uint8": [[128], [255], [0, 128], [200, 255]],
    "int16": [[256], [-129], [32767], [-32768], [-1, 128], [-32768, 32767]],
    "uint16": [[32768], [65535], [0, 32768]],
    "int32": [[65536], [-32769], [2 ** 31 - 1], [-2 ** 31], [-1, 32768], [-2 ** 31, 2 ** 31 - 1]],
    "uint32": [[2 ** 31], [2 ** 32 - 1], [0, 2 ** 31]],
    "int64": [[2 ** 32], [-2 ** 31 - 1], [2 ** 63 - 1], [-2 ** 63], [-2 ** 63, 2 ** 63 - 1], [-1, 2 ** 32]],
    "uint64": [[2 ** 63], [2 ** 64 - 1], [0, 2 ** 63]]}
# holes of the chain and out-of-range lists: NumPy refuses them (the writer does not accept the call)
INT_HOLES = [[2 ** 31, -1], [2 ** 32 - 1, -5], [2 ** 63, -1], [2 ** 64 - 1, -2 ** 63], [2 ** 64], [0, 2 ** 64],
             [-2 ** 63 - 1], [2 ** 15, -1], [2 ** 7, -1], [255, -128], [65535, -1]]

ARRAY_DTYPES = list(NP_TYPES)


def special_bytes(rng, dtype, n):
    """n values of the dtype as little-endian bytes: extremes, NaN payloads, random patterns."""
    size = np.dtype(dtype).itemsize
    out = []
    for _ in range(n):
        if dtype == "bool":
            out.append(bytes([rng.randint(0, 1)]))
            continue
        c = rng.random()
        if c < 0.15:
            v = b"\x00" * size
        elif c < 0.3:
            v = b"\xff" * size                       # -1 / max / NaN with full payload
        elif c < 0.4:
            v = b"\xff" * (size - 1) + b"\x7f"       # max signed / NaN
        elif c < 0.5:
            v = b"\x00" * (size - 1) + b"\x80"       # min signed / -0.0
        elif c < 0.6 and dtype in ("float32", "float64", "complex64", "complex128"):
            # signalling / quiet NaNs with odd payloads, infinities, denormals
            f = 4 if dtype in ("float32", "complex64") else 8
            pats = {4: [b"\x01\x00\x80\x7f", b"\x00\x00\xc0\xff", b"\x00\x00\x80\x7f", b"\x01\x00\x00\x00"],
                    8: [b"\x01\x00\x00\x00\x00\x00\xf0\x7f", b"\x00\x00\x00\x00\x00\x00\xf8\xff",
                        b"\x00\x00\x00\x00\x00\x00\xf0\x7f", b"\x01\x00\x00\x00\x00\x00\x00\x00"]}[f]
            v = b"".join(rng.choice(pats) for _ in range(size // f))
        else:
            v = bytes(rng.randint(0, 255) for _ in range(size))
        out.append(v)
    return b"".join(out)


def gen_ms_datetime(rng):
    """microseconds since the Unix epoch, a whole number of milliseconds, 1900..2100"""
    c = rng.random()
    if c < 0.1:
        base = EPOCH_1904_US + rng.choice([0, 1000, -1000, 10 ** 6, -10 ** 6, 999000, -999000])
    elif c < 0.2:
        base = rng.choice([0, 1000, -1000, 10 ** 6 - 1000])
    else:
        base = rng.randint(-2208988800, 4102444800) * 10 ** 6 + rng.randint(0, 999) * 1000
    return base


def f32_scalar_hex(rng):
    """a float32 for a scalar property.  Scalars pass through Python floats (float32 -> double ->
    float32), where the hardware quiets signalling NaNs and drops nothing else: NaNs are replaced by the
    canonical quiet NaN so that the expected bytes are well defined (array data keeps every payload)."""
    b = special_bytes(rng, "float32", 1)
    v = struct.unpack("<f", b)[0]
    return (b"\x00\x00\xc0\x7f" if v != v else b).hex()


def gen_prop(rng, cfg):
    """one property value: [kind, payload]"""
    c = rng.random()
    if c < 0.22:
        return ["int", rng.choice(INT_PROPS) if rng.random() < 0.8 else rng.randint(-2 ** 40, 2 ** 40)]
    if c < 0.228 and cfg["rejects"]:
        return ["int", rng.choice(INT_PROPS_REJECT)]
    if c < 0.33:
        return ["float", struct.pack("<d", rng.choice(FLOATS) if rng.random() < 0.7 else rng.uniform(-1e6, 1e6)).hex()]
    if c < 0.38:
        return ["bool", bool(rng.randint(0, 1))]
    if c < 0.41:
        return ["npbool", bool(rng.randint(0, 1))]
    if c < 0.53:
        return ["str", rng.choice(TEXTS_NUL)]
    if c < 0.535 and cfg["rejects"]:
        return ["bytes", rng.choice(["", "6162"])]
    if c < 0.66:
        dt = rng.choice(["int8", "int16", "int32", "int64", "uint8", "uint16", "uint32", "uint64", "float32",
                         "float64"])
        return ["npscalar", [dt, f32_scalar_hex(rng) if dt == "float32" else special_bytes(rng, dt, 1).hex()]]
    if c < 0.665 and cfg["rejects"]:
        return ["npscalar_bad", rng.choice(["complex64", "complex128", "float16"])]
    if c < 0.83:
        w = rng.choice(list(WRAPPERS))
        ty = WRAPPERS[w]
        if ty in INT_FMT:
            lo, hi = INT_CLASSES[TYPE_NP[ty]]
            return ["wrapper", [w, rng.choice([lo, hi, 0, 1, rng.randint(lo, hi)])]]
        if w == "SingleFloat":
            return ["wrapper", [w, f32_scalar_hex(rng)]]
        if w == "DoubleFloat":
            return ["wrapper", [w, special_bytes(rng, "float64", 1).hex()]]
        if w == "String":
            return ["wrapper", [w, rng.choice(TEXTS_NUL)]]
        if w == "Boolean":
            return ["wrapper", [w, bool(rng.randint(0, 1))]]
        return ["wrapper", [w, gen_ms_datetime(rng)]]
    if c < 0.89:
        return ["datetime", gen_ms_datetime(rng)]
    if c < 0.94:
        return ["datetime64", gen_ms_datetime(rng)]
    # seconds stay where datetime64[us] can hold them (conversion limits are C12's subject)
    return ["tdmstimestamp", [rng.choice([0, -1, 1, -2 ** 40, 2 ** 40, rng.randint(-2 ** 40, 2 ** 40)]),
                              rng.choice([0, 1, 2 ** 64 - 1, 2 ** 63, rng.randint(0, 2 ** 64 - 1)])]]


def gen_props(rng, cfg):
    n = rng.choice([0, 0, 0, 1, 1, 2, 3])
    names = rng.sample(PNAMES, n)
    return [[nm] + gen_prop(rng, cfg) for nm in names]


def gen_data(rng, spec, cfg):
    """data for one call of a channel whose kind was fixed by `spec`"""
    kind = spec["kind"]
    n = rng.choice([0, 1, 1, 2, 3, 5, 8])
    if kind == "array":
        dt = spec["dtype"]
        order = ">" if (cfg["d11"] and rng.random() < 0.12 and np.dtype(dt).itemsize > 1) else "<"
        return {"kind": "array", "dtype": dt, "hex": special_bytes(rng, dt, n).hex(), "order": order,
                "strided": rng.random() < 0.12}
    if kind == "intlist":
        cls = spec["cls"]
        if cfg["rejects"] and rng.random() < 0.03:
            return {"kind": "intlist", "vals": rng.choice(INT_HOLES), "tuple": False}
        lo, hi = INT_CLASSES[cls]
        vals = list(rng.choice(INT_ANCHORS[cls]))
        alo, ahi = min(vals), max(vals)
        # further values must not move the class: keep them between the anchors' extremes
        for _ in range(rng.choice([0, 0, 1, 2, 4])):
            vals.append(rng.randint(alo, ahi))
        rng.shuffle(vals)
        return {"kind": "intlist", "vals": vals, "tuple": rng.random() < 0.15}
    if kind == "mixedlist":
        # ints and floats mixed; in two of the shapes the smallest and the largest element are both ints
        return {"kind": "mixedlist", "vals": rng.choice([[1, 2.5, -3], [0, 0.25, 0.5, 1], [-3, 1.5, 4], [2, 2.5]])}
    if kind == "boollist":
        return {"kind": "boollist", "vals": [bool(rng.randint(0, 1)) for _ in range(max(1, n))]}
    if kind == "floatlist":
        if n == 0:
            return {"kind": "empty", "of": "list"}
        return {"kind": "floatlist", "hex": [struct.pack("<d", rng.choice(FLOATS) if rng.random() < 0.6
                                                         else rng.uniform(-1e9, 1e9)).hex() for _ in range(n)]}
    if kind == "strlist":
        how = spec["as"]
        if n == 0:
            return {"kind": "empty", "of": "objarray"}
        vals = [rng.choice(TEXTS_NUL if how == "objarray" else TEXTS) for _ in range(n)]
        return {"kind": "strlist", "vals": vals, "as": how}
    if kind == "datetimes":
        how = spec["as"]
        if n == 0:
            return {"kind": "empty", "of": "datetime64"}
        us = [gen_ms_datetime(rng) for _ in range(n)]
        if how == "array_s":
            us = [u - u % 10 ** 6 for u in us]
        return {"kind": "datetimes", "us": us, "as": how}
    raise AssertionError(kind)


def gen_spec(rng, cfg):
    c = rng.random()
    if cfg["d12"] and c < 0.03:
        return {"kind": "mixedlist"}
    if c < 0.42:
        return {"kind": "array", "dtype": rng.choice(ARRAY_DTYPES)}
    if c < 0.62:
        return {"kind": "intlist", "cls": rng.choice(list(INT_CLASSES))}
    if c < 0.66:
        return {"kind": "boollist"}
    if c < 0.74:
        return {"kind": "floatlist"}
    if c < 0.88:
        return {"kind": "strlist", "as": rng.choice(["list", "objarray"])}
    return {"kind": "datetimes", "as": rng.choice(["list", "array_us", "array_ms", "array_s"])}


def gen_case(rng, cfg):
    """cfg: {"rejects": include inputs the writer refuses, "d11": non-native byte order arrays,
    "d12": mixed int/float lists}"""
    ngroups = rng.choice([1, 1, 2, 3])
    groups = rng.sample(NAMES, ngroups)
    chans = []
    for g in groups:
        for c in rng.sample(NAMES, rng.choice([0, 1, 1, 2, 3])):
            chans.append((g, c, gen_spec(rng, cfg)))
    if not chans and rng.random() < 0.7:
        chans.append((groups[0], rng.choice(NAMES), gen_spec(rng, cfg)))
    ncalls = rng.choice([1, 1, 2, 2, 3, 4, 5])
    nsess = min(ncalls, rng.choice([1, 1, 1, 2, 2, 3]))
    calls = []
    refused = False
    for _ in range(ncalls):
        objs = []
        if rng.random() < 0.25:
            objs.append({"k": "root", "props": gen_props(rng, cfg)})
        for g in groups:
            if rng.random() < 0.3:
                objs.append({"k": "group", "name": g, "props": gen_props(rng, cfg)})
        for (g, c, spec) in chans:
            if rng.random() < 0.55:
                objs.append({"k": "chan", "group": g, "name": c, "data": gen_data(rng, spec, cfg),
                             "props": gen_props(rng, cfg)})
        rng.shuffle(objs)
        objs = objs[:6]
        if objs and cfg["rejects"] and rng.random() < 0.03:
            objs.append(dict(rng.choice(objs)))          # the same path twice: ValueError
            refused = True
        calls.append(objs)
    # split the calls over the sessions (every session gets at least one call)
    cuts = sorted(rng.sample(range(1, ncalls), nsess - 1)) if nsess > 1 else []
    sessions, prev = [], 0
    for c in cuts + [ncalls]:
        sessions.append(calls[prev:c])
        prev = c
    target = "path" if nsess > 1 or rng.random() < 0.4 else "stream"
    case = {"version": rng.choice([4712, 4713]), "index": rng.choice(["off", "on", "on"]), "target": target,
            "sessions": sessions}
    if refused and rng.random() < 0.6:
        case["continue_after_reject"] = True     # the refused call is caught, the writer keeps being used
    if target == "path" and rng.random() < 0.35:
        case["first_mode"] = rng.choice(["a", "a_empty"])
    if rng.random() < 0.35:
        case["reuse_objects"] = True     # root / group objects are kept and only their properties replaced
    return case


# ---------------------------------------------------------------------------
# Python objects for the real writer, and the typed expectation

class Unsupported(Exception):
    """the case contains a value the model has no term for (the writer is expected to refuse it)"""


def us_to_datetime(us):
    return _dt.datetime(1970, 1, 1) + _dt.timedelta(microseconds=us)


def ts_expected(us):
    """(seconds since 1904, microseconds within the second) of a datetime"""
    d = us - EPOCH_1904_US
    return d // 10 ** 6, d % 10 ** 6


def build_prop(kind, payload):
    """-> (python value, expected) with expected = ("int", v) | ("typed", type, bytes) |
    ("ts", seconds, micro) (bytes taken from the file, checked loosely) | ("reject",)"""
    from nptdms import types
    from nptdms.timestamp import TdmsTimestamp
    if kind == "int":
        return payload, ("int", payload)
    if kind == "float":
        b = bytes.fromhex(payload)
        return struct.unpack("<d", b)[0], ("typed", 10, struct.pack("<d", struct.unpack("<d", b)[0]))
    if kind == "bool":
        return payload, ("typed", T_BOOL, bytes([int(payload)]))
    if kind == "npbool":
        return np.bool_(payload), ("typed", T_BOOL, bytes([int(payload)]))
    if kind == "str":
        return payload, ("typed", T_STRING, payload.encode("utf-8"))
    if kind == "bytes":
        return bytes.fromhex(payload), ("reject",)
    if kind == "npscalar":
        dt, hx = payload
        v = np.frombuffer(bytes.fromhex(hx), dtype=np.dtype(dt).newbyteorder("<"))[0]
        return v, ("typed", NP_TYPES[dt], bytes.fromhex(hx))
    if kind == "npscalar_bad":
        return np.dtype(payload).type(1), ("reject",)
    if kind == "wrapper":
        w, p = payload
        cls = getattr(types, w)
        ty = WRAPPERS[w]
        if ty in INT_FMT:
            return cls(p), ("typed", ty, struct.pack("<" + INT_FMT[ty], p))
        if w == "SingleFloat":
            v = struct.unpack("<f", bytes.fromhex(p))[0]
            return cls(v), ("typed", ty, struct.pack("<f", v))
        if w == "DoubleFloat":
            v = struct.unpack("<d", bytes.fromhex(p))[0]
            return cls(v), ("typed", ty, struct.pack("<d", v))
        if w == "String":
            return cls(p), ("typed", ty, p.encode("utf-8"))
        if w == "Boolean":
            return cls(p), ("typed", ty, bytes([int(p)]))
        return cls(us_to_datetime(p)), ("ts",) + ts_expected(p)
    if kind == "datetime":
        return us_to_datetime(payload), ("ts",) + ts_expected(payload)
    if kind == "datetime64":
        return np.datetime64(payload, "us"), ("ts",) + ts_expected(payload)
    if kind == "tdmstimestamp":
        s, f = payload
        return TdmsTimestamp(s, f), ("typed", T_TIME, struct.pack("<Qq", f, s))
    raise AssertionError(kind)


def build_data(d):
    """-> (python data, expected) with expected = ("typed", type, [value bytes]) | ("ints", [ints]) |
    ("ts", [(seconds, micro)]) | ("void",) | ("mixed",)"""
    kind = d["kind"]
    if kind == "array":
        dt = np.dtype(d["dtype"])
        raw = bytes.fromhex(d["hex"])
        arr = np.frombuffer(raw, dtype=dt.newbyteorder("<")).copy()
        n = len(arr)
        if d["order"] == ">":
            arr = arr.astype(dt.newbyteorder(">"))
        if d.get("strided"):
            wide = np.zeros(2 * n, dtype=arr.dtype)
            wide[::2] = arr
            arr = wide[::2]
        sz = dt.itemsize
        return arr, ("typed", NP_TYPES[d["dtype"]], [raw[i * sz:(i + 1) * sz] for i in range(n)])
    if kind == "intlist":
        return (tuple(d["vals"]) if d.get("tuple") else list(d["vals"])), ("ints", list(d["vals"]))
    if kind == "boollist":
        return list(d["vals"]), ("ints", [int(v) for v in d["vals"]])
    if kind == "mixedlist":
        return list(d["vals"]), ("mixed", list(d["vals"]))
    if kind == "floatlist":
        fl = [struct.unpack("<d", bytes.fromhex(h))[0] for h in d["hex"]]
        return fl, ("typed", 10, [struct.pack("<d", v) for v in fl])
    if kind == "strlist":
        vals = list(d["vals"])
        py = np.array(vals, dtype=object) if d["as"] == "objarray" else vals
        if d["as"] == "list":
            # NumPy's fixed-width unicode arrays drop trailing NULs: outside the generated domain
            assert not any(v.endswith("\x00") for v in vals)
        return py, ("typed", T_STRING, [v.encode("utf-8") for v in vals])
    if kind == "datetimes":
        us = d["us"]
        if d["as"] == "list":
            py = [us_to_datetime(u) for u in us]
        else:
            unit = d["as"].split("_")[1]
            py = np.array(us, dtype="datetime64[us]").astype("datetime64[%s]" % unit)
        return py, ("ts", [ts_expected(u) for u in us])
    if kind == "empty":
        of = d["of"]
        if of == "list":
            return [], ("typed", 10, [])
        if of == "datetime64":
            return np.array([], dtype="datetime64[us]"), ("void",)
        if of == "objarray":
            return np.array([], dtype=object), ("void",)
        return np.array([], dtype=of), ("typed", NP_TYPES[of], [])
    raise AssertionError(kind)


def prepare_call(objs):
    """-> (constructor thunks, expectations); nothing of the writer runs yet"""
    from nptdms import RootObject, GroupObject, ChannelObject
    thunks, exp = [], []
    for o in objs:
        props, eprops = {}, []
        for (name, kind, payload) in o["props"]:
            v, e = build_prop(kind, payload)
            props[name] = v
            eprops.append((name, e))
        if o["k"] == "root":
            thunks.append((RootObject, (props,)))
            exp.append({"path": "/", "props": eprops, "data": None})
        elif o["k"] == "group":
            thunks.append((GroupObject, (o["name"], props)))
            exp.append({"path": make_path(o["name"]), "props": eprops, "data": None})
        else:
            data, edata = build_data(o["data"])
            thunks.append((ChannelObject, (o["group"], o["name"], data, props)))
            dk = o["data"]
            exp.append({"path": make_path(o["group"], o["name"]), "props": eprops, "data": edata,
                        "group": o["group"], "name": o["name"], "kind": dk["kind"],
                        "order": dk.get("order", "<"),
                        "np_dtype": dk.get("dtype") if dk["kind"] == "array" else
                        (dk["of"] if dk["kind"] == "empty" and dk["of"] in NP_TYPES else None)})
    return thunks, exp


def run_writer(case, workdir, tag):
    """Run the real TdmsWriter. -> dict(data=bytes, index=bytes|None, exps=[[call expectation]] per session)
    or dict(rejected=(session, call, exception), exps=...) (exps include the refused call)"""
    from nptdms import TdmsWriter
    version, want_index = case["version"], case["index"] == "on"
    exps = []
    skipped = []
    live = {}
    if case["target"] == "stream":
        buf, ibuf = io.BytesIO(), (io.BytesIO() if want_index else False)
        files = None
    else:
        files = os.path.join(str(workdir), "%s.tdms" % tag)
        for p in (files, files + "_index"):
            if os.path.exists(p):
                os.remove(p)
    try:
        for si, calls in enumerate(case["sessions"]):
            sexp = []
            exps.append(sexp)
            if files is None:
                w = TdmsWriter(buf, version=version, index_file=ibuf)
            else:
                # the first session of a path target may itself be an append session: on a path that does not
                # exist yet, or on an existing EMPTY file (an earlier session that wrote nothing) - the file it
                # produces must be the one mode 'w' produces
                first = case.get("first_mode", "w")
                if si == 0 and first == "a_empty":
                    open(files, "wb").close()
                    if want_index:
                        open(files + "_index", "wb").close()
                w = TdmsWriter(files, mode=("w" if first == "w" else "a") if si == 0 else "a", version=version,
                               index_file=want_index)
            with w:
                for ci, objs in enumerate(calls):
                    thunks, exp = prepare_call(objs)
                    sexp.append(exp)
                    try:
                        objects = []
                        for (cls, args) in thunks:
                            key = (cls.__name__,) + tuple(a for a in args[:-1] if isinstance(a, str))
                            if case.get("reuse_objects") and cls.__name__ in ("RootObject", "GroupObject") \
                                    and key in live:
                                # the application keeps its RootObject / GroupObject and only replaces the
                                # properties between segments
                                obj = live[key]
                                obj.properties = args[-1]
                            else:
                                obj = cls(*args)
                                live[key] = obj
                            objects.append(obj)
                        w.write_segment(objects)
                    except Exception as e:  # the writer (or NumPy underneath it) refuses the call
                        if case.get("continue_after_reject"):
                            # the application catches the error and goes on with the same writer: a refused call
                            # must leave no trace (expectations describe the accepted calls only)
                            sexp.pop()
                            skipped.append((si, ci, type(e).__name__))
                            continue
                        return {"rejected": (si, ci, e), "exps": exps}
        if files is None:
            return {"data": buf.getvalue(), "index": ibuf.getvalue() if want_index else None, "exps": exps,
                    "skipped": skipped}
        data = open(files, "rb").read()
        index = open(files + "_index", "rb").read() if want_index else None
        return {"data": data, "index": index, "exps": exps, "skipped": skipped}
    finally:
        if files is not None:
            for p in (files, files + "_index"):
                if os.path.exists(p):
                    os.remove(p)


# ---------------------------------------------------------------------------
# expectation of each call as the model sees it (needs the timestamp bytes from the file)

def ts_bytes_ok(b, seconds, micro):
    """the 16 bytes encode `seconds` and a fraction within one microsecond of `micro`"""
    f, s = struct.unpack("<Qq", b)
    lo = (micro - 1) * 2 ** 64 // 10 ** 6
    hi = (micro + 1) * 2 ** 64 // 10 ** 6
    return s == seconds and lo <= f <= hi


def resolve_timestamps(exps_flat, segs):
    """Fill the timestamp bytes of datetime-valued properties / data from the parsed file (the
    encoding of second fractions is C12's subject).  exps_flat: one expectation list per segment.
    Returns a list of problems (strings)."""
    problems = []
    for k, (exp, seg) in enumerate(zip(exps_flat, segs)):
        by_path = {en["path"]: (en, vals) for en, vals in zip(seg["entries"], seg["values"])}
        for o in exp:
            got = by_path.get(o["path"])
            if got is None:
                problems.append("segment %d: object %s not in the file" % (k, o["path"]))
                continue
            en, vals = got
            fp = {n: (t, v) for (n, t, v) in en["props"]}
            for i, (name, e) in enumerate(o["props"]):
                if e[0] == "ts":
                    t, v = fp.get(name, (None, None))
                    if t != T_TIME or not ts_bytes_ok(v, e[1], e[2]):
                        problems.append("segment %d %s property %r: expected timestamp (%d s, %d us), file has type "
                                        "%r bytes %r" % (k, o["path"], name, e[1], e[2], t, v and v.hex()))
                        o["props"][i] = (name, ("typed", T_TIME, b"\x00" * 16))
                    else:
                        o["props"][i] = (name, ("typed", T_TIME, v, e[1], e[2]))
            d = o["data"]
            if d is not None and d[0] == "ts":
                if en["idx"] is None or en["idx"][1] != T_TIME or len(vals) != len(d[1]) or \
                        not all(ts_bytes_ok(v, s, m) for v, (s, m) in zip(vals, d[1])):
                    problems.append("segment %d %s: timestamp data not as expected" % (k, o["path"]))
                    o["data"] = ("typed", T_TIME, [b"\x00" * 16] * len(d[1]), d[1])
                else:
                    o["data"] = ("typed", T_TIME, list(vals), d[1])
    return problems


# ---------------------------------------------------------------------------
# Coq terms

def c_bytes(b):
    return H.chex(b)


def c_str(s):
    return H.chex(s.encode("utf-8"))


def c_prop(name, e):
    if e[0] == "int":
        return "PPInt %s %s" % (c_str(name), H.cz(e[1]))
    if e[0] == "typed":
        return "PPTyped (mkProp %s %d %s)" % (c_str(name), e[1], c_bytes(e[2]))
    if e[0] == "ts":        # rejected before anything was written: any 16 bytes do
        return "PPTyped (mkProp %s %d %s)" % (c_str(name), T_TIME, c_bytes(b"\x00" * 16))
    raise Unsupported(e[0])


def c_data(d):
    if d[0] == "typed":
        return "PDTyped %d %s" % (d[1], H.clist([c_bytes(v) for v in d[2]]))
    if d[0] == "ints":
        return "PDInts %s" % H.clist([H.cz(v) for v in d[1]])
    if d[0] == "void":
        return "PDTyped 0 []"
    if d[0] == "ts":
        return "PDTyped %d %s" % (T_TIME, H.clist([c_bytes(b"\x00" * 16) for _ in d[1]]))
    raise Unsupported(d[0])


def c_obj(o):
    props = H.clist([c_prop(n, e) for (n, e) in o["props"]])
    comps = split_path(o["path"])
    if len(comps) == 0:
        return "PyRoot %s" % props
    if len(comps) == 1:
        return "PyGroup %s %s" % (c_str(comps[0]), props)
    return "PyChan %s %s (%s) %s" % (c_str(o["group"]), c_str(o["name"]), c_data(o["data"]), props)


def c_sessions(version, exps):
    return H.clist(["(%s, %s)" % (H.cz(version), H.clist([H.clist([c_obj(o) for o in call]) for call in sess]))
                    for sess in exps])


CASE_TYPE = "list (Z * list (list pyobj)) * option (bytes * option bytes)"
IMPORTS = ("From NpTdms Require Import Base.Bytes Base.Res Model.Tokens Model.ByteStr Model.StrictParse "
           "Model.Writer.\nOpen Scope Z_scope.\n")


def c_case(version, exps, data, index):
    obs = "None" if data is None else "(Some (%s, %s))" % (c_bytes(data), H.copt(index, c_bytes))
    return "(%s, %s)" % (c_sessions(version, exps), obs)


# ---------------------------------------------------------------------------
# expected content of the file (what the calls said) and the read-back oracle

def expected_content(exps):
    """exps: per session, per call, the expectations.  -> (objects, channels, group order)
    objects: path -> {name: expectation} (last value wins, insertion ordered);
    channels: path -> dict(group, name, parts=[data expectation per call], order flags)"""
    from collections import OrderedDict
    objects, channels, groups = OrderedDict(), OrderedDict(), []
    for sess in exps:
        root_written, written = False, set()
        for call in sess:
            inc = [split_path(o["path"])[0] for o in call if len(split_path(o["path"])) == 1]
            req = [o["group"] for o in call if o["data"] is not None]
            add = sorted(set(req) - set(inc) - written)
            if not root_written and not any(o["path"] == "/" for o in call):
                objects.setdefault("/", OrderedDict())
            root_written = True
            for o in call:
                if o["path"] == "/":
                    objects.setdefault("/", OrderedDict())
            for g in inc + add:
                if g not in groups:
                    groups.append(g)
                objects.setdefault(make_path(g), OrderedDict())
            written.update(inc)
            written.update(add)
            for o in call:
                d = objects.setdefault(o["path"], OrderedDict())
                for (name, e) in o["props"]:
                    d[name] = e
                if o["data"] is not None:
                    ch = channels.setdefault(o["path"], {"group": o["group"], "name": o["name"], "parts": [],
                                                         "np_dtype": None, "flags": set()})
                    ch["parts"].append(o["data"])
                    if o["np_dtype"]:
                        ch["np_dtype"] = o["np_dtype"]
                    if o["order"] == ">":
                        ch["flags"].add("d11-nonnative-byteorder")
                    if o["kind"] == "mixedlist":
                        ch["flags"].add("d12-mixed-int-float-list")
    return objects, channels, groups


def le_bytes(arr):
    arr = np.asarray(arr)
    return arr.astype(arr.dtype.newbyteorder("<"), copy=False).tobytes()


def prop_matches(value, raw_value, e):
    """value: what TdmsFile.read returned; raw_value: with raw_timestamps=True; e: expectation"""
    if e[0] == "int":
        return type(value) is int and value == e[1]
    ty, b = e[1], e[2]
    if ty in INT_FMT:
        return type(value) is int and struct.pack("<" + INT_FMT[ty], value) == b
    if ty == 9:
        return type(value) is float and struct.pack("<f", value) == b
    if ty == 10:
        return type(value) is float and struct.pack("<d", value) == b
    if ty == T_BOOL:
        return type(value) is bool and bytes([int(value)]) == b
    if ty == T_STRING:
        return type(value) is str and value.encode("utf-8") == b
    if ty == T_TIME:
        f, s = struct.unpack("<Qq", b)
        if not (getattr(raw_value, "seconds", None) == s and getattr(raw_value, "second_fractions", None) == f):
            return False
        if len(e) >= 5:     # written from a (whole millisecond) datetime: the datetime comes back
            want = np.datetime64(EPOCH_1904_US + e[3] * 10 ** 6 + e[4], "us")
            return isinstance(value, np.datetime64) and value == want and value.dtype == np.dtype("<M8[us]")
        return isinstance(value, np.datetime64)
    return False


def readback(data, exps, segs):
    """The C07 oracle.  -> list of (key, what, expected, actual)"""
    from nptdms import TdmsFile
    out = []
    objects, channels, groups = expected_content(exps)
    try:
        f = TdmsFile.read(io.BytesIO(data))
        fr = TdmsFile.read(io.BytesIO(data), raw_timestamps=True)
    except Exception as e:
        return [("read-raises", "TdmsFile.read of the written bytes raised %r" % e, "content", repr(e))]
    # names
    got_groups = [g.name for g in f.groups()]
    if got_groups != groups:
        out.append(("names", "group names/order", groups, got_groups))
        return out
    for g in groups:
        want = [c["name"] for c in channels.values() if c["group"] == g]
        got = [c.name for c in f[g].channels()]
        if want != got:
            out.append(("names", "channels of group %r" % g, want, got))
            return out
    # TDMS types of properties: the last one written, as the file declares it
    last_type = {}
    for seg in segs:
        for en in seg["entries"]:
            for (n, t, v) in en["props"]:
                last_type[(en["path"], n)] = t
    # properties
    for path, props in objects.items():
        comps = split_path(path)
        try:
            o = f if not comps else f[comps[0]] if len(comps) == 1 else f[comps[0]][comps[1]]
            orr = fr if not comps else fr[comps[0]] if len(comps) == 1 else fr[comps[0]][comps[1]]
        except KeyError:
            out.append(("names", "object %r cannot be looked up" % path, path, None))
            continue
        got, gotr = o.properties, orr.properties
        if list(got.keys()) != list(props.keys()):
            out.append(("readback-props", "property names of %r" % path, list(props.keys()), list(got.keys())))
            continue
        for name, e in props.items():
            want_type = {"int": None}.get(e[0], e[1] if len(e) > 1 else None)
            if e[0] == "int":
                v = e[1]
                want_type = 3 if -2 ** 31 <= v < 2 ** 31 else 4 if v < 2 ** 63 else 8
            if last_type.get((path, name)) != want_type:
                out.append(("readback-type", "TDMS type of property %r of %r" % (name, path), want_type,
                            last_type.get((path, name))))
            if not prop_matches(got[name], gotr[name], e):
                out.append(("readback-props", "value of property %r of %r" % (name, path),
                            [e[0]] + [x.hex() if isinstance(x, bytes) else x for x in e[1:]],
                            [repr(got[name]), repr(gotr[name])]))
    # channel data
    for path, c in channels.items():
        ch, chr_ = f[c["group"]][c["name"]], fr[c["group"]][c["name"]]
        key = sorted(c["flags"])[0] if c["flags"] else None
        parts = c["parts"]
        count = sum(len(p[1]) if p[0] in ("ints", "ts") else len(p[2]) if p[0] == "typed" else
                    len(p[1]) if p[0] == "mixed" else 0 for p in parts)
        try:
            arr, rawarr = ch[:], chr_[:]
        except Exception as e:
            out.append((key or "readback-values", "reading channel %r raised %r" % (path, e), count, repr(e)))
            continue
        if len(ch) != count or len(arr) != count:
            out.append((key or "readback-values", "length of channel %r" % path, count, [len(ch), len(arr)]))
            continue
        kinds = set(p[0] for p in parts if p[0] != "void")
        if not kinds:
            continue                                   # only empty untyped data: nothing more to compare
        if kinds == {"mixed"} or kinds == {"mixed", "ints"}:
            want = [float(v) for p in parts for v in p[1]]
            if [float(v) for v in arr] != want:
                out.append((key or "readback-values", "values of channel %r (list mixing int and float)" % path,
                            want, [float(v) for v in arr]))
            continue
        if kinds == {"ints"}:
            want = [v for p in parts if p[0] == "ints" for v in p[1]]
            if arr.dtype.kind not in "iu" or [int(v) for v in arr] != want:
                out.append((key or "readback-values", "values of channel %r (list of Python ints)" % path, want,
                            [str(arr.dtype)] + [int(v) for v in arr]))
            continue
        if len(kinds) != 1:
            continue                                   # generator keeps one kind per channel
        tys = set(p[1] for p in parts if p[0] == "typed")
        if len(tys) != 1:
            continue
        ty = tys.pop()
        vals = [v for p in parts if p[0] == "typed" for v in p[2]]
        if ty in TYPE_NP:
            want_dt = np.dtype(TYPE_NP[ty])
            if ch.dtype != want_dt or arr.dtype != want_dt:
                out.append((key or "readback-dtype", "dtype of channel %r" % path, str(want_dt),
                            [str(ch.dtype), str(arr.dtype)]))
            elif le_bytes(arr) != b"".join(vals):
                out.append((key or "readback-values", "values of channel %r (bit-exact, little-endian bytes)" % path,
                            b"".join(vals).hex(), le_bytes(arr).hex()))
        elif ty == T_STRING:
            got = list(arr)
            if arr.dtype != np.dtype("O") or not all(type(s) is str for s in got) or \
                    [s.encode("utf-8") for s in got] != vals:
                out.append((key or "readback-values", "strings of channel %r" % path,
                            [v.decode("utf-8") for v in vals], [repr(s) for s in got]))
        elif ty == T_TIME:
            raw_ok = (list(struct.pack("<Qq", int(fr_), int(s)) for s, fr_ in
                           zip(rawarr.seconds, rawarr.second_fractions)) == vals)
            if not raw_ok:
                out.append((key or "readback-values", "raw timestamps of channel %r" % path,
                            [v.hex() for v in vals], "seconds/second_fractions differ"))
            sm = [x for p in parts if p[0] == "typed" and len(p) > 3 for x in p[3]]
            want = np.array([EPOCH_1904_US + s * 10 ** 6 + m for (s, m) in sm], dtype="datetime64[us]")
            if arr.dtype != np.dtype("<M8[us]") or len(sm) != len(arr) or not (arr == want).all():
                out.append((key or "readback-values", "datetimes of channel %r (whole milliseconds)" % path,
                            [str(x) for x in want], [str(arr.dtype)] + [str(x) for x in arr]))
    return out


# ---------------------------------------------------------------------------
# driver shared by c07.py and c08.py

def flat(exps):
    return [call for sess in exps for call in sess]


def describe(case):
    n = sum(len(s) for s in case["sessions"])
    return "%d session(s), %d call(s), version %d, index %s, %s%s" % (
        len(case["sessions"]), n, case["version"], case["index"], case["target"],
        {"a": ", first session mode 'a' on a new path", "a_empty": ", first session mode 'a' on an empty file"}.get(
            case.get("first_mode"), ""))


def count_case(run, case):
    run.count("sessions_%d" % len(case["sessions"]))
    run.count("target_" + case["target"])
    run.count("index_" + case["index"])
    run.count("version_%d" % case["version"])
    for sess in case["sessions"]:
        for call in sess:
            run.count("calls")
            run.count("objects_per_call_%d" % len(call))
            for o in call:
                run.count("obj_" + o["k"])
                for (_, kind, _) in o["props"]:
                    run.count("prop_" + kind)
                if o["k"] == "chan":
                    d = o["data"]
                    label = d["kind"]
                    if label == "array":
                        label += "_" + d["dtype"] + ("_be" if d["order"] == ">" else "") + \
                            ("_strided" if d.get("strided") else "")
                    elif label == "empty":
                        label += "_" + d["of"]
                    elif label in ("strlist", "datetimes"):
                        label += "_" + d["as"]
                    run.count("data_" + label)


def process(run, cases, prop):
    """Run every case through the real writer, the oracle of `prop` ("C07" | "C08") and the model."""
    work = H.workdir(run.pid)
    file_cases, file_meta = [], []          # byte-exact correspondence with Model/Writer.v
    strict_cases, strict_meta = [], []      # Coq strict parser on the real bytes (C08)
    for k, case in enumerate(cases):
        count_case(run, case)
        res = run_writer(case, work, "c%d" % k)
        run.cov["evaluations"] += 1
        if "rejected" in res:
            si, ci, e = res["rejected"]
            run.count("not_accepted_" + type(e).__name__)
            try:
                file_cases.append(c_case(case["version"], res["exps"], None, None))
                file_meta.append((case, None, None, False))
            except Unsupported:
                run.count("not_accepted_outside_model")
            continue
        run.count("accepted")
        if res.get("skipped"):
            run.count("accepted_after_refused_calls")
        data, index = res["data"], res["index"]
        ncalls = len(flat(res["exps"]))
        nontrivial = ncalls >= 2 or any(o["data"] is not None and o["data"][0] != "void"
                                        for call in flat(res["exps"]) for o in call)
        if nontrivial:
            run.cov["distinct_nontrivial"] += 1
        if ncalls == 0:
            # every call was refused and caught: nothing may have been written (an empty stream is not a TDMS file,
            # so there is nothing to read back)
            run.count("accepted_nothing_written")
            if data or index:
                run.violation("refused-call-wrote-bytes", "every write_segment call was refused, yet %d data / %d index "
                              "bytes were written [%s]" % (len(data), len(index or b""), describe(case)), case,
                              expected=0, actual=len(data))
            continue
        problems = []
        oracle_bad = False
        try:
            segs = pystrict_lenient(data, problems)
        except StrictError as e:
            segs = None
            problems.append((e.key, e.what))
        if prop == "C08":
            for (key, what) in problems:
                oracle_bad = True
                run.violation(key, "structural: " + what + " [" + describe(case) + "]", case,
                              expected="a structurally valid segment", actual=what)
            if segs is not None and len(segs) != ncalls:
                oracle_bad = True
                run.violation("segment-count", "%d write_segment calls produced %d segments" % (ncalls, len(segs)),
                              case, expected=ncalls, actual=len(segs))
            if index is not None and segs is not None:
                twin = py_strip(data)
                if twin != index:
                    oracle_bad = True
                    run.violation("index-twin", "index file is not the data file with raw data removed and the tag "
                                  "replaced [" + describe(case) + "]", case, expected=twin.hex(), actual=index.hex())
            strict_cases.append("(%s, %s)" % (c_bytes(data), H.copt(index, c_bytes)))
            strict_meta.append((case, oracle_bad))
        if segs is None:
            if prop == "C07":
                run.violation("unparsable", "written bytes cannot be parsed: %s" % problems[-1][1], case,
                              actual=problems[-1][1])
            continue
        tsp = resolve_timestamps(flat(res["exps"]), segs) if len(segs) == ncalls else ["segment count"]
        if prop == "C07":
            for what in tsp[:1]:
                oracle_bad = True
                run.violation("timestamp-bytes", what, case, actual=what)
            for (key, what, exp, act) in readback(data, res["exps"], segs)[:2]:
                oracle_bad = True
                run.violation(key, "read back differs from what was written: " + what + " [" + describe(case) + "]",
                              case, expected=exp, actual=act)
        try:
            file_cases.append(c_case(case["version"], res["exps"], data, index))
            file_meta.append((case, data, index, oracle_bad or bool(problems)))
        except Unsupported:
            run.count("accepted_outside_model")
    # --- model correspondence: bytes of data and index file
    bad, errors = H.run_sharded(run.pid, IMPORTS, CASE_TYPE, "check_file_fixed", file_cases, shard=60,
                                tag="wr")
    run.corr_errors(errors)
    run.cov["traces_validated_against_impl"] += len(file_cases) - len(bad)
    if bad:
        # is it the unfixed code (D6 / D7)?  compare with the as-is model
        again, errors2 = H.run_sharded(run.pid, IMPORTS, CASE_TYPE, "check_file_asis",
                                       [file_cases[i] for i in bad], shard=60, tag="wr_asis")
        run.corr_errors(errors2)
        still = set(bad[i] for i in again)
        for i in bad:
            case, data, index, oracle_bad = file_meta[i]
            if i in still and oracle_bad:
                run.count("model_mismatch_on_a_case_the_oracle_already_reported")
                continue
            if i not in still:
                run.count("agrees_with_unfixed_model_only")
                if prop == "C08" and data is not None and not oracle_bad:
                    run.violation("d6-string-index-length", "writer output equals the model of the unfixed code "
                                  "(string index length 20) [" + describe(case) + "]", case)
                continue
            rc, out = H.coq_print_terms(run.pid, IMPORTS, [
                "match (do low <- lower_file (fst %s); wr_file low) with Ok (d, i) => (true, List.length d, List.length i) "
                "| Err _ => (false, O, O) end" % file_cases[i]], tag="show%d" % i)
            run.violation("corr-writer", "Model/Writer.v and TdmsWriter disagree [" + describe(case) + "]: "
                          "implementation %s" % ("refused the call" if data is None else "wrote %d bytes" % len(data)),
                          case, kind="correspondence-broken", theorem="Model.Writer.wr_file vs nptdms.TdmsWriter",
                          actual=None if data is None else data.hex(), model=out[-600:],
                          no_input=not oracle_bad)
    # --- Coq strict parser on the real bytes
    if strict_cases:
        bad, errors = H.run_sharded(run.pid, IMPORTS, "bytes * option bytes", "check_strict", strict_cases,
                                    shard=80, tag="strict")
        run.corr_errors(errors)
        run.cov["traces_validated_against_impl"] += len(strict_cases) - len(bad)
        badset = set(bad)
        for i, (case, oracle_bad) in enumerate(strict_meta):
            if (i in badset) != oracle_bad:
                if i in badset:
                    run.violation("coq-strict", "Coq strict_parse / index twin rejects the writer's bytes although the "
                                  "Python strict parser accepts them [" + describe(case) + "]", case,
                                  expected="strict_parse = Some _", actual="None")
                else:
                    run.violation("strict-parsers-disagree", "Python strict parser rejects, Coq strict_parse accepts "
                                  "[" + describe(case) + "]", case, kind="correspondence-broken",
                                  theorem="Model.StrictParse vs harness pystrict", no_input=True)


def pystrict_lenient(data, problems):
    """pystrict, but a wrong raw-index length field is recorded in `problems` and parsing continues."""
    global _LENIENT
    _LENIENT = problems
    try:
        return pystrict(data)
    finally:
        _LENIENT = None


_LENIENT = None
