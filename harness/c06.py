"""C06 — A file cut short by a crash reads as a prefix of the complete file.

For every generated well-formed file and EVERY cut offset from 4 to the file length:
eager and lazy reads succeed, every channel's values are a prefix of the complete file's and
contain the values of all segments wholly before the cut, len(channel) equals what is returned,
lazy == eager, and file_status.incomplete_final_segment is true exactly when the cut falls inside
a segment's raw data (explicit lengths) / whenever the surviving last segment carries the
length-unknown marker.  Correspondence: Model/Reader.v on the cut files (status included).
"""
import io
import os
import random
import sys
import warnings

sys.path.insert(0, os.path.dirname(os.path.abspath(__file__)))
import common as H

H.ensure_env()
import tdmsgen as G          # noqa: E402
import readerlib as R        # noqa: E402

G.silence_logs()


def read_struct(data, lazy):
    """-> ({path: (len(channel), [canonical values])}, incomplete flag, statuses) or raises"""
    from nptdms import TdmsFile
    with warnings.catch_warnings():
        warnings.simplefilter("ignore")
        if lazy:
            f = TdmsFile.open(io.BytesIO(data), raw_timestamps=True)
        else:
            f = TdmsFile.read(io.BytesIO(data), raw_timestamps=True)
        out = {}
        for g in f.groups():
            for ch in g.channels():
                if ch.data_type is None:
                    vals = []
                elif ch.data_type.enum_value == G.T_DAQMX:
                    d = ch.read_data(scaled=False) if lazy else ch.raw_scaler_data
                    vals = {int(k): G.canon_array_values(v) for k, v in d.items()} if isinstance(d, dict) else \
                        {0: G.canon_array_values(d)}
                else:
                    d = ch.read_data(scaled=False) if lazy else ch.raw_data
                    vals = G.canon_array_values(d)
                out[ch.path.encode("utf-8")] = (len(ch), vals)
        st = f.file_status
        stat = None
        if st.channel_statuses is not None:
            stat = {p: (int(s.expected_length), int(s.read_length)) for p, s in st.channel_statuses.items()}
        f.close()
        return out, bool(st.incomplete_final_segment), stat


def seg_bounds(segs):
    """[(start, data_pos, end)] of each segment in the complete file"""
    out, pos = [], 0
    for s in segs:
        b = G.ser_seg(s)
        meta_len = len(b) - 28 - len(s.data)
        out.append((pos, pos + 28 + meta_len, pos + len(b)))
        pos += len(b)
    return out


def check_cuts(run, rng, segs, label, cases, meta, unknown):
    full = G.ser_file(segs)
    bounds = seg_bounds(segs)
    complete = G.meaning(segs)
    prefix_contents = [G.meaning(segs[:j]) for j in range(len(segs) + 1)]
    cuts = list(range(4, len(full) + 1))
    coq_cuts = set(cuts if len(cuts) <= run.pick(120, 400) else rng.sample(cuts, run.pick(120, 400)))
    nontrivial = False
    for k in cuts:
        data = full[:k]
        run.cov["evaluations"] += 1
        run.count(label)
        whole = sum(1 for (_, _, e) in bounds if e <= k)
        in_raw = any(dp <= k < e for (_, dp, e) in bounds)
        if unknown:
            # the last segment's end is unknown by declaration: incomplete whenever its metadata survives
            (s0, dp, e) = bounds[-1]
            exp_incomplete = in_raw or k >= dp
        else:
            exp_incomplete = in_raw
        where = ("boundary" if any(k == e for (_, _, e) in bounds) else
                 "raw" if in_raw else
                 "leadin" if any(s0 <= k < s0 + 28 for (s0, _, _) in bounds) else "metadata")
        run.count("cut_in_" + where)
        case = {"op": "cut", "hex": full.hex(), "cut": k, "unknown": unknown, "desc": R.describe_segs(segs)}
        failed = False
        try:
            eager, inc, stat = read_struct(data, lazy=False)
        except Exception as ex:     # noqa: BLE001
            run.violation("cut-eager-raises", "eager read of a file cut at %d (%s) raises %r" % (k, where, ex),
                          case, expected="no exception", actual=repr(ex)[:300])
            cases_append(cases, meta, data, None, "raised", case, True, k in coq_cuts)
            continue
        if where == "raw":
            nontrivial = True
        before = prefix_contents[whole]
        for p, (ln, vals) in eager.items():
            cv = complete.values.get(p)
            if cv is None or vals != cv[:len(vals)]:
                failed = True
                run.violation("cut-not-prefix", "cut at %d (%s): channel %r is not a prefix of the complete file's values"
                              % (k, where, p), case, expected="prefix", actual={"got": len(vals)})
                break
            if ln != len(vals):
                failed = True
                run.violation("cut-len", "cut at %d (%s): len(channel)=%d but %d values returned for %r"
                              % (k, where, ln, len(vals), p), case, expected=len(vals), actual=ln)
                break
        if not failed:
            for p in before.order:
                bv = before.values[p]
                if bv and (p not in eager or len(eager[p][1]) < len(bv)):
                    failed = True
                    run.violation("cut-loses-data", "cut at %d (%s): channel %r lost values of segments wholly before the cut"
                                  % (k, where, p), case, expected=len(bv), actual=len(eager.get(p, (0, []))[1]))
                    break
        if not failed and inc != exp_incomplete:
            failed = True
            run.violation("cut-status", "cut at %d (%s): incomplete_final_segment=%s, expected %s"
                          % (k, where, inc, exp_incomplete), case, expected=exp_incomplete, actual=inc)
        if not failed and stat is not None:
            # the status must describe what was read from the last segment
            for p, (exp_len, read_len) in stat.items():
                if read_len > exp_len:
                    failed = True
                    run.violation("cut-status-len", "cut at %d: status read_length > expected_length for %s" % (k, p),
                                  case, actual=stat[p])
                    break
        if not failed:
            try:
                lz, inc2, _ = read_struct(data, lazy=True)
                if lz != eager or inc2 != inc:
                    failed = True
                    bad = [p for p in eager if lz.get(p) != eager[p]]
                    run.violation("cut-lazy", "cut at %d (%s): lazy read differs from eager for %r" % (k, where, bad[:2]),
                                  case, expected="lazy == eager", actual={"paths": [repr(b) for b in bad[:3]]})
            except Exception as ex:     # noqa: BLE001
                failed = True
                run.violation("cut-lazy-raises", "cut at %d (%s): lazy read raises %r" % (k, where, ex), case,
                              expected="no exception", actual=repr(ex)[:300])
        if k in coq_cuts or failed:
            toks, ex = G.read_eager(data)
            cases_append(cases, meta, data, toks, R.exc_kind(ex) or "tokens", case, failed, True)
    return nontrivial


def is_prefix(vals, cv):
    if isinstance(vals, dict):
        return isinstance(cv, dict) and all(k in cv and v == cv[k][:len(v)] for k, v in vals.items())
    return cv is not None and not isinstance(cv, dict) and vals == cv[:len(vals)]


def nvals(vals):
    return [len(v) for _, v in sorted(vals.items())] if isinstance(vals, dict) else [len(vals)]


def check_cuts_daqmx(run, rng, cases, meta):
    """DAQmx files (every scaler of an object in one raw buffer): every cut; the reference is the
    implementation's own read of the complete file and of the whole-segment prefixes (the independent
    direct-addressing oracle for DAQmx is C11's)."""
    import daqmxgen as D
    widths, rows, chans = D.gen_daqmx_layout(rng, one_buffer_per_channel=True)
    e = rng.choice("<>")
    segs = []
    for si in range(rng.randint(1, 2)):
        cs = D.chunk_size(widths, rows)
        data = bytes(rng.randrange(256) for _ in range(cs * rng.randint(1, 3)))
        if si == 0:
            segs.append(G.Seg(e=e, toc=G.TOC_META | G.TOC_RAW | G.TOC_DAQMX | G.TOC_NEWLIST,
                              entries=D.daqmx_entries(widths, chans), data=data))
        else:
            segs.append(G.Seg(e=e, toc=G.TOC_RAW | G.TOC_DAQMX, entries=None, data=data))
    full = G.ser_file(segs)
    bounds = seg_bounds(segs)
    try:
        complete, _, _ = read_struct(full, lazy=False)
        prefixes = [read_struct(full[:end], lazy=False)[0] if end else {} for end in [0] + [b[2] for b in bounds]]
    except Exception as ex:     # noqa: BLE001
        run.violation("daqmx-complete-raises", "complete DAQmx file cannot be read: %r" % ex,
                      {"op": "cut", "hex": full.hex(), "cut": len(full), "unknown": False,
                       "desc": R.describe_segs(segs)}, actual=repr(ex))
        return False
    cuts = list(range(4, len(full) + 1))
    coq_cuts = set(cuts if len(cuts) <= 100 else rng.sample(cuts, 100))
    for k in cuts:
        data = full[:k]
        run.cov["evaluations"] += 1
        run.count("daqmx")
        whole = sum(1 for (_, _, en) in bounds if en <= k)
        in_raw = any(dp <= k < en for (_, dp, en) in bounds)
        where = "raw" if in_raw else "other"
        run.count("daqmx_cut_in_" + where)
        case = {"op": "cut", "hex": full.hex(), "cut": k, "unknown": False, "desc": R.describe_segs(segs)}
        failed = False
        try:
            eager, inc, stat = read_struct(data, lazy=False)
            for p, (ln, vals) in eager.items():
                if not is_prefix(vals, complete.get(p, (0, None))[1]):
                    failed = True
                    run.violation("cut-not-prefix", "DAQmx file cut at %d: channel %r is not a prefix of the complete "
                                  "file's values" % (k, p), case, expected="prefix", actual=nvals(vals))
                    break
                if any(n != ln for n in nvals(vals)):
                    failed = True
                    run.violation("cut-len", "DAQmx file cut at %d: len(channel)=%d but %r values returned for %r"
                                  % (k, ln, nvals(vals), p), case, expected=nvals(vals), actual=ln)
                    break
            if not failed:
                for p, (ln0, v0) in prefixes[whole].items():
                    if p not in eager or any(a < b for a, b in zip(nvals(eager[p][1]), nvals(v0))):
                        failed = True
                        run.violation("cut-loses-data", "DAQmx file cut at %d: channel %r lost values of segments "
                                      "wholly before the cut" % (k, p), case, expected=nvals(v0),
                                      actual=nvals(eager.get(p, (0, []))[1]))
                        break
            if not failed and inc != in_raw:
                failed = True
                run.violation("cut-status", "DAQmx file cut at %d: incomplete_final_segment=%s, expected %s"
                              % (k, inc, in_raw), case, expected=in_raw, actual=inc)
            if not failed:
                lz, inc2, _ = read_struct(data, lazy=True)
                if lz != eager or inc2 != inc:
                    failed = True
                    run.violation("cut-lazy", "DAQmx file cut at %d: lazy read differs from eager" % k, case)
        except Exception as ex:     # noqa: BLE001
            failed = True
            run.violation("cut-raises", "DAQmx file cut at %d (%s): read raises %r" % (k, where, ex), case,
                          expected="no exception", actual=repr(ex)[:300])
        if k in coq_cuts or failed:
            toks, ex = G.read_eager(data)
            cases_append(cases, meta, data, toks, R.exc_kind(ex) or "tokens", case, failed, True)
    return True


def check_cuts_interleaved_string(run, rng):
    """A layout the reader supports although the file model excludes it: a segment with ONE string channel that
    carries the kTocInterleavedData flag (read as contiguous).  Direct oracle only (prefix, len, lazy == eager,
    flag), on every cut; one or two such segments, explicit length or the 'length unknown' marker."""
    import struct
    words = ["", "a", "bc", "def", "\u00e9\u00df", "ghij", "klmno", "0123456789"]

    def tds(b):
        return struct.pack("<L", len(b)) + b

    unknown = rng.random() < 0.4
    nseg = rng.choice([1, 1, 2])
    full, bounds, allvals = b"", [], []
    for j in range(nseg):
        strs = [rng.choice(words).encode("utf-8") for _ in range(rng.randrange(1, 6))]
        ends, tot = [], 0
        for t in strs:
            tot += len(t)
            ends.append(tot)
        data = struct.pack("<%dL" % len(ends), *ends) + b"".join(strs)
        index = struct.pack("<LLQQ", 0x20, 1, len(strs), len(data))
        md = struct.pack("<L", 1) + tds(b"/'g'/'s'") + struct.pack("<L", 28) + index + struct.pack("<L", 0)
        toc = (1 << 1) | (1 << 2) | (1 << 3) | (1 << 5)
        nxt = 0xFFFFFFFFFFFFFFFF if (unknown and j == nseg - 1) else len(md) + len(data)
        seg = b"TDSm" + struct.pack("<llQQ", toc, 4713, nxt, len(md)) + md + data
        bounds.append((len(full), len(full) + 28 + len(md), len(full) + len(seg)))
        full += seg
        allvals.append(strs)
    path = b"/'g'/'s'"
    try:
        comp, _, _ = read_struct(full, lazy=False)
    except Exception as ex:     # noqa: BLE001
        run.violation("cut-interleaved-string-complete", "complete interleaved-flagged string file raises %r" % ex,
                      {"op": "cut", "hex": full.hex(), "cut": len(full), "unknown": unknown}, actual=repr(ex)[:300])
        return
    cv = comp.get(path, (0, []))[1]
    for k in range(4, len(full) + 1):
        data = full[:k]
        run.cov["evaluations"] += 1
        run.count("interleaved_string_" + ("unknown_marker" if unknown else "explicit_length"))
        case = {"op": "cut", "hex": full.hex(), "cut": k, "unknown": unknown, "desc": "interleaved-flagged string channel"}
        in_raw = any(dp <= k < e for (_, dp, e) in bounds)
        exp_inc = in_raw or (unknown and k >= bounds[-1][1])
        whole = sum(len(v) for v, (_, _, e) in zip(allvals, bounds) if e <= k)
        try:
            eager, inc, _ = read_struct(data, lazy=False)
            lz, inc2, _ = read_struct(data, lazy=True)
        except Exception as ex:     # noqa: BLE001
            run.violation("cut-interleaved-string-raises", "cut at %d of an interleaved-flagged string segment raises %r"
                          % (k, ex), case, expected="no exception", actual=repr(ex)[:300])
            return
        ln, vals = eager.get(path, (0, []))
        if vals != cv[:len(vals)] or ln != len(vals) or len(vals) < whole:
            run.violation("cut-interleaved-string-not-prefix",
                          "cut at %d: interleaved-flagged string channel has len %d, %d values, %d expected at least; "
                          "prefix of the complete values: %s" % (k, ln, len(vals), whole, vals == cv[:len(vals)]),
                          case, expected="prefix", actual={"len": ln, "values": len(vals)})
            return
        if lz != eager or inc2 != inc:
            run.violation("cut-interleaved-string-lazy", "cut at %d: lazy read differs from eager" % k, case)
            return
        if inc != exp_inc:
            run.violation("cut-interleaved-string-status", "cut at %d: incomplete_final_segment=%s, expected %s"
                          % (k, inc, exp_inc), case, expected=exp_inc, actual=inc)
            return


def cases_append(cases, meta, data, toks, impl, case, failed, want):
    if want:
        cases.append(R.case_all(data, toks))
        meta.append({"data": data, "impl": impl, "desc": {"cut": case["cut"], "segs": case["desc"]},
                     "oracle_failed": failed})


def gen_for_cuts(rng, unknown):
    if unknown:
        # fixed-width types, or strings only in single-chunk segments
        if rng.random() < 0.3:
            P = G.GenParams(max_segs=3, max_chans=2, max_vals=3, max_chunks=1, types=[G.T_STRING, 3, 10], p_props=0.2,
                            p_interleaved=0.0)
        else:
            P = G.GenParams(max_segs=3, max_chans=2, max_vals=3, max_chunks=3, types=G.FIXED_TYPES, p_props=0.2)
    else:
        P = G.GenParams(max_segs=3, max_chans=2, max_vals=3, max_chunks=3, p_props=0.3)
    while True:
        segs = G.gen_file(rng, P)
        n = len(G.ser_file(segs))
        if 60 <= n <= 700 and any(s.data for s in segs):
            break
    if unknown:
        segs[-1].next_mode = "unknown"
    return segs


def main():
    run = H.Run("C06")
    run.prove()
    rng = random.Random(run.seed)
    cases, meta = [], []
    if run.replay:
        import json
        case = json.load(open(run.replay))["case"]
        full = bytes.fromhex(case["hex"])
        data = full[:case["cut"]] if "cut" in case else full
        if case.get("desc") == "interleaved-flagged string channel":
            # outside the file model: direct oracle only
            run.cov["evaluations"] += 1
            try:
                comp, _, _ = read_struct(full, lazy=False)
                e, inc, _ = read_struct(data, lazy=False)
                l, inc2, _ = read_struct(data, lazy=True)
                for p_, (ln, vals) in e.items():
                    cv = comp.get(p_, (0, []))[1]
                    if vals != cv[:len(vals)] or ln != len(vals):
                        run.violation("cut-interleaved-string-not-prefix", "still not a prefix / wrong len", case)
                if e != l or inc != inc2:
                    run.violation("cut-interleaved-string-lazy", "lazy still differs from eager", case)
            except Exception as ex2:     # noqa: BLE001
                run.violation("cut-interleaved-string-raises", "still raises %r" % ex2, case, actual=repr(ex2))
            run.finish()
        toks, ex = G.read_eager(data)
        R.run_agree_all(run, [R.case_all(data, toks)], [{"data": data, "impl": R.exc_kind(ex)}], "replay", "replay")
        try:
            e, inc, _ = read_struct(data, lazy=False)
            l, inc2, _ = read_struct(data, lazy=True)
            if e != l:
                run.violation("cut-lazy", "lazy still differs from eager", case)
        except Exception as ex2:     # noqa: BLE001
            run.violation("cut-raises", "still raises %r" % ex2, case, actual=repr(ex2))
        run.finish()
    nfiles = run.pick(30, 700)
    for i in range(nfiles):
        unknown = i % 3 == 2
        segs = gen_for_cuts(rng, unknown)
        nt = check_cuts(run, rng, segs, "unknown_marker" if unknown else "explicit_length", cases, meta, unknown)
        run.count("files")
        if nt:
            run.cov["distinct_nontrivial"] += 1
        if i < 2:
            run.sample({"segments": R.describe_segs(segs), "file_bytes": len(G.ser_file(segs)), "cuts": "4..len"})
    for i in range(run.pick(6, 150)):
        if check_cuts_daqmx(run, rng, cases, meta):
            run.cov["distinct_nontrivial"] += 1
            run.count("files")
    for i in range(run.pick(8, 200)):
        check_cuts_interleaved_string(run, rng)
    R.run_agree_all(run, cases, meta, "cuts", "truncated file")
    run.cov["exhaustive"] = True
    run.cov["rule"] = ("well-formed files of 60-700 bytes (1-3 segments, all layouts/types; every third with the "
                       "length-unknown marker in the last lead-in, restricted to fixed-width types or single-chunk "
                       "strings) x EVERY cut offset 4..len, eager and lazy; the Coq model is evaluated on every cut of "
                       "small files and on a random sample of cuts of larger ones. Non-trivial = a file with at least "
                       "one cut inside raw data. evaluations counts (file, cut) pairs.")
    run.assumptions = ["'exactly when' for the incomplete flag is read for explicitly declared lengths; with the marker the "
                      "segment end is unknown by declaration and the flag is set whenever its metadata survives"]
    run.finish()


if __name__ == "__main__":
    main()
