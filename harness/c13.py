"""C13 - Scaled data is the dataflow evaluation of the NI_Scale definitions.

Proof: Props/C13.v (evaluator = dataflow relation, elementwise, lookup order, 'scaled'
status, purity of every scale method over a heap model).
Tie: the Coq model (Model/ScaleGraph.v) is evaluated inside Coq on the same property
dictionaries and raw values as npTDMS and compared bit-exactly (float.hex literals);
the aliasing behaviour of every scale method is compared with Model/ArrayHeap.v.
Direct oracle on the implementation: independent pure-Python dataflow evaluation,
window-of-scaled == scaled-window, lazy == eager, raw bytes untouched, precedence
channel > group > root, status 'scaled'.
"""
import io
import json
import os
import random
import sys
import warnings

sys.path.insert(0, os.path.dirname(os.path.abspath(__file__)))
import common as H

H.ensure_env()

import numpy as np  # noqa: E402
from nptdms import TdmsFile  # noqa: E402
from nptdms import scaling as S  # noqa: E402
import c13_lib as L  # noqa: E402

warnings.simplefilter("ignore")
np.seterr(all="ignore")

IMPORTS = ("From Coq Require Import PrimFloat.\n"
           "From NpTdms Require Import Gen.NumpyPromote Model.ScaleGraph Model.ArrayHeap.\n")
CASE_T = "props * props * props * rawdata * option value * nat * nat * option value"
# file tie (Proofs/ScaleFile.v check_file_scaled): the bridge bytes -> typed values / property
# dictionaries and the composed reads, evaluated on the very bytes npTDMS read
# DAQmx channels are compared LAZILY as well (Proofs/ScaleFileDaqmxLazy.v check_file_scaled_dq =
# check_file_scaled + scaled_read_lazy_daqmx, the lazy scaled read of ANY channel, on the bytes)
FILE_IMPORTS = ("From Coq Require Import ZArith PrimFloat.\n"
                "From NpTdms Require Import Base.Bytes Model.ScaleGraph Proofs.ScaleFile "
                "Proofs.ScaleFileDaqmxLazy.\n")
FILE_CASE_T = "bytes * bytes * option value * nat * nat * option value * bool * option value"
RAW = L.RAW
REAL = [d for d in L.NUMERIC if not d.startswith("complex")]
DAQMX_DTYPES = list(L.DAQMX_TYPE_ID)


# ---------------------------------------------------------------------------------------
# generators

def rfloat(rng, special=0.03):
    k = rng.random()
    if k < special:
        return rng.choice([float("inf"), float("-inf"), float("nan"), 0.0, -0.0])
    if k < 0.35:
        return float(rng.randint(-6, 6))
    if k < 0.7:
        return rng.uniform(-10, 10)
    return rng.choice([1, -1]) * 10 ** rng.uniform(-20, 20)


def rvalues(rng, dt, n):
    d = np.dtype(dt)
    if d == np.bool_:
        return np.array([rng.random() < 0.5 for _ in range(n)], dtype=d)
    if d.kind in "iu":
        info = np.iinfo(d)
        out = []
        for _ in range(n):
            k = rng.random()
            if k < 0.4:
                v = rng.randint(max(info.min, -5), 5)
            elif k < 0.6:
                v = rng.choice([info.min, info.max, info.max - 1, info.min + 1, info.max // 2 + 1])
            else:
                v = rng.randint(info.min, info.max)
            out.append(v)
        return np.array(out, dtype=d)
    if d.kind == "f":
        out = []
        for _ in range(n):
            k = rng.random()
            if k < 0.05:
                v = rng.choice([float("inf"), float("-inf"), float("nan"), -0.0, 0.0])
            elif k < 0.1:
                v = rng.choice([3.4028234663852886e38, 1e-45, 5e-324, 1.7976931348623157e308, 2.0 ** 53 + 2])
            else:
                v = rfloat(rng, 0)
            out.append(v)
        return np.array(out, dtype=np.float64).astype(d)
    out = [complex(rfloat(rng, 0.02), rfloat(rng, 0.02)) for _ in range(n)]
    return np.array(out, dtype=np.complex128).astype(d)


def rsrc(rng, i, allow_raw=True, p_raw=0.4):
    if i == 0 or (allow_raw and rng.random() < p_raw):
        return RAW
    return rng.randrange(i)


def rscale(rng, i, allow_raw=True, p_raw=0.4):
    t = rng.choices(["Linear", "Polynomial", "Table", "Add", "Subtract", "AdvancedAPI"],
                    [30, 18, 14, 14, 14, 10])[0]
    if t == "Linear":
        return {"t": t, "slope": rfloat(rng), "intercept": rfloat(rng), "src": rsrc(rng, i, allow_raw, p_raw)}
    if t == "Polynomial":
        n = rng.choice([0, 1, 2, 2, 3, 4, 4, 5])
        return {"t": t, "coeffs": [rfloat(rng) for _ in range(n)], "src": rsrc(rng, i, allow_raw, p_raw),
                "omit_size": rng.random() < 0.5}
    if t == "Table":
        n = rng.choice([1, 2, 2, 3, 4, 5])
        xs = set()
        while len(xs) < n:
            v = rfloat(rng, 0)
            if rng.random() < 0.03:
                v = rng.choice([float("inf"), float("-inf")])
            xs.add(v)
        xs = sorted(xs)
        if rng.random() < 0.03 and n >= 3:
            xs[0], xs[1] = xs[1], xs[0]                  # not monotonic: ValueError
        return {"t": t, "xs": xs, "ys": [rfloat(rng, 0.01) for _ in range(n)], "src": rsrc(rng, i, allow_raw, p_raw),
                "stored_reversed": rng.random() < 0.4}
    if t in ("Add", "Subtract"):
        return {"t": t, "l": rsrc(rng, i, allow_raw, p_raw), "r": rsrc(rng, i, allow_raw, p_raw)}
    return {"t": t, "src": rsrc(rng, i, allow_raw, p_raw)}


def remap(sc, f):
    sc = dict(sc)
    for k in ("src", "l", "r"):
        if k in sc and sc[k] != RAW:
            sc[k] = f(sc[k])
    return sc


def rgraph(rng, depth, scaler_ids=()):
    """depth structural scales; DAQmx scalers occupy the indices in scaler_ids"""
    total = depth + len(scaler_ids)
    graph = []
    for i in range(total):
        if i in scaler_ids:
            graph.append({"t": "Daqmx", "id": i})
        else:
            graph.append(rscale(rng, i, allow_raw=True, p_raw=(0.04 if scaler_ids else 0.4)))
    if rng.random() < 0.03:
        k = rng.randrange(total)
        if graph[k]["t"] != "Daqmx":
            key = "src" if "src" in graph[k] else "l"
            graph[k][key] = total + rng.randint(0, 3)    # IndexError
    if not scaler_ids and total >= 3 and rng.random() < 0.05:
        # acyclic but not index-ordered: exchange two scales
        a, b = rng.sample(range(total), 2)
        sw = {a: b, b: a}
        graph = [remap(sc, lambda j: sw.get(j, j)) for sc in graph]
        graph[a], graph[b] = graph[b], graph[a]
    return graph


def decoy_graph(rng):
    return [{"t": "Linear", "slope": float(rng.randint(2, 9)), "intercept": float(rng.randint(-9, 9)), "src": RAW}]


def rcase(rng, dtype=None, depth=None):
    daqmx = dtype == "daqmx" or (dtype is None and rng.random() < 0.15)
    depth = depth or rng.randint(1, 5)
    n = rng.choice([0, 1, 2, 3, 5, 8, 12])
    case = {"op": "channel", "o": rng.randint(0, n + 1), "l": rng.randint(0, n + 1)}
    if daqmx:
        nsc = rng.randint(1, 3)
        ids = sorted(rng.sample(range(nsc + 1), nsc))
        n = max(n, 1)
        case["daqmx"] = {str(i): enc_arr(rvalues(rng, rng.choice(DAQMX_DTYPES), n)) for i in ids}
        case["data"] = None
        case["cuts"] = rng.choice([1, 1, 2])
        graph = rgraph(rng, depth, ids)
        case["o"], case["l"] = rng.randint(0, n + 1), rng.randint(0, n + 1)
    else:
        dt = dtype or rng.choice(L.NUMERIC)
        case["daqmx"] = None
        case["data"] = enc_arr(rvalues(rng, dt, n))
        cuts = sorted(rng.sample(range(1, n), min(rng.choice([0, 0, 1, 2]), max(n - 1, 0)))) if n > 1 else []
        case["cuts"] = cuts
        graph = rgraph(rng, depth)
    with_count = rng.random() < 0.5
    main = L.graph_props(graph, with_count, explicit_raw_source=rng.random() < 0.6)
    if not with_count or rng.random() < 0.3:
        # keys that only prefix-match the regex
        for _ in range(rng.choice([0, 1, 1, 2])):
            idx = rng.choice([0, len(graph) - 1, len(graph), len(graph) + 1]) if rng.random() < 0.6 \
                else rng.randrange(len(graph))
            main["NI_Scale[%d]_Scale_Type%s" % (idx, rng.choice(["_Note", "2", " ", "_Scale_Type"]))] = \
                rng.choice(["Linear", "x"])
    levels = {"chan": {}, "group": {}, "root": {}}
    order = ["chan", "group", "root"]
    at = rng.choices([0, 1, 2, 3], [50, 22, 22, 6])[0]      # 3: no level defines a scaling
    for k, name in enumerate(order):
        if k == at:
            levels[name] = dict(main)
            if rng.random() < 0.1:
                levels[name]["NI_Scaling_Status"] = "unscaled"
        elif k < at:
            # higher-priority levels that must be skipped
            c = rng.random()
            if c < 0.3:
                levels[name] = {"NI_Number_Of_Scales": 0}
            elif c < 0.65:
                levels[name] = L.graph_props(decoy_graph(rng), rng.random() < 0.5)
                levels[name]["NI_Scaling_Status"] = "scaled"
            elif c < 0.8:
                levels[name] = {"unit_string": "V", "NI_Scaling_Status": "scaled"}
        else:
            # lower-priority levels that must be ignored
            if rng.random() < 0.6:
                levels[name] = L.graph_props(decoy_graph(rng), rng.random() < 0.5)
    case["chan"], case["group"], case["root"] = (enc_props(levels[x]) for x in order)
    case["placement"] = "none" if at == 3 else order[at]
    if case.get("daqmx") is None and rng.random() < 0.3:
        case["obj_order"] = rng.choice(["chan_first", "late_group"])
    if case.get("daqmx") is None and rng.random() < 0.3:
        # group names that need escaping in the object path (group-level properties are looked up by group PATH)
        case["group_name"] = rng.choice(["q'q", "a/b", "é", "'", ""])
    return case


# ---------------------------------------------------------------------------------------
# (de)serialisation of cases (exact: floats as hex)

def enc_arr(a):
    d = a.dtype
    if d.kind == "c":
        vals = [[float(v.real).hex(), float(v.imag).hex()] for v in a]
    elif d.kind == "f":
        vals = [float(v).hex() for v in a]
    elif d == np.bool_:
        vals = [int(v) for v in a.tolist()]
    else:
        vals = [int(v) for v in a.tolist()]
    return {"dtype": d.name, "values": vals}


def dec_arr(e):
    d = np.dtype(e["dtype"])
    if d.kind == "c":
        return np.array([complex(float.fromhex(r), float.fromhex(i)) for r, i in e["values"]],
                        dtype=np.complex128).astype(d)
    if d.kind == "f":
        return np.array([float.fromhex(v) for v in e["values"]], dtype=np.float64).astype(d)
    return np.array(e["values"], dtype=d)


def enc_props(p):
    return {k: ({"f": v.hex()} if isinstance(v, float) else v) for k, v in p.items()}


def dec_props(p):
    return {k: (float.fromhex(v["f"]) if isinstance(v, dict) else v) for k, v in p.items()}


# ---------------------------------------------------------------------------------------
# running the implementation

class Raised:
    def __init__(self, e):
        self.name = type(e).__name__
        self.text = str(e)[:120]

    def __repr__(self):
        return "raised %s(%s)" % (self.name, self.text)


def attempt(f):
    try:
        return f()
    except RecursionError as e:
        return Raised(e)
    except Exception as e:
        return Raised(e)


def build_file(case):
    chan, group, root = (dec_props(case[k]) for k in ("chan", "group", "root"))
    if case["daqmx"] is not None:
        scalers = [(int(k), dec_arr(v)) for k, v in sorted(case["daqmx"].items(), key=lambda kv: int(kv[0]))]
        return L.daqmx_file(root, group, chan, scalers, nsegments=case["cuts"]), None, dict(scalers)
    data = dec_arr(case["data"])
    bounds = [0] + list(case["cuts"]) + [len(data)]
    segs = [data[bounds[i]:bounds[i + 1]] for i in range(len(bounds) - 1)]
    if case.get("obj_order"):
        # objects in an order the writer never produces (group / root after the channel, or first appearing in a
        # later metadata-only segment): scaling properties must still be found at every level
        raw = L.raw_order_file(root, group, chan, segs, case["obj_order"], group=case.get("group_name", "g"))
        if raw is not None:
            return raw, data, {}
    return L.writer_file(root, group, chan, segs, group=case.get("group_name", "g")), data, {}


def passthrough(graph):
    """True when the output wire is the raw data / a raw scaler itself (no arithmetic)"""
    if graph is None:
        return True
    s, seen = len(graph) - 1, 0
    while seen <= len(graph):
        if s == RAW:
            return True
        if not (0 <= s < len(graph)):
            return False
        sc = graph[s]
        if sc["t"] == "Daqmx":
            return True
        if sc["t"] != "AdvancedAPI":
            return False
        s = sc["src"]
        seen += 1
    return False


def shape_key(case, graph):
    dt = "daqmx" if case["daqmx"] is not None else case["data"]["dtype"]
    if graph is None:
        return "%s-unscaled" % dt
    return "%s-%s" % (dt, L.graph_label(graph))


def run_case(run, case, stats):
    """implementation + direct oracle on one channel; returns the Coq case term or None"""
    content, data, scalers = build_file(case)
    chan, group, root = (dec_props(case[k]) for k in ("chan", "group", "root"))
    o, l = case["o"], case["l"]
    rep = {k: case[k] for k in case}
    run.cov["evaluations"] += 1

    # -- the oracle's own reading of the definitions
    try:
        graph = L.oracle_get_scaling(chan, group, root)
        lookup_err = None
    except L.ScaleError as e:
        graph, lookup_err = None, e
    key = shape_key(case, graph)
    try:
        if lookup_err:
            raise lookup_err
        expected = L.oracle_channel(chan, group, root, data, scalers)
    except L.ScaleError as e:
        expected = e

    # -- the implementation, eager and lazy
    eager = TdmsFile.read(io.BytesIO(content))
    gname = case.get("group_name", "g") if case.get("daqmx") is None else "g"
    ch = eager[gname]["c"]
    raw_before = None
    if data is not None and len(data) > 0:
        raw_before = ch.raw_data
        if raw_before.tobytes() != data.astype(raw_before.dtype.newbyteorder("=")).tobytes() and \
                not L.same_array(raw_before, data):
            run.violation("raw-readback", "raw data read back differs from what was written (%s)" % key, rep,
                          expected=data.tolist(), actual=raw_before.tolist())
    elif scalers:
        raw_before = {k: v for k, v in ch.raw_scaler_data.items()}
    snap = (raw_before.tobytes() if isinstance(raw_before, np.ndarray)
            else {k: v.tobytes() for k, v in raw_before.items()} if raw_before is not None else None)

    e_full = attempt(lambda: ch[:])
    e_data = attempt(lambda: ch.data)
    e_win = attempt(lambda: ch.read_data(o, l))
    with TdmsFile.open(io.BytesIO(content)) as lazy:
        lch = lazy[gname]["c"]
        l_full = attempt(lambda: lch[:])
        l_win = attempt(lambda: lch.read_data(o, l))
        l_slice = attempt(lambda: lch[o:o + l])

    # -- purity: the raw arrays held by the channel are bit-identical after scaling
    if snap is not None:
        now = ch.raw_data if isinstance(raw_before, np.ndarray) else ch.raw_scaler_data
        snap2 = now.tobytes() if isinstance(now, np.ndarray) else {k: v.tobytes() for k, v in now.items()}
        if snap2 != snap:
            run.violation("purity-raw-data", "reading scaled data changed channel.raw_data (%s)" % key, rep,
                          expected="raw data unchanged", actual="raw bytes differ after channel[:]")
        stats["purity_checks"] += 1
        if isinstance(e_full, np.ndarray) and isinstance(raw_before, np.ndarray) and len(e_full) and \
                np.shares_memory(e_full, raw_before) and not passthrough(graph):
            run.violation("purity-alias", "scaled data shares memory with raw_data (%s)" % key, rep,
                          expected="a new array", actual="np.shares_memory(channel[:], channel.raw_data)")

    # -- direct oracle: value of the full read
    ok = True
    if isinstance(expected, L.ScaleError):
        stats["error_cases"] += 1
        if not isinstance(e_full, Raised):
            ok = False
            run.violation("value-" + key, "definitions cannot be evaluated (%s) but the read returned data" % expected,
                          rep, expected="an exception", actual=repr(e_full))
    elif isinstance(e_full, Raised):
        ok = False
        run.violation("value-" + key, "read raised %r where dataflow evaluation gives a result" % e_full, rep,
                      expected=expected.tolist() if expected.dtype.kind != "c" else str(expected), actual=repr(e_full))
    else:
        exact = L.same_array(e_full, expected)
        if not exact:
            has_table = graph is not None and any(sc["t"] == "Table" for sc in graph)
            d = L.ulp_distance(e_full, expected) if has_table else float("inf")
            if d <= 2:
                stats["table_within_2ulp"] += 1
            else:
                ok = False
                run.violation("value-" + key,
                              "scaled data differ from the dataflow evaluation of the definitions (%s): dtype %s vs %s"
                              % (key, e_full.dtype, expected.dtype), rep,
                              expected={"dtype": str(expected.dtype), "values": [repr(v) for v in expected.tolist()]},
                              actual={"dtype": str(e_full.dtype), "values": [repr(v) for v in e_full.tolist()]})
        else:
            stats["bit_exact"] += 1

    def same(a, b):
        if isinstance(a, Raised) or isinstance(b, Raised):
            return isinstance(a, Raised) and isinstance(b, Raised)
        return L.same_array(a, b)

    # -- channel.data == channel[:]; lazy == eager
    if not same(e_full, e_data):
        run.violation("data-vs-getitem-" + key, "channel.data differs from channel[:]", rep,
                      expected=repr(e_full), actual=repr(e_data))
    # (definitions that cannot be evaluated are only required to fail the full eager read: the
    # empty-range shortcuts of lazy slicing never call the scaling)
    valid = not isinstance(expected, L.ScaleError)
    if valid and not same(e_full, l_full):
        ok = False
        run.violation("lazy-vs-eager-" + key, "TdmsFile.open and TdmsFile.read give different scaled data (%s)" % key,
                      rep, expected=repr(e_full), actual=repr(l_full))
    # -- elementwise: window of scaled == scaled window (all three ways of taking a window)
    if valid and isinstance(e_full, np.ndarray):
        want = e_full[o:o + l]
        for name, got in (("eager read_data", e_win), ("lazy read_data", l_win), ("lazy slice", l_slice)):
            if isinstance(got, Raised) or not L.same_array(got, want):
                ok = False
                run.violation("window-" + key, "%s(%d,%d) is not the window of the scaled channel (%s)"
                              % (name, o, l, key), rep, expected=repr(want), actual=repr(got))
        stats["windows"] += 3
    if ok and graph is not None and not isinstance(expected, L.ScaleError) and len(graph) >= 1:
        stats["shapes"].add((key, case["placement"], tuple(str(sc.get("src", (sc.get("l"), sc.get("r")))) for sc in graph)))
    run.count("dtype_" + ("daqmx" if case["daqmx"] is not None else case["data"]["dtype"]))
    run.count("placement_" + case["placement"])
    run.count("depth_%d" % (len(graph) if graph else 0))

    # -- Coq case (real dtypes only)
    arrays = ([data] if data is not None else []) + list(scalers.values())
    outs = [x for x in (e_full, e_win) if isinstance(x, np.ndarray)]
    if any(a.dtype.kind == "c" for a in arrays + outs):
        stats["complex_oracle_only"] += 1
        return None

    def obs(x):
        return "None" if isinstance(x, Raised) else "(Some %s)" % L.cvalue(x)
    try:
        for x in (e_full, e_win, l_win):
            obs(x)
    except ValueError as ex:
        # the implementation returned an array of a dtype the scaling model has no value for (e.g. a void dtype for
        # a numeric channel): not a harness matter but a wrong result
        run.violation("scaled-dtype-" + key, "a read of the scaled channel returned an array the model has no value for: %s"
                      % ex, rep, expected="an array of the channel's (scaled) dtype", actual=str(ex))
        return None
    term = "(%s, %s, %s, %s, %s, %d, %d, %s)" % (
        L.cprops(chan), L.cprops(group), L.cprops(root), L.crawdata(data, scalers), obs(e_full), o, l, obs(e_win))
    plain = case["daqmx"] is None
    fterm = "(%s, %s, %s, %d%%nat, %d%%nat, %s, %s, %s)" % (
        H.chex(content), H.chex(L.gpath(gname, "c").encode("utf-8")), obs(e_full), o, l, obs(e_win),
        "true" if plain else "false",
        obs(l_win) if isinstance(l_win, Raised) or l_win.dtype.kind != "c" else "None")
    return term, rep, key, e_full, fterm


def correspondence(run, terms):
    cases = [t[0] for t in terms]
    bad, errors = H.run_sharded(run.pid, IMPORTS, CASE_T, "check_channel", cases, shard=60, tag="chan")
    run.corr_errors(errors)
    run.cov["traces_validated_against_impl"] += len(cases) - len(bad)
    for i in bad[:3]:
        _, rep, key, e_full = terms[i][:4]
        rc, out = H.coq_print_terms(run.pid, IMPORTS, ["let '(ch, gr, fi, raw, _, _, _, _) := (%s) : %s in "
                                                      "(get_scaling ch gr fi, channel_data ch gr fi raw)"
                                                      % (terms[i][0], CASE_T)], tag="show%d" % i)
        run.violation("corr-" + key, "Coq model and npTDMS disagree on a channel (%s): implementation returned %r"
                      % (key, e_full), rep, kind="correspondence-broken",
                      theorem="Model.ScaleGraph.channel_data vs TdmsChannel[:]", actual=repr(e_full),
                      model=out[-3000:], no_input=True)


def file_correspondence(run, terms, stats):
    """Proofs/ScaleFile.v on the file BYTES: scaled_read_eager / scaled_window_eager /
    scaled_read_lazy (reader models + bridge + scaling model) against channel[:] and
    read_data(o, l) of TdmsFile.read / TdmsFile.open on the same bytes; and
    Proofs/ScaleFileDaqmxLazy.v scaled_read_lazy_daqmx (DAQmx channels: the per-scaler lazy
    reads of C11_lazy decoded and scaled; plain channels: the same path as scaled_read_lazy)
    against read_data(o, l) of TdmsFile.open for EVERY case."""
    picked = terms[:run.pick(160, 2000)]
    cases = [t[4] for t in picked]
    bad, errors = H.run_sharded(run.pid, FILE_IMPORTS, FILE_CASE_T, "check_file_scaled_dq", cases, shard=12,
                                tag="file")
    run.corr_errors(errors)
    run.cov["traces_validated_against_impl"] += len(cases) - len(bad)
    stats["file_tie_cases"] = len(cases)
    stats["file_tie_daqmx_lazy_picked"] = sum(1 for t in picked if t[1].get("daqmx") is not None)
    for i in bad[:3]:
        _, rep, key, e_full, fterm = picked[i]
        rc, out = H.coq_print_terms(run.pid, FILE_IMPORTS, [
            "let '(data, path, _, o, l, _, _, _) := (%s) : %s in (scaled_read_eager data path, "
            "scaled_window_eager data path o l, scaled_read_lazy data path (Z.of_nat o) (Some (Z.of_nat l)), "
            "scaled_read_lazy_daqmx data path (Z.of_nat o) (Some (Z.of_nat l)))"
            % (fterm, FILE_CASE_T)], tag="fshow%d" % i)
        run.violation("corr-file-" + key, "Coq file-level scaled read and npTDMS disagree (%s): implementation "
                      "returned %r" % (key, e_full), rep, kind="correspondence-broken",
                      theorem="Proofs.ScaleFile.scaled_read_eager/lazy, Proofs.ScaleFileDaqmxLazy.scaled_read_lazy_daqmx vs "
                              "TdmsChannel[:] / read_data",
                      actual=repr(e_full), model=out[-3000:], no_input=True)


# ---------------------------------------------------------------------------------------
# direct calls of scale(): purity and aliasing against Model/ArrayHeap.v

def scale_objects():
    objs = [("KLinear", S.LinearScaling(1.5, 2.0, RAW), 1),
            ("(KPolynomial true)", S.PolynomialScaling([], RAW), 1),
            ("(KPolynomial false)", S.PolynomialScaling([1.0, 2.0, 0.5], RAW), 1),
            ("KTable", S.TableScaling(np.array([0.0, 10.0, 20.0]), np.array([0.0, 1.0, 2.0]), RAW), 1),
            ("KAdd", S.AddScaling(0, 1), 2), ("KSubtract", S.SubtractScaling(0, 1), 2),
            ("KNoOp", S.NoOpScaling(RAW), 1)]
    shapes = {10183: "StrainScale", 10184: "StrainScale", 10189: "StrainScale", 10185: "StrainTemp",
              10188: "StrainTemp", 10271: "StrainQuarter", 10272: "StrainQuarter"}
    for cfg, shape in shapes.items():
        for ibv in (0.0, 0.25):
            objs.append(("(KStrain %s %s)" % (shape, "true" if ibv else "false"),
                         S.StrainScaling(cfg, 0.3, 350.0, 1.0, ibv, 2.0, 1.0, 2.5, RAW), 1))
    for exc, volt in ((S.CURRENT_EXCITATION, "false"), (S.VOLTAGE_EXCITATION, "true")):
        for cfg in (2, 3, 4):
            adj = cfg == 3 or (exc == S.CURRENT_EXCITATION and cfg == 2)
            objs.append(("(KThermistor %s %s)" % (volt, "true" if adj else "false"),
                         S.ThermistorScaling(exc, 1e-3 if volt == "false" else 50.0, cfg, 1000.0, 0.5,
                                             1e-3, 2e-4, 1e-7, 0.0, RAW), 1))
    for cfg in (2, 3, 4):
        for neg in (False, True):
            objs.append(("(KRtd %s %s)" % ("true" if cfg in (2, 3) else "false", "true" if neg else "false"),
                         (S.RtdScaling(1e-3, 100.0, 3.9083e-3, -5.775e-7, -4.183e-12, 0.5, cfg, RAW), neg), 1))
    for d in (0, 1):
        objs.append(("(KThermocouple %s)" % ("true" if d else "false"), S.ThermocoupleScaling(10073, d, RAW), 1))
    return objs


def scale_calls(run, stats):
    cases, meta = [], []
    for kname, obj, nin in scale_objects():
        neg = False
        if isinstance(obj, tuple):
            obj, neg = obj
        for dt in L.NUMERIC:
            d = np.dtype(dt)
            if "KRtd" in kname:
                base = [0.05, 0.09, 0.12] if neg else [0.12, 0.2, 0.3]   # volts: r_t = v / 1mA vs r0 = 100
                if d.kind in "iub":
                    base = [0, 1, 1] if neg else [1, 1, 1]
            else:
                base = [1, 2, 3] if d.kind != "b" else [1, 0, 1]
            arrs = [np.array(base, dtype=d), np.array(base[::-1], dtype=d)][:nin]
            before = [a.tobytes() for a in arrs]
            try:
                out = obj.scale(*arrs)
            except Exception:
                stats["scale_calls_raised"] += 1
                continue
            stats["scale_calls"] += 1
            run.cov["evaluations"] += 1
            rep = {"op": "scale", "kind": kname, "dtype": dt}
            if [a.tobytes() for a in arrs] != before:
                run.violation("purity-scale-%s-%s" % (type(obj).__name__, dt),
                              "%s.scale modified its %s input array in place" % (type(obj).__name__, dt), rep,
                              expected=[np.frombuffer(b, dtype=d).tolist() for b in before],
                              actual=[a.tolist() for a in arrs])
            alias = any(np.shares_memory(out, a) for a in arrs)
            cases.append("(%s, %s, %s)" % (kname, L.COQ_DTYPE[dt], "true" if alias else "false"))
            meta.append((rep, type(obj).__name__, alias))
        if nin == 2:                      # both operands the same array (Add raw raw)
            a = np.array([1.0, 2.0])
            before = a.tobytes()
            obj.scale(a, a)
            if a.tobytes() != before:
                run.violation("purity-scale-%s-same" % type(obj).__name__, "scale(a, a) modified a", {"op": "scale"})
    bad, errors = H.run_sharded(run.pid, IMPORTS, "skind * dtype * bool", "check_alias", cases, shard=500, tag="alias")
    run.corr_errors(errors)
    run.cov["traces_validated_against_impl"] += len(cases) - len(bad)
    for i in bad[:3]:
        rep, cls, alias = meta[i]
        run.violation("corr-alias-%s-%s" % (cls, rep["dtype"]),
                      "Model/ArrayHeap.v and %s.scale disagree on whether the result shares its buffer with the "
                      "%s input (implementation: %s)" % (cls, rep["dtype"], alias), rep,
                      kind="correspondence-broken", theorem="Model.ArrayHeap.scale_prog vs scale()", no_input=True)


# ---------------------------------------------------------------------------------------

def new_stats():
    return {"purity_checks": 0, "error_cases": 0, "table_within_2ulp": 0, "bit_exact": 0, "windows": 0,
            "complex_oracle_only": 0, "scale_calls": 0, "scale_calls_raised": 0, "shapes": set(),
            "file_tie_cases": 0}


def targeted_cases():
    """hand-picked shapes every run must contain"""
    def chan(graph, dt, vals, **kw):
        c = {"op": "channel", "o": 1, "l": 2, "daqmx": None, "data": enc_arr(np.array(vals, dtype=dt)), "cuts": [],
             "chan": enc_props(L.graph_props(graph, kw.get("count", True))), "group": {}, "root": {},
             "placement": "chan"}
        c.update(kw.get("over", {}))
        return c
    lin = {"t": "Linear", "slope": 2.0, "intercept": 1.0, "src": RAW}
    lin2 = {"t": "Linear", "slope": 3.0, "intercept": -1.0, "src": RAW}
    sub = [lin, {"t": "Polynomial", "coeffs": [0.5, 3.0], "src": RAW}, {"t": "Subtract", "l": 0, "r": 1}]
    out = [chan([lin], dt, [1, 0, 1]) for dt in L.NUMERIC]            # in-place on float64 / D8 on float32
    out += [chan(sub, "int16", [1, -2, 300]), chan(sub, "float64", [1.5, -2.0, 300.0])]
    out.append(chan([{"t": "Add", "l": RAW, "r": RAW}], "int8", [100, -100, 3]))
    # precedence: group vs root, channel vs group
    g1, g2 = enc_props(L.graph_props([lin])), enc_props(L.graph_props([lin2]))
    out.append(chan([lin], "int32", [1, 2, 3], over={"chan": {}, "group": g1, "root": g2, "placement": "group"}))
    out.append(chan([lin], "int32", [1, 2, 3], over={"chan": g2, "group": g1, "root": g1, "placement": "chan"}))
    out.append(chan([lin], "int32", [1, 2, 3], over={"chan": {}, "group": {}, "root": g2, "placement": "root"}))
    # status 'scaled' on the channel: group applies / nothing applies
    sc = dict(g1)
    sc["NI_Scaling_Status"] = "scaled"
    out.append(chan([lin], "int32", [1, 2, 3], over={"chan": sc, "group": g2, "placement": "group"}))
    out.append(chan([lin], "int32", [1, 2, 3], over={"chan": sc, "placement": "none"}))
    # number of scales inferred from a key that only prefix-matches
    p = L.graph_props([lin], False)
    p["NI_Scale[1]_Scale_Type_Note"] = "x"
    out.append(chan([lin], "int32", [1, 2, 3], over={"chan": enc_props(p)}))
    p = L.graph_props([lin, lin2], False)
    p["NI_Scale[0]_Scale_Type_Note"] = "x"
    out.append(chan([lin], "float64", [1.0, 2.0, 3.0], over={"chan": enc_props(p)}))
    return out


def main():
    run = H.Run("C13")
    run.prove()
    stats = new_stats()
    if run.replay:
        case = json.load(open(run.replay))["case"]
        if case.get("op") == "channel":
            t = run_case(run, case, stats)
            if t:
                correspondence(run, [t])
                file_correspondence(run, [t], stats)
        elif case.get("op") == "scale":
            scale_calls(run, stats)
        else:
            print("replay: nothing to re-run for", case.get("op"))
        run.finish()
    rng = random.Random(run.seed)
    cases = targeted_cases()
    n = run.pick(420, 20000)
    # every numeric raw type at every depth first, then free choice (incl. DAQmx)
    for depth in range(1, 6):
        for dt in L.NUMERIC + ["daqmx"]:
            cases.append(rcase(rng, dt, depth))
    # long definitions: scale indices with two digits (with and without NI_Number_Of_Scales)
    for depth in (10, 11, 12, 13):
        for _ in range(4):
            cases.append(rcase(rng, None, depth))
    while len(cases) < n:
        cases.append(rcase(rng, None, rng.randint(10, 14) if rng.random() < 0.03 else None))
    terms = []
    for case in cases:
        t = run_case(run, case, stats)
        if t:
            terms.append(t)
    correspondence(run, terms)
    file_correspondence(run, terms, stats)
    scale_calls(run, stats)
    run.cov["distinct_nontrivial"] = len(stats.pop("shapes"))
    run.cov["rule"] = ("distinct = (raw dtype, sequence of scale types, placement level, input-source wiring) of channels "
                       "whose definitions evaluate successfully through at least one scale and on which every oracle "
                       "(value, lazy=eager, windows, purity) passed; evaluations = channels + direct scale() calls")
    run.cov["stats"] = stats
    for c in cases[13:16] + cases[-2:]:
        run.sample({k: c[k] for k in ("chan", "group", "root", "data", "daqmx", "o", "l")})
    run.assumptions = [
        "numeric scale parameters are TDMS double properties, input sources/counts integer properties, names ASCII",
        "complex raw data: evaluated by the Python oracle with NumPy's complex arithmetic, not by the Coq model",
        "np.interp / polyval are modelled (clamped piecewise-linear with NumPy's formula, Horner); bit-exact on this "
        "build, %d channel(s) accepted within 2 ulp" % stats["table_within_2ulp"],
        "NaN payloads and signs are not compared",
        "cyclic definitions (RecursionError) are outside the domain (wf_graph)",
        "lazy == eager on BYTES is proved in Props/C13_file.v (plain channels) and Props/C13_daqmx_lazy.v (DAQmx "
        "channels, mixed files) and the bridge (bytes -> typed values, properties -> dictionaries, group-path "
        "lookup) is compared with npTDMS on the first %d generated files (check_file_scaled_dq; %d of them DAQmx "
        "channels, compared lazily as well)" % (stats.get("file_tie_cases", 0), stats.get("file_tie_daqmx_lazy_picked", 0))]
    run.finish()


if __name__ == "__main__":
    main()
