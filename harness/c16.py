"""C16 — Object names are arbitrary strings and never alias.

Proof: Props/C16.v (path scanner inverts path printer over any alphabet).
Tie: exhaustive correspondence of Model/PathN.v with nptdms.common.ObjectPath
(str / from_string), plus the direct oracle (round trip and injectivity) on the
implementation, plus an end-to-end pass through TdmsWriter / TdmsFile.
"""
import io
import itertools
import os
import random
import sys

sys.path.insert(0, os.path.dirname(os.path.abspath(__file__)))
import common as H

H.ensure_env()

from nptdms.common import ObjectPath  # noqa: E402

IMPORTS = "From NpTdms Require Import Model.Path Model.PathN.\nOpen Scope N_scope.\n"


def codes(s):
    return H.clist(["%d" % ord(ch) for ch in s])


def obs_from_string(p):
    try:
        o = ObjectPath.from_string(p)
    except ValueError:
        return None
    return (o.group, o.channel)


def c_obs(o):
    if o is None:
        return "None"
    return "(Some (%s, %s))" % (H.copt(o[0], codes), H.copt(o[1], codes))


def strings_upto(alpha, n):
    for k in range(n + 1):
        for t in itertools.product(alpha, repeat=k):
            yield "".join(t)


def pair_case(g, c):
    p = str(ObjectPath(*[x for x in (g, c) if x is not None]))
    o = obs_from_string(p)
    term = "(%s, %s, %s, %s)" % (H.copt(g, codes), H.copt(c, codes), codes(p), c_obs(o))
    return p, o, term


def run_pairs(run, ids, label):
    """ids: list of (g, c) with g/c str or None. Oracle + correspondence."""
    cases, meta = [], []
    seen_paths = {}
    for (g, c) in ids:
        try:
            p, o, term = pair_case(g, c)
        except Exception as e:  # printing must never fail
            run.violation("print-raises", "str(ObjectPath(%r,%r)) raised %r" % (g, c, e),
                          {"op": "pair", "group": g, "channel": c}, actual=repr(e))
            continue
        cases.append(term)
        meta.append((g, c, p, o))
        run.cov["evaluations"] += 1
        # direct oracle 1: round trip is the identity
        if o != (g, c):
            run.violation("roundtrip", "names (%r, %r) -> path %r -> %r" % (g, c, p, o),
                          {"op": "pair", "group": g, "channel": c}, expected=[g, c], actual=o)
        # direct oracle 2: distinct identities give distinct paths
        if p in seen_paths and seen_paths[p] != (g, c):
            run.violation("alias", "names %r and %r share path %r" % (seen_paths[p], (g, c), p),
                          {"op": "alias", "a": list(seen_paths[p]), "b": [g, c]},
                          expected="distinct paths", actual=p)
        seen_paths.setdefault(p, (g, c))
        if g and c and ("'" in g + c or "/" in g + c):
            run.cov["distinct_nontrivial"] += 1
    run.count(label, len(cases))
    bad, errors = H.run_sharded(run.pid, IMPORTS, "option (list N) * option (list N) * list N * obs_from",
                                "check_pair", cases, shard=500, tag=label)
    run.corr_errors(errors)
    run.cov["traces_validated_against_impl"] += len(cases) - len(bad)
    for i in bad[:3]:
        g, c, p, o = meta[i]
        rc, out = H.coq_print_terms(run.pid, IMPORTS,
                                    ["to_pathN %s %s" % (H.copt(g, codes), H.copt(c, codes)),
                                     "from_stringN %s" % codes(p)], tag="show%d" % i)
        run.violation("corr-pair", "model and ObjectPath disagree on names (%r, %r): impl path %r, back %r"
                      % (g, c, p, o), {"op": "pair", "group": g, "channel": c},
                      kind="correspondence-broken", theorem="Model.PathN vs nptdms.common.ObjectPath",
                      actual={"path": p, "back": o}, model=out[-1500:],
                      no_input=(o == (g, c)))
    return meta


def run_raw(run, paths, label):
    cases, meta = [], []
    for p in paths:
        o = obs_from_string(p)
        cases.append("(%s, %s)" % (codes(p), c_obs(o)))
        meta.append((p, o))
        run.cov["evaluations"] += 1
        if o is not None:
            run.cov["distinct_nontrivial"] += 1
    run.count(label, len(cases))
    bad, errors = H.run_sharded(run.pid, IMPORTS, "list N * obs_from", "check_raw", cases,
                                shard=700, tag=label)
    run.corr_errors(errors)
    run.cov["traces_validated_against_impl"] += len(cases) - len(bad)
    for i in bad[:3]:
        p, o = meta[i]
        rc, out = H.coq_print_terms(run.pid, IMPORTS, ["from_stringN %s" % codes(p)], tag="showr%d" % i)
        # is this a property failure? only if the raw string is a printed path whose names change
        run.violation("corr-raw", "model and ObjectPath.from_string disagree on raw path %r: impl %r" % (p, o),
                      {"op": "raw", "path": p}, kind="correspondence-broken",
                      theorem="Model.PathN.from_stringN vs ObjectPath.from_string",
                      actual=o, model=out[-1500:], no_input=True)


def end_to_end(run, rng, nfiles):
    """Names written with TdmsWriter are the names read, reported and looked up."""
    import numpy as np
    from nptdms import TdmsWriter, TdmsFile, ChannelObject, GroupObject
    alpha = ["'", "/", " ", "a", "b", "''", "/'", "'/'", "é", "中", "\U0001f600", ""]
    for k in range(nfiles):
        ngroups = rng.randint(1, 4)
        names = set()
        while len(names) < ngroups:
            names.add("".join(rng.choice(alpha) for _ in range(rng.randint(0, 4))))
        groups = sorted(names)
        chans = {}
        for g in groups:
            cn = set()
            while len(cn) < rng.randint(1, 3):
                cn.add("".join(rng.choice(alpha) for _ in range(rng.randint(0, 4))))
            chans[g] = sorted(cn)
        buf = io.BytesIO()
        expected = {}
        try:
            with TdmsWriter(buf) as w:
                objs = []
                val = 0
                for g in groups:
                    objs.append(GroupObject(g, {"id": "G" + g}))
                    for c in chans[g]:
                        val += 1
                        expected[(g, c)] = val
                        objs.append(ChannelObject(g, c, np.array([val], dtype=np.int32), {"id": g + "|" + c}))
                w.write_segment(objs)
            buf.seek(0)
            f = TdmsFile.read(buf)
            got_groups = [g.name for g in f.groups()]
            ok = got_groups == groups
            detail = None
            if not ok:
                detail = ("groups", groups, got_groups)
            for g in groups:
                if not ok:
                    break
                grp = f[g]
                if grp.name != g or grp.properties.get("id") != "G" + g or \
                        [c.name for c in grp.channels()] != chans[g]:
                    ok, detail = False, ("group", g, grp.name, [c.name for c in grp.channels()])
                    break
                for c in chans[g]:
                    ch = grp[c]
                    op = ObjectPath.from_string(ch.path)
                    if (ch.name, ch.group_name, op.group, op.channel) != (c, g, g, c) or \
                            list(ch[:]) != [expected[(g, c)]] or ch.properties.get("id") != g + "|" + c:
                        ok, detail = False, ("channel", g, c, ch.name, ch.group_name, ch.path, list(ch[:]))
                        break
        except Exception as e:
            ok, detail = False, ("exception", repr(e))
        run.cov["evaluations"] += 1
        run.cov["distinct_nontrivial"] += 1
        run.count("end_to_end_files")
        if not ok:
            run.violation("end-to-end", "names not preserved through writer/reader: %r" % (detail,),
                          {"op": "e2e", "groups": groups, "channels": chans}, actual=detail)


def e2e_multi(run, rng, nfiles):
    """Several write_segment calls over names that coincide across roles (a group named like another group's
    channel, object lists whose path strings concatenate to the same text: [group a, group b, ...] against
    [channel (a, b), ...]); every channel must read back, eagerly AND lazily (whole, by index), exactly what was
    written under its own (group, channel) pair, and report its own names."""
    import numpy as np
    from nptdms import TdmsWriter, TdmsFile, ChannelObject, GroupObject
    alpha = ["a", "b", "'", "/", "'/'", "", "é"]
    for k in range(nfiles):
        def name():
            return "".join(rng.choice(alpha) for _ in range(rng.randint(0, 2)))
        n1, n2 = name(), name()
        others = set()
        while len(others) < rng.randint(1, 3):
            pr = (name(), name())
            if pr != (n1, n2):
                others.add(pr)
        others = sorted(others)
        chans = [(n1, n2)] + others
        written = {pr: [] for pr in chans}
        val = [0]

        def data(pr):
            n = rng.randint(1, 3)
            arr = np.arange(val[0], val[0] + n, dtype=np.int32)
            val[0] += n
            written[pr].append(arr)
            return arr
        calls = []
        for _ in range(rng.randint(1, 2)):
            calls.append(("chans", list(chans)))
        # the coincidence: the two names of channel (n1, n2) listed as GROUPS, followed by the same other channels
        calls.append(("groups", [n1, n2], list(others)))
        if rng.random() < 0.5:
            calls.append(("chans", list(chans)))
        case = {"op": "e2e_multi", "names": [n1, n2], "others": [list(x) for x in others],
                "calls": [c[0] for c in calls]}
        ok, detail = True, None
        try:
            buf = io.BytesIO()
            with TdmsWriter(buf) as w:
                for c in calls:
                    if c[0] == "chans":
                        w.write_segment([ChannelObject(g, ch, data((g, ch))) for (g, ch) in c[1]])
                    else:
                        gs = []
                        for g in c[1]:
                            if g not in gs:
                                gs.append(g)
                        w.write_segment([GroupObject(g, {"note": "G" + g}) for g in gs] +
                                        [ChannelObject(g, ch, data((g, ch))) for (g, ch) in c[2]])
            raw = buf.getvalue()
            expected = {pr: np.concatenate(v) for pr, v in written.items()}
            for mode in ("read", "open"):
                f = TdmsFile.read(io.BytesIO(raw)) if mode == "read" else TdmsFile.open(io.BytesIO(raw))
                try:
                    for (g, c), exp in expected.items():
                        ch = f[g][c]
                        op = ObjectPath.from_string(ch.path)
                        got = [int(x) for x in ch[:]]
                        byidx = [int(ch[i]) for i in range(len(ch))]
                        if (ch.name, ch.group_name, op.group, op.channel) != (c, g, g, c) or \
                                got != exp.tolist() or byidx != exp.tolist():
                            ok, detail = False, (mode, g, c, ch.name, ch.group_name, ch.path, got, byidx, exp.tolist())
                            break
                finally:
                    f.close()
                if not ok:
                    break
        except Exception as e:     # noqa: BLE001
            ok, detail = False, ("exception", repr(e))
        run.cov["evaluations"] += 1
        run.cov["distinct_nontrivial"] += 1
        run.count("end_to_end_multi_segment_files")
        if not ok:
            run.violation("end-to-end", "channels confused with one another or names not preserved (several segments, "
                          "names coinciding across roles): %r" % (detail,), case, actual=detail)


def e2e_implied_groups(run, rng, nfiles):
    """Hand-encoded files in which groups exist only through their channels' paths (no group object anywhere;
    TdmsWriter never produces these): group.name / path, channel.group_name and lookups must be the names in the
    channels' paths."""
    import struct
    from nptdms import TdmsFile
    alpha = ["a", "b", "'", "/", " ", "", "é", "north 東"]

    def s(x):
        b = x.encode("utf-8")
        return struct.pack("<L", len(b)) + b
    for k in range(nfiles):
        groups = set()
        while len(groups) < rng.randint(2, 4):
            groups.add("".join(rng.choice(alpha) for _ in range(rng.randint(0, 2))))
        groups = sorted(groups)
        rng.shuffle(groups)
        objs, data, expected = [], b"", []
        v = 0
        for g in groups:
            for c in rng.sample(["x", "y'", "/z"], rng.randint(1, 2)):
                v += 1
                objs.append(s(str(ObjectPath(g, c))) + struct.pack("<LLLQ", 20, 3, 1, 1) + struct.pack("<L", 0))
                data += struct.pack("<l", v)
                expected.append((g, c, v))
        if rng.random() < 0.5:
            objs.append(s("/") + struct.pack("<L", 0xFFFFFFFF) + struct.pack("<L", 0))     # root object LAST
        meta = struct.pack("<L", len(objs)) + b"".join(objs)
        raw = b"TDSm" + struct.pack("<l", 0xE) + struct.pack("<lQQ", 4713, len(meta) + len(data), len(meta)) + meta + data
        case = {"op": "e2e_implied", "hex": raw.hex(), "groups": groups}
        ok, detail = True, None
        try:
            for mode in ("read", "open"):
                f = TdmsFile.read(io.BytesIO(raw)) if mode == "read" else TdmsFile.open(io.BytesIO(raw))
                try:
                    seen = [g.name for g in f.groups()]
                    order = []
                    for g, c, v_ in expected:
                        if g not in order:
                            order.append(g)
                    if seen != order:
                        ok, detail = False, (mode, "groups", order, seen)
                    for g, c, v_ in expected:
                        if not ok:
                            break
                        grp = f[g]
                        ch = grp[c]
                        if grp.name != g or ObjectPath.from_string(grp.path).group != g or \
                                (ch.name, ch.group_name) != (c, g) or [int(x) for x in ch[:]] != [v_]:
                            ok, detail = False, (mode, g, c, grp.name, grp.path, ch.name, ch.group_name)
                finally:
                    f.close()
                if not ok:
                    break
        except Exception as e:     # noqa: BLE001
            ok, detail = False, ("exception", repr(e))
        run.cov["evaluations"] += 1
        run.cov["distinct_nontrivial"] += 1
        run.count("end_to_end_implied_group_files")
        if not ok:
            run.violation("end-to-end", "groups that exist only through their channels report wrong names: %r"
                          % (detail,), case, actual=detail)


def replay(run, case):
    op = case.get("op")
    if op == "pair":
        run_pairs(run, [(case["group"], case["channel"])], "replay")
    elif op == "alias":
        run_pairs(run, [tuple(case["a"]), tuple(case["b"])], "replay")
    elif op == "raw":
        run_raw(run, [case["path"]], "replay")
    elif op == "e2e":
        end_to_end(run, random.Random(run.seed), 50)
    elif op == "e2e_multi":
        e2e_multi(run, random.Random(run.seed), 800)
    elif op == "e2e_implied":
        e2e_implied_groups(run, random.Random(run.seed), 600)
    else:
        print("replay: nothing to re-run for kind", op)


def main():
    run = H.Run("C16")
    run.prove()
    if run.replay:
        import json
        replay(run, json.load(open(run.replay))["case"])
        run.finish()
    rng = random.Random(run.seed)
    alpha4 = ["'", "/", " ", "a"]
    n_pair = run.pick(3, 4)
    comps = list(strings_upto(alpha4, n_pair))
    ids = [(None, None)] + [(g, None) for g in comps] + [(g, c) for g in comps for c in comps]
    run_pairs(run, ids, "exhaustive_pairs_len_le_%d" % n_pair)
    n_raw = run.pick(7, 9)
    run_raw(run, list(strings_upto(["'", "/", "a"], n_raw)), "exhaustive_raw_len_le_%d" % n_raw)
    # random unicode names
    pool = ["'", "/", " ", "a", "Z", "é", "中", "\U0001f600", "\n", "\\", '"', "\x00"]
    rnd = []
    for _ in range(run.pick(300, 5000)):
        g = "".join(rng.choice(pool) for _ in range(rng.randint(0, 12)))
        c = "".join(rng.choice(pool) for _ in range(rng.randint(0, 12)))
        rnd.append((g, c))
    run_pairs(run, rnd, "random_unicode_pairs")
    end_to_end(run, rng, run.pick(40, 600))
    e2e_multi(run, rng, run.pick(60, 800))
    e2e_implied_groups(run, rng, run.pick(40, 600))
    run.cov["exhaustive"] = True
    run.cov["rule"] = ("exhaustive: every (group, channel) pair of strings of length <= %d over {quote, slash, space, a} "
                       "(plus root and group-only), every raw path string of length <= %d over {quote, slash, a}; "
                       "random: unicode pairs; end-to-end writer->reader files. Non-trivial = a pair containing a "
                       "quote or slash, an accepted raw path, or an end-to-end file." % (n_pair, n_raw))
    run.sample({"group": "a'/", "channel": "/'", "path": str(ObjectPath("a'/", "/'"))})
    run.sample({"raw_path": "/'a''/'/'a'", "from_string": obs_from_string("/'a''/'/'a'")})
    run.assumptions = ["Python str is modelled as a list of code points; str.replace/join as list functions",
                      "end-to-end clause relies on C07/C01 checks for the writer/reader themselves"]
    run.finish()


if __name__ == "__main__":
    main()
