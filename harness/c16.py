"""C16 — Object names are arbitrary strings and never alias.

Proof: Props/C16.v (path scanner inverts path printer over any alphabet).
Tie: exhaustive correspondence of Model/PathN.v with nptdms.common.ObjectPath
(str / from_string), plus the direct oracle (round trip and injectivity) on the
implementation, plus an end-to-end pass through TdmsWriter / TdmsFile.
"""
import io
import itertools
import os
import random
import sys

sys.path.insert(0, os.path.dirname(os.path.abspath(__file__)))
import common as H

H.ensure_env()

from nptdms.common import ObjectPath  # noqa: E402

IMPORTS = "From NpTdms Require Import Model.Path Model.PathN.\nOpen Scope N_scope.\n"


def codes(s):
    return H.clist(["%d" % ord(ch) for ch in s])


def obs_from_string(p):
    try:
        o = ObjectPath.from_string(p)
    except ValueError:
        return None
    return (o.group, o.channel)


def c_obs(o):
    if o is None:
        return "None"
    return "(Some (%s, %s))" % (H.copt(o[0], codes), H.copt(o[1], codes))


def strings_upto(alpha, n):
    for k in range(n + 1):
        for t in itertools.product(alpha, repeat=k):
            yield "".join(t)


def pair_case(g, c):
    p = str(ObjectPath(*[x for x in (g, c) if x is not None]))
    o = obs_from_string(p)
    term = "(%s, %s, %s, %s)" % (H.copt(g, codes), H.copt(c, codes), codes(p), c_obs(o))
    return p, o, term


def run_pairs(run, ids, label):
    """ids: list of (g, c) with g/c str or None. Oracle + correspondence."""
    cases, meta = [], []
    seen_paths = {}
    for (g, c) in ids:
        try:
            p, o, term = pair_case(g, c)
        except Exception as e:  # printing must never fail
            run.violation("print-raises", "str(ObjectPath(%r,%r)) raised %r" % (g, c, e),
                          {"op": "pair", "group": g, "channel": c}, actual=repr(e))
            continue
        cases.append(term)
        meta.append((g, c, p, o))
        run.cov["evaluations"] += 1
        # direct oracle 1: round trip is the identity
        if o != (g, c):
            run.violation("roundtrip", "names (%r, %r) -> path %r -> %r" % (g, c, p, o),
                          {"op": "pair", "group": g, "channel": c}, expected=[g, c], actual=o)
        # direct oracle 2: distinct identities give distinct paths
        if p in seen_paths and seen_paths[p] != (g, c):
            run.violation("alias", "names %r and %r share path %r" % (seen_paths[p], (g, c), p),
                          {"op": "alias", "a": list(seen_paths[p]), "b": [g, c]},
                          expected="distinct paths", actual=p)
        seen_paths.setdefault(p, (g, c))
        if g and c and ("'" in g + c or "/" in g + c):
            run.cov["distinct_nontrivial"] += 1
    run.count(label, len(cases))
    bad, errors = H.run_sharded(run.pid, IMPORTS, "option (list N) * option (list N) * list N * obs_from",
                                "check_pair", cases, shard=500, tag=label)
    run.corr_errors(errors)
    run.cov["traces_validated_against_impl"] += len(cases) - len(bad)
    for i in bad[:3]:
        g, c, p, o = meta[i]
        rc, out = H.coq_print_terms(run.pid, IMPORTS,
                                    ["to_pathN %s %s" % (H.copt(g, codes), H.copt(c, codes)),
                                     "from_stringN %s" % codes(p)], tag="show%d" % i)
        run.violation("corr-pair", "model and ObjectPath disagree on names (%r, %r): impl path %r, back %r"
                      % (g, c, p, o), {"op": "pair", "group": g, "channel": c},
                      kind="correspondence-broken", theorem="Model.PathN vs nptdms.common.ObjectPath",
                      actual={"path": p, "back": o}, model=out[-1500:],
                      no_input=(o == (g, c)))
    return meta


def run_raw(run, paths, label):
    cases, meta = [], []
    for p in paths:
        o = obs_from_string(p)
        cases.append("(%s, %s)" % (codes(p), c_obs(o)))
        meta.append((p, o))
        run.cov["evaluations"] += 1
        if o is not None:
            run.cov["distinct_nontrivial"] += 1
    run.count(label, len(cases))
    bad, errors = H.run_sharded(run.pid, IMPORTS, "list N * obs_from", "check_raw", cases,
                                shard=700, tag=label)
    run.corr_errors(errors)
    run.cov["traces_validated_against_impl"] += len(cases) - len(bad)
    for i in bad[:3]:
        p, o = meta[i]
        rc, out = H.coq_print_terms(run.pid, IMPORTS, ["from_stringN %s" % codes(p)], tag="showr%d" % i)
        # is this a property failure? only if the raw string is a printed path whose names change
        run.violation("corr-raw", "model and ObjectPath.from_string disagree on raw path %r: impl %r" % (p, o),
                      {"op": "raw", "path": p}, kind="correspondence-broken",
                      theorem="Model.PathN.from_stringN vs ObjectPath.from_string",
                      actual=o, model=out[-1500:], no_input=True)


def end_to_end(run, rng, nfiles):
    """Names written with TdmsWriter are the names read, reported and looked up."""
    import numpy as np
    from nptdms import TdmsWriter, TdmsFile, ChannelObject, GroupObject
    alpha = ["'", "/", " ", "a", "b", "''", "/'", "'/'", "é", "中", "\U0001f600", ""]
    for k in range(nfiles):
        ngroups = rng.randint(1, 4)
        names = set()
        while len(names) < ngroups:
            names.add("".join(rng.choice(alpha) for _ in range(rng.randint(0, 4))))
        groups = sorted(names)
        chans = {}
        for g in groups:
            cn = set()
            while len(cn) < rng.randint(1, 3):
                cn.add("".join(rng.choice(alpha) for _ in range(rng.randint(0, 4))))
            chans[g] = sorted(cn)
        buf = io.BytesIO()
        expected = {}
        try:
            with TdmsWriter(buf) as w:
                objs = []
                val = 0
                for g in groups:
                    objs.append(GroupObject(g, {"id": "G" + g}))
                    for c in chans[g]:
                        val += 1
                        expected[(g, c)] = val
                        objs.append(ChannelObject(g, c, np.array([val], dtype=np.int32), {"id": g + "|" + c}))
                w.write_segment(objs)
            buf.seek(0)
            f = TdmsFile.read(buf)
            got_groups = [g.name for g in f.groups()]
            ok = got_groups == groups
            detail = None
            if not ok:
                detail = ("groups", groups, got_groups)
            for g in groups:
                if not ok:
                    break
                grp = f[g]
                if grp.name != g or grp.properties.get("id") != "G" + g or \
                        [c.name for c in grp.channels()] != chans[g]:
                    ok, detail = False, ("group", g, grp.name, [c.name for c in grp.channels()])
                    break
                for c in chans[g]:
                    ch = grp[c]
                    op = ObjectPath.from_string(ch.path)
                    if (ch.name, ch.group_name, op.group, op.channel) != (c, g, g, c) or \
                            list(ch[:]) != [expected[(g, c)]] or ch.properties.get("id") != g + "|" + c:
                        ok, detail = False, ("channel", g, c, ch.name, ch.group_name, ch.path, list(ch[:]))
                        break
        except Exception as e:
            ok, detail = False, ("exception", repr(e))
        run.cov["evaluations"] += 1
        run.cov["distinct_nontrivial"] += 1
        run.count("end_to_end_files")
        if not ok:
            run.violation("end-to-end", "names not preserved through writer/reader: %r" % (detail,),
                          {"op": "e2e", "groups": groups, "channels": chans}, actual=detail)


def replay(run, case):
    op = case.get("op")
    if op == "pair":
        run_pairs(run, [(case["group"], case["channel"])], "replay")
    elif op == "alias":
        run_pairs(run, [tuple(case["a"]), tuple(case["b"])], "replay")
    elif op == "raw":
        run_raw(run, [case["path"]], "replay")
    elif op == "e2e":
        end_to_end(run, random.Random(run.seed), 50)
    else:
        print("replay: nothing to re-run for kind", op)


def main():
    run = H.Run("C16")
    run.prove()
    if run.replay:
        import json
        replay(run, json.load(open(run.replay))["case"])
        run.finish()
    rng = random.Random(run.seed)
    alpha4 = ["'", "/", " ", "a"]
    n_pair = run.pick(3, 4)
    comps = list(strings_upto(alpha4, n_pair))
    ids = [(None, None)] + [(g, None) for g in comps] + [(g, c) for g in comps for c in comps]
    run_pairs(run, ids, "exhaustive_pairs_len_le_%d" % n_pair)
    n_raw = run.pick(7, 9)
    run_raw(run, list(strings_upto(["'", "/", "a"], n_raw)), "exhaustive_raw_len_le_%d" % n_raw)
    # random unicode names
    pool = ["'", "/", " ", "a", "Z", "é", "中", "\U0001f600", "\n", "\\", '"', "\x00"]
    rnd = []
    for _ in range(run.pick(300, 5000)):
        g = "".join(rng.choice(pool) for _ in range(rng.randint(0, 12)))
        c = "".join(rng.choice(pool) for _ in range(rng.randint(0, 12)))
        rnd.append((g, c))
    run_pairs(run, rnd, "random_unicode_pairs")
    end_to_end(run, rng, run.pick(40, 600))
    run.cov["exhaustive"] = True
    run.cov["rule"] = ("exhaustive: every (group, channel) pair of strings of length <= %d over {quote, slash, space, a} "
                       "(plus root and group-only), every raw path string of length <= %d over {quote, slash, a}; "
                       "random: unicode pairs; end-to-end writer->reader files. Non-trivial = a pair containing a "
                       "quote or slash, an accepted raw path, or an end-to-end file." % (n_pair, n_raw))
    run.sample({"group": "a'/", "channel": "/'", "path": str(ObjectPath("a'/", "/'"))})
    run.sample({"raw_path": "/'a''/'/'a'", "from_string": obs_from_string("/'a''/'/'a'")})
    run.assumptions = ["Python str is modelled as a list of code points; str.replace/join as list functions",
                      "end-to-end clause relies on C07/C01 checks for the writer/reader themselves"]
    run.finish()


if __name__ == "__main__":
    main()
