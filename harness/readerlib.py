"""Shared pieces of the reader-side checks (C01, C02, C03, C06, C09, C11, C15)."""
import os
import sys

sys.path.insert(0, os.path.dirname(os.path.abspath(__file__)))
import common as H
import tdmsgen as G

READER_IMPORTS = ("From NpTdms Require Import Base.Bytes Base.Res Model.Tokens Model.SegState "
                  "Model.Layout Model.Reader.\nOpen Scope Z_scope.\n")


def c_obs(toks):
    return "None" if toks is None else "(Some %s)" % G.toks_to_coq(toks)


def case_all(data, toks):
    return '(hex "%s", %s)' % (data.hex(), c_obs(toks))


def first_diff(a, b):
    if a is None or b is None:
        return {"a_is_none": a is None, "b_is_none": b is None}
    for i, (x, y) in enumerate(zip(a, b)):
        if x != y:
            return {"index": i, "a": repr(x)[:120], "b": repr(y)[:120]}
    if len(a) != len(b):
        return {"index": min(len(a), len(b)), "len_a": len(a), "len_b": len(b)}
    return None


def exc_kind(ex):
    return type(ex).__name__ if ex is not None else None


def describe_segs(segs):
    out = []
    for s in segs:
        ents = None
        if s.entries is not None:
            ents = []
            for x in s.entries:
                if x.idx is None:
                    i = "nodata"
                elif x.idx == "prev":
                    i = "prev"
                elif x.idx[0] == "full":
                    i = "full(dt=%#x,n=%d)" % (x.idx[2], x.idx[4])
                else:
                    i = "daqmx(n=%d,scalers=%d,widths=%s)" % (x.idx[4], len(x.idx[5]), x.idx[6])
                ents.append("%s:%s:p%d" % (x.path.decode("utf-8", "replace"), i, len(x.props)))
        out.append({"endian": s.e, "toc": s.toc, "entries": ents, "data_bytes": len(s.data),
                    "next": s.next_mode})
    return out


def run_agree_all(run, cases, meta, tag, what):
    """cases: Coq terms (bytes, obs); meta: parallel list of dicts with 'data' and description.
    Model vs implementation, evaluated in Coq."""
    bad, errors = H.run_sharded(run.pid, READER_IMPORTS, "bytes * option (list tok)",
                                "(fun c => agree_all (fst c) (snd c))", cases,
                                shard=run.pick(60, 150), tag=tag, timeout=1200)
    run.corr_errors(errors, tag)
    run.cov["traces_validated_against_impl"] += len(cases) - len(bad)
    for i in bad[:3]:
        m = meta[i]
        rc, out = H.coq_print_terms(run.pid, READER_IMPORTS,
                                    ['rd_all (hex "%s")' % m["data"].hex()], tag="show_%s_%d" % (tag, i))
        run.violation("corr-" + tag, "%s: reader model and implementation disagree" % what,
                      {"op": "read", "hex": m["data"].hex(), "desc": m.get("desc")},
                      kind="correspondence-broken", theorem="Model.Reader.rd_all vs TdmsFile.read",
                      actual=m.get("impl"), model=out[-3000:], no_input=not m.get("oracle_failed", False))
    return bad
