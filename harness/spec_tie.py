"""spec_tie — the Gallina specification Model/Spec.v against the Python reference rules.

Model/Spec.v (spec_meaning, spec_tokens) is the textbook meaning of a TDMS file that
Props/C01_spec.v proves the reader model refines.  harness/tdmsgen.py states the same
rules in Python (SpecState, meaning, expected_tokens); C01 compares THAT with what
npTDMS shows.  This script closes the triangle: on generated file syntax it evaluates
the Gallina specification inside Coq and compares it with the Python reference, so the
specification is exercised rather than trusted.

Per generated file (same generator and parameter mixture as harness/c01.py):
  tokens   spec_tokens (spec_meaning segs)  =  expected_tokens(meaning(segs))
  bytes    FileSyn.ser_file segs            =  tdmsgen.ser_file(segs)   (validates the syntax printer)
  spec_ok  forallb seg_ok segs              (statistics only: side condition of the refinement theorem)
Plus error cases obtained by mutating generated syntax:
  a  first segment without metadata                 -> SErr FirstWithoutMetadata   (Python: SpecError)
  b  "same as before" for a path never listed       -> SErr MatchPrevUndefined | MatchPrevNeverIndexed
  c  full index with another data type, later seg   -> SErr TypeChange             (Python: SpecError)
  d  raw data block one byte short (chunk >= 2 B)   -> SErr BadRawData             (Python: no error, skips)

Usage: python3 harness/spec_tie.py [--n N] [--seed S] [--errors K]      exit 0 iff no disagreement
"""
import argparse
import copy
import os
import random
import re
import sys
import time

sys.path.insert(0, os.path.dirname(os.path.abspath(__file__)))
import common as H

H.ensure_env()
import tdmsgen as G          # noqa: E402
import readerlib as R        # noqa: E402

PID = "SPECTIE"
IMPORTS = ("From NpTdms Require Import Base.Bytes Base.Res Model.Tokens Model.SegState "
           "Model.Layout Model.Reader Model.FileSyn Model.Spec.\nOpen Scope Z_scope.\n")

ERR_NAMES = ["MatchPrevUndefined", "FirstWithoutMetadata", "TypeChange", "MatchPrevNeverIndexed",
             "UnsupportedIndex", "BadLayout", "BadRawData"]

EXTRA_DEFS = """
Definition tie_case := ((list fseg * list tok) * bytes)%type.
Definition tie_tok (c : tie_case) : bool :=
  match spec_meaning (fst (fst c)) with
  | SOk k => toks_eqb (spec_tokens k) (snd (fst c))
  | SErr _ => false
  end.
Definition tie_ser (c : tie_case) : bool := bytes_eqb (ser_file (fst (fst c))) (snd c).
Definition tie_ok (c : tie_case) : bool := forallb seg_ok (fst (fst c)).
Definition err_code (e : spec_err) : Z :=
  match e with
  | MatchPrevUndefined => 0 | FirstWithoutMetadata => 1 | TypeChange => 2
  | MatchPrevNeverIndexed => 3 | UnsupportedIndex => 4 | BadLayout => 5 | BadRawData => 6
  end.
(* -1: the specification gives the file a meaning *)
Definition outcome_code (segs : list fseg) : Z :=
  match spec_meaning segs with SOk _ => -1 | SErr e => err_code e end.
Definition spec_show (segs : list fseg) : list tok + spec_err :=
  match spec_meaning segs with SOk k => inl (spec_tokens k) | SErr e => inr e end.
(* kind: 0 = a, 1 = b, 2 = c, 3 = d *)
Definition tie_err (c : list fseg * Z) : bool :=
  match spec_meaning (fst c) with
  | SOk _ => false
  | SErr e =>
    if snd c =? 0 then match e with FirstWithoutMetadata => true | _ => false end
    else if snd c =? 1 then match e with MatchPrevUndefined => true | MatchPrevNeverIndexed => true | _ => false end
    else if snd c =? 2 then match e with TypeChange => true | _ => false end
    else if snd c =? 3 then match e with BadRawData => true | _ => false end
    else false
  end.
"""


# ---------------------------------------------------------------------------
# generator parameters: copied from harness/c01.py (type_focus_params)

def type_focus_params(rng):
    """parameter sets that force particular type x layout x chunking combinations"""
    k = rng.random()
    if k < 0.25:
        return G.GenParams(p_interleaved=0.9, types=G.FIXED_TYPES, max_chunks=3, min_vals=1)
    if k < 0.40:
        return G.GenParams(p_interleaved=0.0, types=[G.T_STRING, 3, G.T_TIME], max_chunks=3)
    if k < 0.55:
        return G.GenParams(types=[G.T_C64, G.T_C128, 4, 8, 10, G.T_TIME], p_interleaved=0.6, min_vals=1)
    if k < 0.65:
        return G.GenParams(max_segs=8, max_vals=2, p_nometa=0.3, p_keep_list=0.8)
    return G.GenParams()


# ---------------------------------------------------------------------------
# printer: tdmsgen.Seg -> Coq term of type fseg (Model/FileSyn.v, Model/Tokens.v)

def c_prop(p):
    return "(mkProp %s %s %s)" % (H.chex(p.name), H.cz(p.ty), H.chex(p.val))


def c_scaler(s):
    return "(mkScaler %s)" % " ".join(H.cz(v) for v in s)


def c_idx(i):
    if i is None:
        return "INoData"
    if i == "prev":
        return "IMatchPrev"
    if i[0] == "full":
        _, lf, dt, dim, n, total = i
        return "(IFull %s %s %s %s %s)" % (H.cz(lf), H.cz(dt), H.cz(dim), H.cz(n), H.copt(total, H.cz))
    _, kind, dt, dim, n, scalers, widths = i
    return "(IDaqmx %s %s %s %s %s %s)" % (H.cz(kind), H.cz(dt), H.cz(dim), H.cz(n),
                                           H.clist([c_scaler(s) for s in scalers]),
                                           H.clist([H.cz(w) for w in widths]))


def c_entry(x):
    return "(mkEntry %s %s %s)" % (H.chex(x.path), c_idx(x.idx), H.clist([c_prop(p) for p in x.props]))


def c_seg(s):
    # the Coq fs_toc is the mask as serialised: tdmsgen.ser_seg adds the big-endian bit from s.e
    toc = s.toc | (G.TOC_BIG if s.e == ">" else 0)
    assert s.next_mode == "exact", "FileSyn.ser_seg writes exact offsets only"
    return "(mkFseg %s %s %s %s)" % (H.cz(toc), H.cz(s.version),
                                     H.copt(s.entries, lambda es: H.clist([c_entry(x) for x in es])),
                                     H.chex(s.data))


def c_segs(segs):
    return H.clist([c_seg(s) for s in segs])


# ---------------------------------------------------------------------------
# parsing what Coq prints for a token list (for the disagreement report)

TOK_RE = re.compile(r"TZ\s+\(?\s*(-?\s*\d+)\s*(?:%Z)?\)?|TB\s+\[([^\]]*)\]|TB\s+(nil)")


def parse_coq_show(out):
    """-> ('ok', tokens) | ('err', constructor) | ('?', raw text)"""
    txt = out.replace("\n", " ")
    m = re.search(r"=\s*inr\s+(\w+)", txt)
    if m:
        return "err", m.group(1)
    m = re.search(r"=\s*inl\s+(.*?)\s*:\s*\(?list tok", txt)
    if not m:
        return "?", out[-2000:]
    toks = []
    for t in TOK_RE.finditer(m.group(1)):
        if t.group(1) is not None:
            toks.append(G.TZ(int(t.group(1).replace(" ", ""))))
        elif t.group(3) is not None:
            toks.append(G.TB(b""))
        else:
            body = t.group(2).strip()
            # a byte prints as x77 or Byte.x77
            toks.append(G.TB(bytes(int(x.strip()[-2:], 16) for x in body.split(";")) if body else b""))
    return "ok", toks


def show_tok(t):
    return "Z %d" % t[1] if t[0] == "Z" else "B %s %r" % (t[1].hex(), t[1])


# ---------------------------------------------------------------------------
# Python-side seg_ok (Model/Spec.v), only to explain WHY a file is outside spec_ok

def canonical(pb):
    try:
        comps = G.parse_path(pb)
    except Exception:      # noqa: BLE001
        return None
    if len(comps) > 2:
        return None
    back = b"/" if not comps else G.quote_path(*comps)
    return comps if back == pb else None


def seg_ok_reasons(s):
    out = set()
    if s.entries is None:
        return out
    paths = [x.path for x in s.entries]
    if len(set(paths)) != len(paths):
        out.add("duplicate path in one segment")
    for x in s.entries:
        comps = canonical(x.path)
        if comps is None:
            out.add("non-canonical path")
        if isinstance(x.idx, tuple) and x.idx[0] == "full":
            if comps is not None and len(comps) != 2:
                out.add("full index on a non-channel path")
    return out


# ---------------------------------------------------------------------------
# error cases: single-fault mutations of generated syntax

def chunk_sizes(segs):
    """per segment: bytes per chunk of the data objects (Spec.v chunk_bytes), by the Python rules"""
    st = G.SpecState()
    out = []
    for s in segs:
        st.apply_metadata(s)
        st.nsegs += 1
        out.append(sum((total if dt == G.T_STRING else n * G.SIZES[dt])
                       for (_, (dt, n, total)) in st.data_objects()))
    return out


def mutate_kind(rng, kind, segs):
    """segs is a private copy. -> (segs, note) or None when the file offers no place for this fault"""
    if kind == "a":
        segs[0].entries = None
        segs[0].toc &= ~G.TOC_META
        return segs, "segment 0: metadata block removed"
    if kind == "b":
        seen, cands = set(), []
        for si, s in enumerate(segs):
            for ei, x in enumerate(s.entries or []):
                if x.path not in seen and x.idx != "prev":
                    cands.append((si, ei))
            seen.update(x.path for x in (s.entries or []))
        if not cands:
            return None
        si, ei = rng.choice(cands)
        segs[si].entries[ei].idx = "prev"
        return segs, "segment %d entry %d (%r): index := same-as-before, path never listed before" % (
            si, ei, segs[si].entries[ei].path)
    if kind == "c":
        st = G.SpecState()
        cands = []
        for si, s in enumerate(segs):
            for ei, x in enumerate(s.entries or []):
                if si > 0 and isinstance(x.idx, tuple) and x.idx[0] == "full" and x.path in st.last_index:
                    cands.append((si, ei, st.last_index[x.path][0]))
            st.apply_metadata(s)
            st.nsegs += 1
        if not cands:
            return None
        si, ei, old = rng.choice(cands)
        x = segs[si].entries[ei]
        new = rng.choice([t for t in G.FIXED_TYPES if t != old and t != x.idx[2]])
        x.idx = ("full", x.idx[1], new, x.idx[3], x.idx[4], x.idx[5])
        return segs, "segment %d entry %d (%r): data type %#x -> %#x" % (si, ei, x.path, old, new)
    if kind == "d":
        cs = chunk_sizes(segs)
        cands = [si for si, s in enumerate(segs) if len(s.data) > 0 and cs[si] >= 2]
        if not cands:
            return None
        si = rng.choice(cands)
        segs[si].data = segs[si].data[:-1]
        return segs, "segment %d: raw data %d -> %d bytes (chunk %d bytes)" % (
            si, len(segs[si].data) + 1, len(segs[si].data), cs[si])
    raise ValueError(kind)


def make_error_cases(rng, per_kind):
    need = {k: per_kind for k in "abcd"}
    out = []
    tries = 0
    while any(need.values()) and tries < 200 * per_kind + 100:
        tries += 1
        segs = G.gen_file(rng, type_focus_params(rng))
        for kind in sorted(need, key=lambda k: -need[k]):
            if not need[kind]:
                continue
            m = mutate_kind(rng, kind, copy.deepcopy(segs))
            if m is not None:
                out.append({"kind": kind, "segs": m[0], "note": m[1]})
                need[kind] -= 1
                break
    return out


EXPECTED_ERR = {"a": "FirstWithoutMetadata", "b": "MatchPrevUndefined | MatchPrevNeverIndexed",
                "c": "TypeChange", "d": "BadRawData"}


# ---------------------------------------------------------------------------

def build():
    spec_vo = H.THEORIES / "Model" / "Spec.vo"
    H.project_sync()
    try:
        H.make(["theories/Model/Spec.vo"], timeout=900)
    except H.BuildError as ex:
        print("BUILD FAILED: %s\n%s" % (ex.what, ex.log[-3000:]))
        sys.exit(2)
    if not spec_vo.exists():
        print("BUILD FAILED: %s missing" % spec_vo)
        sys.exit(2)


def coq_errors(errors, what):
    for name, out in errors:
        print("COQ ERROR in %s (%s):\n%s" % (name, what, out[-2500:]))
    return len(errors)


def main():
    ap = argparse.ArgumentParser()
    ap.add_argument("--n", type=int, default=300)
    ap.add_argument("--seed", type=int, default=None)
    ap.add_argument("--errors", type=int, default=12, help="error cases per kind (a, b, c, d)")
    ap.add_argument("--show", type=int, default=3, help="disagreements written out in full")
    a = ap.parse_args()
    seed = a.seed if a.seed is not None else int(os.environ.get("VERIF_SEED", "1"))
    t0 = time.time()
    build()
    t_build = time.time() - t0
    rng = random.Random(seed)
    failures = 0

    # ---- generated files -------------------------------------------------------------
    files, cases = [], []
    py_raised = []
    for i in range(a.n):
        segs = G.gen_file(rng, type_focus_params(rng))
        try:
            expected = G.expected_tokens(G.meaning(segs))
        except G.SpecError as ex:
            py_raised.append((i, repr(ex)))
            expected = None
        data = G.ser_file(segs)
        files.append({"segs": segs, "expected": expected, "data": data})
        cases.append("((%s, %s), %s)" % (c_segs(segs), G.toks_to_coq(expected if expected is not None else []),
                                         H.chex(data)))
    shard = max(1, -(-len(cases) // H.NCPU))
    t1 = time.time()
    results = {}
    ncoq_err = 0
    for fn in ("tie_tok", "tie_ser", "tie_ok"):
        bad, errors = H.run_sharded(PID, IMPORTS, "tie_case", fn, cases, shard=shard,
                                    extra_defs=EXTRA_DEFS, tag=fn, timeout=600)
        ncoq_err += coq_errors(errors, fn)
        results[fn] = sorted(bad)
    t_files = time.time() - t1
    tok_bad, ser_bad, notok = results["tie_tok"], results["tie_ser"], results["tie_ok"]

    nseg = sum(len(f["segs"]) for f in files)
    nvals = sum(1 for f in files if f["expected"] is not None for t in f["expected"] if t[0] == "B")
    print("spec_tie: seed=%d files=%d segments=%d (interleaved %d, big-endian %d, metadata-less %d) tokens=%d"
          % (seed, len(files), nseg,
             sum(1 for f in files for s in f["segs"] if s.toc & G.TOC_INTERLEAVED),
             sum(1 for f in files for s in f["segs"] if s.e == ">"),
             sum(1 for f in files for s in f["segs"] if s.entries is None),
             sum(len(f["expected"] or []) for f in files)))
    print("  byte-string tokens (names, paths, property and channel values): %d" % nvals)
    if py_raised:
        print("  Python reference raised SpecError on %d generated files (unexpected): %s"
              % (len(py_raised), py_raised[:3]))
        failures += len(py_raised)
    print("token disagreements (spec_tokens (spec_meaning segs) vs expected_tokens(meaning(segs))): %d / %d"
          % (len(tok_bad), len(files)))
    print("serialisation disagreements (FileSyn.ser_file vs tdmsgen.ser_file): %d / %d" % (len(ser_bad), len(files)))
    reasons = {}
    for i in notok:
        rs = set()
        for s in files[i]["segs"]:
            rs |= seg_ok_reasons(s)
        for r in (rs or {"(no reason found by the Python seg_ok: printer or rule mismatch?)"}):
            reasons[r] = reasons.get(r, 0) + 1
    py_notok = [i for i, f in enumerate(files) if any(seg_ok_reasons(s) for s in f["segs"])]
    print("spec_ok (forallb seg_ok segs, evaluated in Coq): %d / %d files; outside spec_ok: %d %s"
          % (len(files) - len(notok), len(files), len(notok),
             dict(sorted(reasons.items())) if reasons else ""))
    if py_notok != notok:
        print("  note: Python re-statement of seg_ok differs from Coq on files %s (statistics only)"
              % sorted(set(py_notok) ^ set(notok))[:10])
    print("  token agreement inside spec_ok: %d / %d; outside spec_ok: %d / %d"
          % (sum(1 for i in range(len(files)) if i not in set(notok) and i not in set(tok_bad)),
             len(files) - len(notok),
             sum(1 for i in notok if i not in set(tok_bad)), len(notok)))
    failures += len(tok_bad) + len(ser_bad)

    for i in tok_bad[:a.show]:
        f = files[i]
        print("---- token disagreement, file %d" % i)
        print("segments: %s" % R.describe_segs(f["segs"]))
        print("syntax (Coq): %s" % c_segs(f["segs"]))
        rc, out = H.coq_print_terms(PID, IMPORTS, ["spec_show %s" % c_segs(f["segs"])],
                                    extra_defs=EXTRA_DEFS, tag="show_tok_%d" % i)
        kind, val = parse_coq_show(out) if rc == 0 else ("?", out[-2000:])
        print("python tokens: %s" % ([show_tok(t) for t in f["expected"]] if f["expected"] is not None else None))
        if kind == "ok":
            print("coq tokens:    %s" % [show_tok(t) for t in val])
            print("first difference (a = python, b = coq): %s" % R.first_diff(f["expected"], val))
        else:
            print("coq outcome: %s %s" % (kind, val))
    for i in ser_bad[:a.show]:
        f = files[i]
        print("---- serialisation disagreement, file %d" % i)
        print("segments: %s" % R.describe_segs(f["segs"]))
        print("syntax (Coq): %s" % c_segs(f["segs"]))
        print("python bytes: %s" % f["data"].hex())
        rc, out = H.coq_print_terms(PID, IMPORTS,
                                    ["map b2z (ser_file %s)" % c_segs(f["segs"])],
                                    extra_defs=EXTRA_DEFS, tag="show_ser_%d" % i)
        lists = H.parse_eval_list(out) if rc == 0 else []
        if len(lists) == 1:
            cb = bytes(lists[0])
            k = next((j for j, (x, y) in enumerate(zip(cb, f["data"])) if x != y), min(len(cb), len(f["data"])))
            print("coq bytes:    %s\nfirst differing offset: %d (lengths python %d, coq %d)"
                  % (cb.hex(), k, len(f["data"]), len(cb)))
        else:
            print("coq output: %s" % out[-1500:])

    # ---- error cases --------------------------------------------------------------------
    t2 = time.time()
    errs = make_error_cases(rng, a.errors)
    kind_no = {"a": 0, "b": 1, "c": 2, "d": 3}
    py_bad = []
    for j, e in enumerate(errs):
        try:
            G.meaning(e["segs"])
            e["py"] = "no error"
        except G.SpecError as ex:
            e["py"] = "SpecError(%s)" % ex
        except Exception as ex:      # noqa: BLE001
            e["py"] = "%s(%s)" % (type(ex).__name__, ex)
        want_raise = e["kind"] in "abc"
        if want_raise != e["py"].startswith("SpecError"):
            py_bad.append(j)
    ecases = ["(%s, %s)" % (c_segs(e["segs"]), H.cz(kind_no[e["kind"]])) for e in errs]
    ebad, errors = H.run_sharded(PID, IMPORTS, "list fseg * Z", "tie_err", ecases,
                                 shard=max(1, -(-len(ecases) // H.NCPU)), extra_defs=EXTRA_DEFS,
                                 tag="tie_err", timeout=600)
    ncoq_err += coq_errors(errors, "tie_err")
    codes = None
    if errs:
        rc, out = H.coq_print_terms(PID, IMPORTS,
                                    ["map outcome_code %s" % H.clist([c_segs(e["segs"]) for e in errs])],
                                    extra_defs=EXTRA_DEFS, tag="err_outcomes")
        lists = H.parse_eval_list(out) if rc == 0 else []
        if len(lists) == 1 and len(lists[0]) == len(errs):
            codes = lists[0]
        else:
            print("COQ ERROR (outcome codes): %s" % out[-2000:])
            ncoq_err += 1
    t_errs = time.time() - t2
    print("error cases: %d" % len(errs))
    for kind in "abcd":
        idxs = [j for j, e in enumerate(errs) if e["kind"] == kind]
        hist = {}
        if codes is not None:
            for j in idxs:
                nm = "SOk" if codes[j] < 0 else "SErr " + ERR_NAMES[codes[j]]
                hist[nm] = hist.get(nm, 0) + 1
        pyh = {}
        for j in idxs:
            k = errs[j]["py"].split("(")[0] if errs[j]["py"] != "no error" else "no error"
            pyh[k] = pyh.get(k, 0) + 1
        print("  (%s) %2d cases, expected SErr %s: Coq agrees on %d; Coq outcomes %s; Python meaning: %s"
              % (kind, len(idxs), EXPECTED_ERR[kind], sum(1 for j in idxs if j not in set(ebad)),
                 hist, pyh))
    for j in sorted(set(ebad) | set(py_bad))[:a.show]:
        e = errs[j]
        print("---- error-case disagreement, case %d kind (%s): %s" % (j, e["kind"], e["note"]))
        print("segments: %s" % R.describe_segs(e["segs"]))
        print("syntax (Coq): %s" % c_segs(e["segs"]))
        print("python meaning: %s; coq outcome: %s; expected SErr %s"
              % (e["py"], ("?" if codes is None else "SOk" if codes[j] < 0 else "SErr " + ERR_NAMES[codes[j]]),
                 EXPECTED_ERR[e["kind"]]))
    failures += len(set(ebad) | set(py_bad))
    failures += ncoq_err

    print("timing: build %.1fs, files %.1fs, error cases %.1fs, total %.1fs"
          % (t_build, t_files, t_errs, time.time() - t0))
    print("RESULT: %s (%d files, %d token disagreements, %d serialisation disagreements, "
          "%d/%d error cases agree, %d Coq evaluation errors)"
          % ("AGREE" if failures == 0 else "DISAGREE", len(files), len(tok_bad), len(ser_bad),
             len(errs) - len(set(ebad) | set(py_bad)), len(errs), ncoq_err))
    H.cleanup()
    sys.exit(0 if failures == 0 else 1)


if __name__ == "__main__":
    main()
