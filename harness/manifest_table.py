# Table of claimed checks (exec'd by manifest_gen.py).
claim("C16",
      "Theorems (Props/C16.v, closed under the global context): for every alphabet with decidable equality and "
      "distinct quote/slash symbols, from_string(components_to_path(g, c)) = (g, c) for all strings g, c "
      "(also group-only and root), the scanner inverts the printer for any number of components, and the printer "
      "is injective on valid identities. The model (Model/Path.v) is tied to nptdms.common.ObjectPath by an "
      "exhaustive correspondence (all name pairs up to 3+3 / 4+4 over {quote, slash, space, letter}, all raw "
      "strings up to length 7 / 9 over {quote, slash, letter}) evaluated inside Coq, plus the direct round-trip and "
      "injectivity oracle on the implementation and an end-to-end writer/reader pass.",
      "Trusted: Coq kernel + vm_compute; the hand-written model mirrors _path_components/_components_to_path "
      "(look-ahead automaton instead of zip_longest pairs) and is validated by the exhaustive correspondence; "
      "Python str modelled as list of code points.",
      "Coq proof (induction on the name) + exhaustive model/implementation correspondence",
      "DESIGN.md section 7, C16")

_READER_NOTE = ("Trusted: Coq kernel + vm_compute; the hand-written byte-level reader model (Model/Tokens.v, SegState.v, "
                "Layout.v, Reader.v) mirrors reader.py / tdms_segment.py / base_segment.py / daqmx.py / tdms.py function by "
                "function and is tied to the implementation by evaluating it inside Coq on the very bytes the "
                "implementation reads (well-formed and malformed streams) on every run; the independent Python encoder and "
                "reference meaning (harness/tdmsgen.py); NumPy byte reinterpretation and UTF-8 decoding are observed as "
                "bytes, not modelled. ")

claim("C01",
      "Proof (partial) + correspondence: the refinement chain of `rd_all (ser f) = meaning f` is proved layer by layer "
      "(Props/C01.v: field codecs in both byte orders, value-byte canonicalisation involution, lexer inverts serialiser for "
      "metadata blocks, receivers concatenate in file order); the composed theorem is not finished and is labelled partial. "
      "The executable reader model is validated against TdmsFile.read on every run over random well-formed files (all 17 "
      "types x contiguous/interleaved x chunkings x byte orders x inheritance encodings) and over single-fault malformed "
      "files (accept/reject and content), and the implementation is compared with an independent reference meaning.",
      _READER_NOTE + "The end-to-end theorem is partial: see Props/C01.v header.",
      "Coq proof of the codec/lexer layers + in-Coq reader model vs implementation correspondence + independent-encoder oracle",
      "DESIGN.md section 7, C01")
claim("C02",
      "Proof (partial) + exhaustive correspondence: theorems about the mechanism model of read_segment_objects "
      "(Props/C02.v: index cache transparency; positional update equals update-by-path under the no-duplicate invariant; "
      "explicit re-encoding reproduces the object list). The implementation is checked on ALL encodings of 2 segments x 2 "
      "channels and (thorough) all 35 937 of 3 segments x 2 channels, plus sampled larger streams: each valid stream reads "
      "like its reference meaning, like its fully explicit re-encoding, and lazily like eagerly; forbidden encodings raise; "
      "the Coq reader model is evaluated on every stream.",
      _READER_NOTE + "Aliasing between segment objects is not expressible in the pure model; retroactive mutation is "
      "caught by the lazy/eager/explicit comparison on the implementation.",
      "Coq proof on the state-machine model + exhaustive small-bound enumeration against implementation and model",
      "DESIGN.md section 7, C02")
claim("C03",
      "Proof (partial) + differential run: model-level agreement of access paths is a corollary of the lazy-read theorems "
      "(Props/C04.v) and of the receiver concatenation lemma (Props/C03.v); every access path of the public API in every "
      "configuration {read, open} x {path, stream} x {memmap} x {raw_timestamps} is compared with the eager baseline on "
      "generated files (scaled, truncated, DAQmx), chunk offsets checked as running counts; the baseline is compared with "
      "the Coq reader model.",
      _READER_NOTE + "memmap_dir is a storage choice the value model cannot exhibit (differential run only).",
      "Coq corollaries of the lazy-read theorems + cross-path differential testing against the eager baseline and the model",
      "DESIGN.md section 7, C03")
claim("C06",
      "Proof (partial) + exhaustive cutting: lemmas for the prefix argument (reads ending before the cut are unchanged; "
      "final-chunk length arithmetic gives counts <= complete counts; Props/C06.v); every cut offset 4..len of every "
      "generated file is read eagerly and lazily and checked for prefix-ness, retention of earlier segments, len == values "
      "returned, lazy == eager and the incomplete flag; the Coq reader model (including file_status) is evaluated on the cuts.",
      _READER_NOTE + "The 'exactly when' clause for the incomplete flag is read for explicitly declared lengths.",
      "Coq lemmas on truncation arithmetic + every-cut-offset enumeration against oracle and model",
      "DESIGN.md section 7, C06")
claim("C09",
      "Proof (partial) + correspondence with files on disk: the index stream advances by lead-in + metadata length per "
      "segment (Props/C09.v) and, for serialised metadata, the tokens read from the index equal those read from the data "
      "file (lexer round trip); generated files are read with and without a matching index (encoder-made and writer-made, "
      "also with truncated data) through read/open/read_metadata and index-only; the Coq model reads the metadata from the "
      "index bytes and must agree.",
      _READER_NOTE + "Index-only opening with the length-unknown marker is outside the satisfiable domain.",
      "Coq lemmas on index positions + on-disk differential run + model reading metadata from the index bytes",
      "DESIGN.md section 7, C09")
claim("C11",
      "Proof (partial) + direct-addressing oracle: the row matrix of a DAQmx buffer is strided direct addressing "
      "(Props/C11.v); generated DAQmx layouts (1-3 buffers of differing widths/lengths, 1-4 channels, 1-3 scalers, digital "
      "lines, typed and raw channels, multi-segment, both byte orders, random bytes) are decoded by the implementation and "
      "compared with the bytes at chunk_base + buffer_base + i*width + offset; lazy windows/chunks equal eager slices; "
      "truncated final chunks give complete rows only; the Coq DAQmx decoder is evaluated on the same bytes.",
      _READER_NOTE,
      "Coq lemma (strided rows) + direct-addressing oracle + in-Coq DAQmx decoder correspondence",
      "DESIGN.md section 7, C11")
claim("C15",
      "Proof (partial) + correspondence: every field and value written in either byte order decodes to the same thing "
      "(Props/C15.v); each generated content is serialised under four byte-order assignments (generated, all LE, all BE, "
      "random per segment) and must read identically (eager, lazy, converted timestamps) and equal the reference meaning; "
      "the Coq reader model is evaluated on every variant.",
      _READER_NOTE,
      "Coq codec lemmas for both byte orders + per-segment byte-order transcoding differential run + model correspondence",
      "DESIGN.md section 7, C15")
claim("C17",
      "Theorems over the reals (Props/C17.v; only the standard Reals axioms): the transcribed formulas of RtdScaling, "
      "ThermistorScaling, StrainScaling, PolynomialScaling, TableScaling and _adjust_for_lead_resistance "
      "(Model/SensorsR.v) invert their laws. RTD, T >= 0: for R0 > 0, A > 0, B < 0, A + 2BT > 0, I <> 0 and every "
      "2/3/4-wire lead resistance, scale(V(Callendar-Van Dusen R(T))) = T. RTD, T < 0: the quartic branch is taken, T is "
      "a root of the quartic the code builds, the quartic is strictly increasing on (-inf, 0] with positive derivative "
      "(C < 0), so every negative real root equals T; with the polyroots oracle assumed to list the negative real roots "
      "once each, scale = T. Thermistor: scale(V(R(T))) = T - offset for current excitation and for the voltage divider, "
      "R(T) the closed-form Steinhart-Hart inverse (b, c, T > 0), also for any positive resistance obeying the law. "
      "Strain: for each of the seven bridge configurations, with Vo derived from the Wheatstone equation and the "
      "comment's resistor assignments, scale(init + Vo(e / gain)) = e under the stated non-zero denominators, including "
      "lead-wire desensitisation. Polynomial = sum c_i x^i; table = the unique clamped piecewise-linear interpolant "
      "through the (scaled, pre-scaled) points, reversed when decreasing, ValueError exactly on non-monotonic tables. "
      "Tie: per generated sample (all wirings, both excitations, seven bridges, with/without lead, gain, initial voltage, "
      "negative temperatures) a kernel-checked goal |model(params, v) - impl| <= 1e-9 relative (interval/lra on the exact "
      "float literals) and a goal that the Python forward law is the Coq law; direct oracle |impl - x| <= 1e-6 relative; "
      "one pass through TdmsWriter/TdmsFile with NI_Scale properties.",
      "Float rounding of the implementation is bounded per sample, not by a theorem. numpy polyroots is an oracle "
      "(section variable; assumption negative_roots_ok stated in the theorem, validated per sample by bracketing goals). "
      "Law conventions follow NI and are written in the model: no lead term for a 2-wire voltage-excited thermistor "
      "(the test-suite pins this), gain adjustment multiplies the strain reading, one lead in series with each active "
      "arm for half/quarter bridges. Trusted: Coq kernel, Reals axioms, the Interval tactic's reflection (checked at Qed).",
      "Coq Reals proofs (field/nra/IVT) + per-sample interval goals tying model and implementation",
      "DESIGN.md section 7, C17")
