# Table of claimed checks (exec'd by manifest_gen.py).
claim("C16",
      "Theorems (Props/C16.v, closed under the global context): for every alphabet with decidable equality and "
      "distinct quote/slash symbols, from_string(components_to_path(g, c)) = (g, c) for all strings g, c "
      "(also group-only and root), the scanner inverts the printer for any number of components, and the printer "
      "is injective on valid identities. The model (Model/Path.v) is tied to nptdms.common.ObjectPath by an "
      "exhaustive correspondence (all name pairs up to 3+3 / 4+4 over {quote, slash, space, letter}, all raw "
      "strings up to length 7 / 9 over {quote, slash, letter}) evaluated inside Coq, plus the direct round-trip and "
      "injectivity oracle on the implementation and an end-to-end writer/reader pass.",
      "Trusted: Coq kernel + vm_compute; the hand-written model mirrors _path_components/_components_to_path "
      "(look-ahead automaton instead of zip_longest pairs) and is validated by the exhaustive correspondence; "
      "Python str modelled as list of code points.",
      "Coq proof (induction on the name) + exhaustive model/implementation correspondence",
      "DESIGN.md section 7, C16")
