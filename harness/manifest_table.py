# Table of claimed checks (exec'd by manifest_gen.py).
claim("C16",
      "Theorems (Props/C16.v, closed under the global context): for every alphabet with decidable equality and "
      "distinct quote/slash symbols, from_string(components_to_path(g, c)) = (g, c) for all strings g, c "
      "(also group-only and root), the scanner inverts the printer for any number of components, and the printer "
      "is injective on valid identities. The model (Model/Path.v) is tied to nptdms.common.ObjectPath by an "
      "exhaustive correspondence (all name pairs up to 3+3 / 4+4 over {quote, slash, space, letter}, all raw "
      "strings up to length 7 / 9 over {quote, slash, letter}) evaluated inside Coq, plus the direct round-trip and "
      "injectivity oracle on the implementation and an end-to-end writer/reader pass.",
      "Trusted: Coq kernel + vm_compute; the hand-written model mirrors _path_components/_components_to_path "
      "(look-ahead automaton instead of zip_longest pairs) and is validated by the exhaustive correspondence; "
      "Python str modelled as list of code points.",
      "Coq proof (induction on the name) + exhaustive model/implementation correspondence",
      "DESIGN.md section 7, C16")

_READER_NOTE = ("Trusted: Coq kernel + vm_compute; the hand-written byte-level reader model (Model/Tokens.v, SegState.v, "
                "Layout.v, Reader.v) mirrors reader.py / tdms_segment.py / base_segment.py / daqmx.py / tdms.py function by "
                "function and is tied to the implementation by evaluating it inside Coq on the very bytes the "
                "implementation reads (well-formed and malformed streams) on every run; the independent Python encoder and "
                "reference meaning (harness/tdmsgen.py); NumPy byte reinterpretation and UTF-8 decoding are observed as "
                "bytes, not modelled. ")

claim("C01",
      "Proof + correspondence. REFINEMENT TO A SPEC (Props/C01_spec.v, closed): Model/Spec.v is a short textbook meaning "
      "of a file syntax (active object list updated by path, most recent index per path, chunks decoded by type; no "
      "mechanism of the implementation) and reader_refines_spec proves: wf_file segs -> spec_ok segs (three syntactic "
      "conditions: no path listed twice in a block, canonical paths, data only under channel paths) -> spec_meaning segs "
      "= SOk c -> rd_all (ser_file segs) = Ok (spec_tokens c, true), zero-length channels included; "
      "reader_rejects_forbidden: the three forbidden encodings give Err. The spec is itself exercised on every run "
      "against the Python reference rules on the generated syntax (spec tie). The reader's integer decision logic "
      "(_calculate_chunks, _compute_final_chunk_lengths, _get_chunk_size, _number_of_segment_values, lead-in arithmetic, "
      "DAQmx buffer dimensions, the type table) is TRANSLATED from the source on every run (Gen/PyFuncsReader.v, "
      "Gen/TypeTable.v) and proved equal to the hand model (Props/C01_gen.v), so the theorems speak about what the "
      "source says now. read_correct (Props/C01_read.v, closed under the global context): for every well-formed "
      "file syntax whose raw data blocks are the contiguous/interleaved encodings of given chunk values, the byte-level "
      "reader model applied to the serialised bytes returns exactly the expected observation: every object once, "
      "hierarchy in order of first appearance, each channel's values the file-order concatenation over every chunk of "
      "every segment, canonical bit-exact values with the encoded type, lengths equal to the number of values, last "
      "property values. Built from proved layers (Props/C01.v, C01_file.v): codecs in both byte orders, lexer inverts "
      "serialiser, rd_metadata on bytes = state machine on syntax, decoders invert encoders for all sized types / "
      "strings / contiguous chunks / interleaved rows. DAQmx segments: read_correct_daqmx (Props/C11_read.v); truncation: "
      "truncation_values_prefix (Props/C06_values.v). The model is validated against TdmsFile.read on every run over random well-formed files "
      "(all 17 types x layouts x chunkings x byte orders x inheritance encodings) and single-fault malformed files, and "
      "the implementation is compared with an independent reference meaning.",
      _READER_NOTE + "UTF-8 decoding and NumPy byte reinterpretation are observed, not modelled.",
      "Coq proof of refinement of the byte-level reader model to an abstract spec (and of the end-to-end reader theorem) "
      "+ source-to-Gallina translation of the integer logic with equivalence proofs + in-Coq model vs implementation "
      "correspondence + independent-encoder oracle",
      "DESIGN.md section 7 C01, 13.3")
claim("C02",
      "Proof + exhaustive correspondence. Theorems about the mechanism model of read_segment_objects (Props/C02.v, 31 "
      "statements, closed): the stale positional index map is harmless (mechanism = update-by-path under no-duplicate "
      "hypotheses shown necessary by counterexamples); inheritance_transparent: for every segment stream the metadata "
      "pass on the fully explicit re-encoding yields the same object lists, chunk counts, lengths, types and properties "
      "(also stated on the serialised BYTES of both files via rd_metadata_ser); the three forbidden encodings are "
      "rejected; index cache transparency. Composed with C01's read_correct (Props/C02_read.v, closed): "
      "inheritance_transparent_read - rd_all on the bytes of the abbreviated file and on the bytes of its fully explicit "
      "re-encoding return the SAME whole observation (objects, order, lengths, properties and every data value), under "
      "read_correct's hypotheses plus three stated side conditions (no path listed twice in a block; no data object "
      "that never received an index - shown necessary; the longer explicit form fits the lead-in fields); two different "
      "abbreviations of the same explicit form read alike. The implementation is checked on ALL "
      "encodings of 2 segments x 2 channels and (thorough) all 35 937 of 3 x 2, plus sampled larger streams: each valid "
      "stream reads like its reference meaning, like its explicit re-encoding, and lazily like eagerly; forbidden ones "
      "raise; the Coq reader model is evaluated on every stream.",
      _READER_NOTE + "Aliasing between segment objects is not expressible in the pure model; retroactive mutation is "
      "caught by the lazy/eager/explicit comparison on the implementation. The corner 'no data then matches previous' "
      "for a never-indexed object is excluded by a visible hypothesis (DESIGN.md 13.2).",
      "Coq proof on the state-machine model (multi-segment simulation) composed with the end-to-end reader theorem + "
      "exhaustive small-bound enumeration against implementation and model",
      "DESIGN.md section 7 C02, 13.3")
claim("C03",
      "Proof + differential run: lazy_is_window_of_eager (Props/C03_read.v, closed): on the serialised bytes of every file "
      "satisfying read_correct's hypotheses in which no segment's object list names a path twice (necessary: "
      "lazy_eq_eager_refuted, recorded as known finding dup-path-in-segment), every lazy window read (lz_read_bytes: "
      "metadata pass with segment indexes + chunk decoders + the line-by-line model of read_raw_data_for_channel) is the "
      "window of the EAGER data of read_correct; lazy_full_eq_eager, lazy_slice_correct (the translated _read_slice), "
      "lazy_index_correct, lazy_rejects_negative. Chunk streams: C05 generators_complete. memmap_dir, {path, stream} and "
      "raw_timestamps configurations are covered by the differential run only: every access path of the public API in every "
      "configuration {read, open} x {path, stream} x {memmap} x {raw_timestamps} is compared with the eager baseline on "
      "generated files (scaled, truncated, DAQmx), chunk offsets checked as running counts; the baseline is compared with "
      "the Coq reader model.",
      _READER_NOTE + "memmap_dir is a storage choice the value model cannot exhibit (differential run only).",
      "Coq proof that every lazy window on bytes is the window of the eager data + cross-path differential testing against the eager baseline and the model",
      "DESIGN.md section 7, C03")
claim("C06",
      "Proof + exhaustive cutting: truncation_values_prefix (Props/C06_values.v, closed): for every file satisfying "
      "read_correct's hypotheses and EVERY cut offset >= 4, rd_all on the cut bytes succeeds, every channel's values are "
      "a prefix of the complete file's and contain every value of the segments wholly before the cut, len(channel) = "
      "number of values, the hierarchy is that of the segments whose metadata lies before the cut, and the incomplete "
      "flag is set exactly when the cut lies inside a segment's raw data; layers: cut_calculate_chunks_ok, "
      "cut_segment_decodes (contiguous incl. strings, interleaved), cut_metadata_succeeds; truncation arithmetic also "
      "proved on the TRANSLATED functions (Props/C06_gen.v); Props/C06.v: cut_file_segments. Lazy = eager on the cut "
      "file and the length-unknown marker are checked on the implementation: every cut offset 4..len of every "
      "generated file is read eagerly and lazily and checked for prefix-ness, retention of earlier segments, len == values "
      "returned, lazy == eager and the incomplete flag; the Coq reader model (including file_status) is evaluated on the cuts.",
      _READER_NOTE + "The 'exactly when' clause for the incomplete flag is read for explicitly declared lengths.",
      "Coq proof of the value-prefix theorem for every cut offset on the byte-level reader model + every-cut-offset enumeration against oracle and model",
      "DESIGN.md section 7, C06")
claim("C09",
      "Proof (partial) + correspondence with files on disk: the index stream advances by lead-in + metadata length per "
      "segment (Props/C09.v) and, for serialised metadata, the tokens read from the index equal those read from the data "
      "file (lexer round trip); generated files are read with and without a matching index (encoder-made and writer-made, "
      "also with truncated data) through read/open/read_metadata and index-only; the Coq model reads the metadata from the "
      "index bytes and must agree.",
      _READER_NOTE + "Index-only opening with the length-unknown marker is outside the satisfiable domain.",
      "Coq lemmas on index positions + on-disk differential run + model reading metadata from the index bytes",
      "DESIGN.md section 7, C09")
claim("C11",
      "Proof + direct-addressing oracle: read_correct_daqmx (Props/C11_read.v, closed): for a serialised file whose "
      "segments are ordinary encoded segments or consistent DAQmx segments of whole chunks, rd_all returns, per scaler id "
      "of every DAQmx channel, the file-order concatenation of the values DIRECTLY ADDRESSED in the raw bytes "
      "(direct_chunks: chunk base + buffer base + i*width + offset, declared type, segment byte order; digital lines: the "
      "addressed bit), with buffer dimensions COMPUTED (buffer_dims_consistent: = largest number_values per buffer x "
      "declared width; mismatching widths raise) rather than assumed; DAQmx arithmetic also on the translated functions "
      "(Props/C11_gen.v); Props/C11.v: strided rows, truncated buffers give complete rows. Lazy windows of DAQmx channels "
      "and truncated DAQmx files are checked on the implementation: generated DAQmx layouts (1-3 buffers of differing widths/lengths, 1-4 channels, 1-3 scalers, digital "
      "lines, typed and raw channels, multi-segment, both byte orders, random bytes) are decoded by the implementation and "
      "compared with the bytes at chunk_base + buffer_base + i*width + offset; lazy windows/chunks equal eager slices; "
      "truncated final chunks give complete rows only; the Coq DAQmx decoder is evaluated on the same bytes.",
      _READER_NOTE,
      "Coq proof of the whole-file DAQmx read theorem against a decoder-independent direct-addressing meaning + direct-addressing oracle + in-Coq DAQmx decoder correspondence",
      "DESIGN.md section 7, C11")
claim("C15",
      "Proof + correspondence: every field and value written in either byte order decodes to the same thing "
      "(Props/C15.v); endian_transparent (Props/C15_read.v, closed): for every file satisfying read_correct's hypotheses "
      "and EVERY assignment of byte orders to its segments (any mixture), the re-encoded file (ToC bit flipped, raw data "
      "re-encoded from the chunk values, metadata serialised in the new order) reads - rd_all on bytes - to the identical "
      "observation; the same for every lazy window and fetch plan (endian_transparent_lazy). Outside the theorem as in "
      "C01: DAQmx scalers (decoder level, C11), truncated segments. Each generated content is serialised under four byte-order assignments (generated, all LE, all BE, "
      "random per segment) and must read identically (eager, lazy, converted timestamps) and equal the reference meaning; "
      "the Coq reader model is evaluated on every variant.",
      _READER_NOTE,
      "Coq proof of whole-file byte-order transparency on the byte-level reader model (eager and lazy) + codec lemmas + per-segment byte-order transcoding differential run + model correspondence",
      "DESIGN.md section 7, C15")
claim("C17",
      "Theorems over the reals (Props/C17.v; only the standard Reals axioms): the transcribed formulas of RtdScaling, "
      "ThermistorScaling, StrainScaling, PolynomialScaling, TableScaling and _adjust_for_lead_resistance "
      "(Model/SensorsR.v) invert their laws. RTD, T >= 0: for R0 > 0, A > 0, B < 0, A + 2BT > 0, I <> 0 and every "
      "2/3/4-wire lead resistance, scale(V(Callendar-Van Dusen R(T))) = T. RTD, T < 0: the quartic branch is taken, T is "
      "a root of the quartic the code builds, the quartic is strictly increasing on (-inf, 0] with positive derivative "
      "(C < 0), so every negative real root equals T; with the polyroots oracle assumed to list the negative real roots "
      "once each, scale = T. Thermistor: scale(V(R(T))) = T - offset for current excitation and for the voltage divider, "
      "R(T) the closed-form Steinhart-Hart inverse (b, c, T > 0), also for any positive resistance obeying the law. "
      "Strain: for each of the seven bridge configurations, with Vo derived from the Wheatstone equation and the "
      "comment's resistor assignments, scale(init + Vo(e / gain)) = e under the stated non-zero denominators, including "
      "lead-wire desensitisation. Polynomial = sum c_i x^i; table = the unique clamped piecewise-linear interpolant "
      "through the (scaled, pre-scaled) points, reversed when decreasing, ValueError exactly on non-monotonic tables. "
      "Tie: per generated sample (all wirings, both excitations, seven bridges, with/without lead, gain, initial voltage, "
      "negative temperatures) a kernel-checked goal |model(params, v) - impl| <= 1e-9 relative (interval/lra on the exact "
      "float literals) and a goal that the Python forward law is the Coq law; direct oracle |impl - x| <= 1e-6 relative; "
      "one pass through TdmsWriter/TdmsFile with NI_Scale properties.",
      "Float rounding of the implementation is bounded per sample, not by a theorem. numpy polyroots is an oracle "
      "(section variable; assumption negative_roots_ok stated in the theorem, validated per sample by bracketing goals). "
      "Law conventions follow NI and are written in the model: no lead term for a 2-wire voltage-excited thermistor "
      "(the test-suite pins this), gain adjustment multiplies the strain reading, one lead in series with each active "
      "arm for half/quarter bridges. Trusted: Coq kernel, Reals axioms, the Interval tactic's reflection (checked at Qed).",
      "Coq Reals proofs (field/nra/IVT) + per-sample interval goals tying model and implementation",
      "DESIGN.md section 7, C17")
claim("C12",
      "Theorems (Props/C12.v) about the integer model of the timestamp code with repair D5 applied (Model/Timestamp.v; "
      "closed under the global context): ts_roundtrip - for every microsecond count v in int64 relative to the TDMS epoch, "
      "decoding the (seconds, fractions) produced by the encoder returns v and the fields fit the 'q'/'Q' formats; "
      "ts_roundtrip_datetime64 - the same through the 16 bytes written, on the scalar and on the array read path, with "
      "the one intermediate NumPy forms inside int64; raw_bytes_roundtrip(_rev) and raw_array_roundtrip - fields -> 16 "
      "bytes -> fields and bytes -> fields -> bytes are identities in both byte orders (LE: fractions u64, seconds i64; "
      "BE: seconds, fractions); conv_within_unit - for s/ms/us/ns, exact - 1 < conv <= exact + m*2^12/2^64 (stated in "
      "integers; truncation after adding 2^-52 s, so strictly within one unit); conv_monotone in the lexicographic order "
      "of (seconds, fractions); scalar_eq_array - the Python-int path and the uint64 hi/lo-split array path (every "
      "wrap-around written as mod 2^64) agree for all fractions; dec_tolerates_truncation - a stored fraction up to 2^12 "
      "units below the exact value still reads as intended (files written by truncating float encoders). "
      "roundtrip_refuted / frac_roundtrip_refuted: the bit-exact PrimFloat model of the UNCHANGED code loses "
      "2020-01-01T00:00:16.000001 (defect D5). time_track over the reals: length n, i-th point offset + i*increment, "
      "spacing, n = 0 and n = 1, absolute form = start + trunc(relative*unit) within one unit (standard Reals axioms). "
      "Tie: every input also goes through the model inside Coq and must give the implementation's integers exactly - "
      "10^5 stratified (quick) / all 10^6 (thorough) microsecond values x seconds incl. pre-1904, +-2^31, +-2^33, "
      "year 9999, > 2^59 us and both ends of the datetime64[us] range, on TimeStamp.read and from_bytes; (s, f) pairs "
      "with f within 2 of every k*2^64/10^r boundary and of the tolerance-shifted boundary, 0, 2^64-1; raw 16-byte "
      "records in both byte orders. Direct oracles on the implementation: identity round trip, |conv - exact| < 1 with "
      "exact Python integers, monotone, scalar == array == big-endian array, dtype, byte layouts, TdmsWriter -> TdmsFile "
      "(eager, lazy, raw_timestamps) -> defragment for properties and channel data, time_track on lengths 0, 1, 2, n.",
      "Requires dev/patches/D5.patch: on the unchanged tree the check reports VIOLATION key us-roundtrip with the datetime "
      "as replay and states that Model.Timestamp.AsIs predicts it. The repaired decoder truncates after adding 2^-52 s "
      "because the unedited test-suite (and every file written so far) stores floor-encoded fractions that an exact "
      "floor would read one microsecond early. NumPy datetime64/timedelta64 and uint64 arithmetic are modelled (Z, "
      "mod 2^64), struct by Base/Bytes.v. time_track: the float linspace is not bounded by theorem; it is compared with "
      "offset + i*increment within 8 ulp of the largest magnitude and the absolute form exactly. 'ps' resolution keeps "
      "the float path and is not claimed. Case files carry integers as primitive-int literals (Model.Timestamp.zi).",
      "Coq proof (lia with euclidean division; hi/lo split identity) + exhaustive/stratified model-implementation "
      "correspondence evaluated in Coq + direct oracles; PrimFloat refutation of the unchanged code",
      "DESIGN.md section 7, C12; section 9 D5")
claim("C05",
      "Theorems (Props/C05.v, closed under the global context) about an executable state machine of ONE open file "
      "(Model/IoPlan.v: OS file position, per-channel one-chunk cache with bounds, lazily built offset index, "
      "suspended frames of channel.data_chunks()/TdmsFile.data_chunks() generators; every read happens at the "
      "current position): for every well-formed file and EVERY finite single-threaded history of channel[i], "
      "read_data(o,l), slices, generator creation and next() on any number of live generators, the reader with "
      "the re-seek of dev/patches/D4.patch keeps the invariant (cached chunk = file's chunk at its bounds, index "
      "entries = fresh ones, every live frame = the frame of a fresh generator after as many next() calls and "
      "position independent) and each output equals the output on a freshly opened file (history_independent); "
      "a fresh generator yields exactly the file's chunk list with running offsets (fresh_generator_chunks), so a "
      "generator driven to exhaustion in any history delivers its full chunk list (generators_complete). The code "
      "as it is in /repo today is refuted with the D4 witness (history_refuted, by vm_compute). Tie: random "
      "files x random histories (quick 1000, thorough 20000) run on one TdmsFile.open; every output compared "
      "with a freshly opened file (direct oracle, failing histories shrunk) and with the model's run evaluated "
      "inside Coq, together with the position of the harness-supplied stream after every operation (wherever "
      "the model's position lies in raw data).",
      "Partial/trusted: single-threaded only; the OS file position is one integer and a read returns the block "
      "laid out at that position; values are labels (decoding is C01's subject); the result of a window read is "
      "its specification (chunk arithmetic of windows is C04's), only its effect on the shared state is modelled; "
      "while defect D3 is unfixed, window outputs spanning a segment without the channel are compared with the "
      "fresh file only (counted in the evidence). The check reports a VIOLATION (key d4-file-chunks-position) on "
      "a tree without D4.patch.",
      "Coq proof (invariant + simulation against the chunk-list specification) + differential histories vs fresh "
      "file and vs the model inside Coq",
      "DESIGN.md section 7, C05; section 9, D4")
claim("C13",
      "Theorems (Props/C13.v; only PrimFloat/Uint63 primitives in Print Assumptions) about executable models of "
      "nptdms/scaling.py (Model/ScaleGraph.v: property lookup get_scaling/_get_channel_scaling/"
      "_get_number_of_scalings with the PREFIX regex, and the evaluator mirroring _compute_scaled_data over typed "
      "arrays - bool, the 8 integer types with explicit wrap-around, float32 via round-to-binary32, float64 in "
      "PrimFloat; Linear as two rounded operations, Horner exactly as numpy polyval, np.interp's C formula, Add, "
      "Subtract = right - left): eval_is_dataflow (for every well-formed graph the evaluator returns v iff the "
      "inductive dataflow relation `flows` derives v on the last scale; the relation is functional), elementwise / "
      "channel_elementwise (for EVERY graph, scaling a window of the channel = window of the scaled channel, values "
      "and errors alike), lookup_order (channel, else group, else file, later levels not even evaluated), "
      "scaled_status_unscaled + no_scaling_in_scope_is_raw, and scale_pure over a heap model with array identity "
      "(Model/ArrayHeap.v: astype with copy flag, copy(), op=, out=; every scale method incl. Strain/Thermistor/RTD/"
      "Thermocouple transcribed statement by statement): for every dtype of the input - float64 included - and "
      "arbitrary semantics of the NumPy operations, no buffer that existed before the call changes; the in-place "
      "variant is rejected and shown to overwrite a float64 input. Tie: generated channels (quick 420, thorough "
      "20000: depth 1-5, arbitrary wiring, every numeric raw type + DAQmx scalers, definitions on channel/group/root "
      "with decoys, with/without NI_Number_Of_Scales, prefix-only keys, out-of-range sources, non-monotonic tables) "
      "read eagerly and lazily: independent pure-Python dataflow oracle bit-exact, lazy == eager, three kinds of "
      "windows == window of the full read, raw_data bytes unchanged and not aliased; the same property "
      "dictionaries and raw values evaluated by the model inside Coq and compared bit-exactly (float.hex), and the "
      "aliasing of every scale() call on every dtype compared with the heap model.",
      "Partial/trusted: the model mirrors the code AFTER fix D8 (Linear casts to double first); on a tree without "
      "dev/patches/D8.patch float32/complex64 channels with a Linear scale are reported (keys value-float32-linear "
      "...). Complex arrays have no numeric Coq model (Python oracle with NumPy's complex arithmetic only); sensor "
      "scales are in the graph but evaluate to an error here (numerics: C17/C18). np.interp/polyval are modelled, "
      "not verified - bit-exact on this NumPy build (a <= 2 ulp fallback for Table is counted in the evidence, 0 "
      "used). Scale parameters are double properties, sources/counts integer properties, names ASCII. NaN payloads "
      "not compared. Cyclic definitions are outside wf_graph (RecursionError in the code). 'lazy == eager' is "
      "checked on the implementation only (no reader model here). uniform-length hypothesis of elementwise: all "
      "arrays of one channel have the channel's length.",
      "Coq proof (fuel induction vs inductive relation; map/zip commutation with windows; static alias analysis "
      "proved sound over a heap) + bit-exact model/implementation correspondence evaluated in Coq + direct oracles",
      "DESIGN.md section 7, C13; section 9, D8")
claim("C14",
      "Theorems (Props/C14.v) over NumPy promotion tables reflected from the installed NumPy on every run "
      "(harness/gen/gen_promote.py -> Gen/NumpyPromote.v: np.result_type on all pairs of the 13 numeric dtypes, and "
      "the result dtype of every primitive the scalings use, fail-closed): dtype_agrees - for every TDMS raw type "
      "(13 numeric dtypes, string, timestamp with and without raw_timestamps, DAQmx with any scaler types) and EVERY "
      "scale graph over every scale type, whenever the scalings return an array its dtype is what TdmsChannel.dtype "
      "computes (Model/ScaleDtype.v mirrors dtype/_raw_data_dtype/get_dtype/_compute_scale_dtype and, separately, "
      "the dtype the arithmetic yields); dtype_agrees_numeric / _daqmx without any exclusion; eval_has_actual_dtype "
      "(the C13 evaluator's result has exactly that dtype); reads_have_channel_dtype and empty_results_same_dtype "
      "(every branch of data/read_data/_read_slice/ChannelDataChunk._data); timestamp_dtype, string_dtype. The "
      "unchanged code is refuted by vm_compute with the witnesses of D8, D9 and of two further defects found by "
      "this check (raw_timestamps dtype; None dtype for pass-through scales on strings/timestamps); a third one "
      "(lazily streamed string chunks are Python lists) is found by the harness only. Tie: exhaustive "
      "files - every raw type x {no scaling, each scale type, all depth-2 structural graphs with all wirings, sensor "
      "scales around Linear/AdvancedAPI, zero-length/one-value/untyped channels}, every DAQmx scaler type and every "
      "ordered pair under Add/Subtract (quick 2625 files; thorough adds all depth-3 graphs) - each read eagerly and "
      "lazily with ~40 read operations (slices incl. empty, windows, data, iteration, data_chunks, "
      "file.data_chunks): every returned array has channel.dtype modulo byte order, empty == non-empty dtype, full "
      "reads have len(channel) values; observed channel.dtype and read dtype compared with the model inside Coq.",
      "Partial/trusted: the theorems are about the code AFTER dev/patches D8, D9, C14_raw_timestamps_dtype, "
      "C14_nonnumeric_passthrough_dtype, C14_string_chunks_object_array (without them the check reports "
      "dtype-float32-linear, dtype-int32-linear+advancedapi[0], dtype-timestamp-raw-unscaled, "
      "dtype-string-advancedapi, dtype-string-unscaled ...). dtype_agrees excludes timedelta64 results: "
      "datetime64 - datetime64 under a Subtract scale is the recorded finding dtype-nonnumeric-arith-scale; other "
      "arithmetic on non-numeric data is outside the model (counted: 83 files). Equality is modulo byte order "
      "(and field order of the timestamp struct). 'len(full read) == len(channel)': full_read_length "
      "(Props/C14_read.v, closed) proves it on the byte-level reader models - the eager data and the lazy full read of "
      "every channel of a serialised file under read_correct's hypotheses have exactly ch_len values - and the check "
      "tests it on the implementation for every read. The tables are those of this NumPy (2.x, NEP 50).",
      "Coq proof (finite case analysis on reflected tables x induction on the graph) + exhaustive "
      "model/implementation correspondence + direct oracle on every read operation",
      "DESIGN.md section 7, C14; section 9, D8, D9")
claim("C18",
      "Theorems (Props/C18.v) about Gen/ThermoTables.v, regenerated from nptdms/thermocouples.py by a fail-closed "
      "ast translator on every run (tables of the eight types, the comparisons of Range.within_range and the "
      "condition of the type-K exponential term; every number emitted twice from one float.hex() text, as PrimFloat "
      "literal and as hex real literal): (a) tables_are_nist - every forward coefficient, interior boundary and "
      "exponential constant is bit-identical to the vendored NIST ITS-90 table (data/nist_its90.json), by "
      "computation; (b) coverage / conversions_never_default - the eight objects construct, and for EVERY binary64 "
      "x that is not NaN (infinities included) exactly one forward and one inverse piece select x, so np.piecewise "
      "never takes its NaN default (generic lemma on complete contiguous tables from FloatAxioms ltb/leb/eqb specs); "
      "(c) over R, as 351 lemma instances generated from the tables, 168 of them closed by `interval` (bisection + "
      "Taylor models): forward_closed_forms, forward_boundary_gaps (adjacent pieces differ <= 1e-6 mV at every boundary, "
      "type K with its exponential), forward_increasing (d/dt > 0, hence strictly increasing by the mean value "
      "theorem, on every piece within the NIST range; type B from 22 degC), inverse_accuracy (for every NIST "
      "validity range, every true temperature t and whichever pieces the code's comparisons select: "
      "lo <= inverse(forward(t)) - t <= hi, bounds = NIST-stated error widened by one unit of its last digit), "
      "scaling_roundtrip (the same through ThermocoupleScaling in microvolts). Tie: Model/ThermoF.v (PrimFloat "
      "Horner as numpy polyval, np.piecewise selection) compared BIT-EXACTLY inside Coq with "
      "Thermocouple.celsius_to_mv / mv_to_celsius and ThermocoupleScaling.scale on grid points plus every piece "
      "boundary with its np.nextafter neighbours, +-0, denormals, infinities, all types, both directions; the type-K "
      "exponential and microvolt forward path by per-sample interval-checked goals |R model - implementation| <= "
      "1e-9 mV; constructors and piecewise order on small random tables. Direct oracle on the implementation: no "
      "NaN in/around the range, forward = vendored NIST function within 1e-9 mV (quick 2000 / thorough 10^5 grid "
      "points per type and direction), inverse within the NIST bounds of the true temperature, continuity, "
      "monotone per piece, scaling direction/units also through a TDMS file.",
      "Partial/trusted: the real-number theorems are about the exact real function of the code's binary64 "
      "coefficients; rounding of polyval/exp is not bounded by a theorem (measured deviation from the NIST "
      "evaluation: 0). Global strict monotonicity across boundaries is false of the standard's own coefficients "
      "(B 630.615, R 1664.5, S 1064.18/1664.5 degC step down by 1e-11..2e-9 mV), so it is stated per piece plus the "
      "gap bound. The inverse bounds are NIST's stated error ranges widened by one unit of the last digit (the "
      "published figures are rounded; B, J, K, N, R exceed them slightly); data/nist_inverse_spec.json is a "
      "transcription cross-checked by dense sweep (no second source: thermocouples_reference has no inverse "
      "tables). That the PrimFloat and the real literal of a number denote the same value rests on the translator. "
      "Print Assumptions: float/int63 primitives and FloatAxioms specs (coverage; Interval computes with primitive "
      "floats), Reals axioms, Classical_Prop.classic, functional_extensionality_dep (Coquelicot/Interval). "
      "Infinite or astronomically large inputs evaluate to NaN/inf through x*0 and overflow: outside 'in range'.",
      "Coq proof (interval arithmetic with Taylor models on generated instances, float-comparison lemmas, "
      "computation) + translator on every run + bit-exact and interval-checked correspondence + dense oracle",
      "DESIGN.md section 7, C18; sections 3a, 4, 8")
claim("C20",
      "Proof (partial) + measured agreement: theorems about the executable ownership model Model/Resource.v, which "
      "mirrors TdmsReader.__init__/close/read_metadata(finally)/_ensure_open, TdmsFile.__init__(finally)/close/"
      "__exit__ and the channel read paths, TdmsWriter.open/close/write_segment/__enter__/__exit__ and defragment "
      "statement by statement (Props/C20.v, all closed under the global context): for every kind of source (path, "
      "stream, index path, index stream, stream without tag) x index file beside or not x parse outcome at every stage "
      "x failing open(), after TdmsFile.read / read_metadata returns or raises no handle opened by the library is "
      "open; after close() / __exit__ at any point of any operation history nothing owned is open, close does not "
      "raise, and it stays so (induction over the operation list); a caller-supplied stream is never closed by any "
      "history, returning or raising (close is modelled generically - the theorem, not the type, protects the "
      "caller's stream); once closed every read that is not answered from memory (eager arrays, the cached chunk, an "
      "in-flight generator over the caller's own open stream) ends in an error, never in data; close is idempotent; "
      "the writer's with-block (after any earlier history; left normally, by an exception in the block, or with "
      "__enter__ raising) leaves nothing open, nothing to the finaliser, no caller stream closed, and does not swallow "
      "the exception; defragment likewise for source and destination. The model has a switch for defect D19: for the "
      "code as it is the statements carry the side condition 'no open() fails after another succeeded / TdmsFile.open "
      "does not raise' and the unconditioned statements are refuted by witnesses (*_refuted); for the patched code "
      "(dev/patches/D19_C20_unclosed_on_failure.patch) they hold unconditionally. Tie: fault sequences (21 kinds of "
      "malformed file incl. bad tag, truncated lead-in/metadata, unknown type, dimension != 1, matches-previous for an "
      "unseen object, first segment without metadata, type change, mismatching index, index with bad tag / truncated, "
      "data-stage failures) x 7 kinds of source x index beside x {read, open, read_metadata} x follow-up histories "
      "(with-block, close, double close, every read API after close, generators started before close), constructor "
      "failure points (missing file, EMFILE on the second open), writer with-blocks / close / write histories with "
      "open faults, defragment; each run under /proc/self/fd accounting (sampled after every call, for raising calls "
      "inside the except block while the exception is alive), .closed of caller streams (BytesIO and real files), "
      "ResourceWarning accounting and a final drop-everything sample; the direct oracle is evaluated on the "
      "observations and the model's trace (outcome class + handle snapshot per call + finaliser work) computed "
      "inside Coq must equal the observed one on every case (quick 1 402, thorough 26 002 scenarios).",
      "Partial by construction: descriptor lifetime is runtime behaviour (CPython reference counting, the OS); the "
      "proof is about the ownership model and the tie is measured agreement, not a theorem about the code. Parse "
      "outcomes are inputs of the model (harness fault table, itself validated by the agreement). The tree must "
      "agree with one variant of the D19 switch (unpatched / patched) on all cases of a run. Trusted: Coq kernel + "
      "vm_compute, /proc/self/fd, the warnings machinery, RLIMIT_NOFILE fault injection. Observation outside the "
      "property text: TdmsWriter.close() called twice on a path target raises AttributeError (modelled, theorem "
      "writer_second_close_raises_on_path). Finding D19 on the unchanged tree: TdmsFile.open(path) that raises, "
      "TdmsReader.__init__ and TdmsWriter.open whose second open() fails leave the data file's descriptor to the "
      "garbage collector (violation keys unclosed-on-failure:*).",
      "Coq proof on a finite ownership model (computation per operation, induction over histories) + fd-accounting "
      "oracle + in-Coq trace correspondence",
      "DESIGN.md section 7, C20; sections 4, 8")
claim("C04",
      "Theorems (Props/C04.v, closed under the global context, nothing partial) on the abstract per-channel model of "
      "the lazy read (Model/LazyRead.v: per segment chunk size, number of chunks, final-chunk override, layout kind, "
      "chunk values; _build_index, the two searchsorted calls as counting functions, the loop of "
      "read_raw_data_for_channel line by line with chunk skipping/dropping, values_read/trim, Python's negative-stop "
      "slice in _trim_channel_chunk, interleaved segments yielding one chunk object, the preallocated NumPy receiver "
      "and the list receiver, TdmsChannel._read_channel_data's clamping and ValueErrors, "
      "read_channel_chunk_for_index and the one-chunk cache of _read_at_index, slice_raw_data): window_correct -- for "
      "every well-formed segment list, every offset >= 0 and length >= 0 or None, lz_read = full[offset:offset+length] "
      "wherever the window falls relative to segment/chunk boundaries, with truncated final chunks (final length 0..chunk), "
      "zero-length segments and segments without the channel; window_rejects_negative; slice_plan_correct -- the plan "
      "computed by the TRANSLATED TdmsChannel._read_slice (Gen/PySlice_gen.v, regenerated from nptdms/tdms.py each run, "
      "fail-closed, self-tested on 4 800 boundary cases), executed by the lazy reader, equals Python's "
      "full[start:stop:step] as defined after CPython's PySlice_AdjustIndices (Base/PySlice.v, tied to the element loop "
      "by py_slice3_nth_pos/neg) for all None/negative/out-of-range bounds, both step signs, zero-length channels, "
      "step 0 = ValueError; index_correct -- channel[i] returns what indexing the full array returns or IndexError, "
      "for any cache state; eager_window_correct. window_refuted / window_refuted_d13: the loop as it was in the "
      "snapshot (lz_read_asis) is refuted by the D3 and D13 witnesses. Tie: all lazy and eager windows, index sequences "
      "and slice grids of every generated file are evaluated inside Coq on the generator's abstract description and "
      "compared with nptdms (quick 103 files / 58 000 Coq cases, thorough 1 500 files); direct oracle: NumPy indexing on the "
      "eagerly read array for lazy and eager files, read_data(scaled=False), ValueError/IndexError agreement "
      "(quick 437 000 calls; exhaustive per file for channels of <= 12 values).",
      "Trusted: Coq kernel + vm_compute; the translator gen_pyfuncs_slice.py (ast, 420 lines with its self-test); the "
      "hand-written model, validated by the correspondence; the generator's abstract description of each file "
      "(checked against the eager read of every file); values are integer codes (byte decoding is C01's subject); "
      "NumPy receivers / searchsorted / cumsum / list slicing are modelled. lz_read models the REPAIRED loop: defects "
      "found on the snapshot and fixed in /repo -- D3 (dev/patches/D3.patch: `continue` skipped segment_index += 1), "
      "D13 (D13.patch: final_chunk_size by modulo is wrong when the channel has 0 values in the truncated final "
      "chunk; read_data(0,2) raised ValueError / strings got extra values), D14 (D14.patch: channel[-2:] on a "
      "zero-length lazily opened channel raised ValueError); violation keys d3-segment-index, d13-final-chunk-zero, "
      "d14-empty-channel-slice reappear with a replay (file hex + request) if a fix is reverted. Not modelled: the "
      "empty chunk object yielded for a segment without kTocRawData; DAQmx receivers.",
      "Coq proof (induction over the visited segments with the invariant 'values emitted so far = window meet earlier "
      "segments', lia/nia with euclidean division; case analysis + lia on the translated slice function) + "
      "translator + in-Coq correspondence + NumPy oracle",
      "DESIGN.md section 7, C04; sections 3a, 4, 8, 9 (D3)")
claim("C19",
      "Theorems (Props/C19.v, closed under the global context) on the I/O plan, which is the log of (segment, chunk) "
      "pairs produced by the same loop function the C04 theorems are about (Model/LazyRead.v lz_loop): "
      "plan_exact_chunks -- for every well-formed file description, offset >= 0 and length, the chunks fetched are "
      "EXACTLY the chunks of segments holding the channel whose value range meets the window (chunk_start < end and "
      "offset < chunk_end), so what is read is bounded by the request and 'read the whole segment, trim afterwards' "
      "breaks the theorem; index_fetches_one_chunk -- a cache miss fetches exactly the chunk that holds the index; "
      "cache_hit_reads_nothing -- an index inside the cached chunk's bounds issues no read and keeps the cache; "
      "plan_refuted -- the snapshot's loop over-reads on the D3 witness. Tie / search: every generated file (half of "
      "them carrying a large unrelated channel and segments) is opened through a recording stream; after open() the "
      "log is reset and for every read_data window, slice and integer index each read()/readinto() (position, size) "
      "must lie in the raw data of a chunk overlapping the request -- for contiguous layout inside the requested "
      "channel's bytes of that chunk -- or be a 4-byte tag check of a segment between the first and last overlapping "
      "segment (once each); total bytes <= the bound computed from the request alone; after channel[i], indexing "
      "again at the bounds of and inside the chunk just read (positive and negative form) must issue no read; the set "
      "of chunks touched is compared inside Coq with lz_plan / read_at_index (quick 122 files, 110 000 requests, "
      "85 000 Coq cases; thorough 1 200 files).",
      "Partial by nature: bytes per fetched chunk and the tag check are measured, not proved (the model counts chunks, "
      "the byte layout is the harness's); prefetching below the stream interface is invisible; metadata reading at "
      "open time is outside the claim; zero-length reads are ignored; for an empty window the chunk strictly "
      "containing the offset may be fetched (stated in the theorem). Trusted: Coq kernel + vm_compute, the recording "
      "BytesIO subclass, the generator's byte layout. Same repaired loop as C04 (D3, D13: both also over-read; keys "
      "d3-segment-index, d13-final-chunk-zero).",
      "Coq proof (shared with C04: the plan is the skeleton of lz_read) + recording-stream oracle + in-Coq plan "
      "correspondence",
      "DESIGN.md section 7, C19; sections 4, 8")
claim("C07",
      "Theorems (Props/C07.v, closed under the global context). On the TRANSLATED integer functions of nptdms/writer.py "
      "(Gen/PyFuncsWriter.v, regenerated from the source on every run by an ast translator, fail-closed, self-tested "
      "against the Python functions on a boundary grid inside the build): int_prop_type_fits -- for every "
      "-2^63 <= v < 2^64 to_int_property_value returns v with Int32 iff -2^31 <= v < 2^31, else Int64 iff v < 2^63, "
      "else Uint64, and v is in the range of that type; int_prop_roundtrip -- the property bytes decode back to v; "
      "int_prop_out_of_range_rejected; infer_dtype_fits -- whenever NumPy accepts a list of Python ints at the dtype "
      "the _infer_dtype chain picks from (max, min), every element is written as bytes of that dtype that decode back "
      "to the element; infer_dtype_accepts -- NumPy accepts exactly the lists avoiding the chain's holes (a maximum "
      "needing the unsigned type of a width with a negative minimum fitting the signed one; any negative minimum at "
      "64 bits), elsewhere the writer does not accept the call. On Model/Writer.v (write_segment: automatic root / "
      "sorted group insertion, stable sort by _path_ordering_key, duplicate-path ValueError; TdmsSegment metadata, raw "
      "data index, lead-in, data; append sessions): write_read_partial -- for every well-formed file (any number of "
      "sessions and calls) the written bytes strict-parse (Model/StrictParse.v) to exactly the segment syntax the "
      "calls describe; written_objects -- per call that syntax is the objects passed in plus the inserted root / "
      "groups, root first, then groups, then channels in call order, each with its path, properties (name, TDMS "
      "type, value bytes), data type and values. Tie: byte-exact correspondence of the model with nptdms.TdmsWriter "
      "(data and index bytes; refused calls must be refused by the model) and the direct oracle -- TdmsFile.read of "
      "the written bytes returns per channel the concatenation of what was written (dtype, bit-identical values), per "
      "object the last value of every property with its TDMS type (seen by an independent parser of the bytes), "
      "names and order preserved (quick 400 call sequences, thorough 12 000). COMPOSED (Props/C07_read.v, closed): "
      "write_read -- wf_file sessions -> sizes_below_marker -> dtypes_consistent -> wr_file sessions = Ok (data, index) "
      "-> rd_all data = Ok (content_tokens_of_calls sessions, true), with content_tokens_of_calls computed from the call "
      "list ALONE (first-appearance order, last property value wins, values concatenated over all calls of all "
      "sessions, first non-Void type); dtypes_consistent is NECESSARY (write_read_needs_one_dtype; recorded as known "
      "finding channel-dtype-change: the writer accepts a channel changing type, the reader then refuses the file).",
      "NumPy's array -> bytes and the TimeStamp second-fraction arithmetic are supplied to "
      "the model by the harness (fractions are only checked to be within one microsecond; datetimes generated are "
      "whole milliseconds; every microsecond is C12's). Strings in Python lists must not end in NUL (NumPy drops "
      "trailing NULs before the writer sees them). Trusted: Coq kernel + vm_compute, the translator "
      "gen_pyfuncs_writer.py, the hand-written model validated by the correspondence, the harness's expected-value "
      "computation. Model = code with fixes D6, D7 (and D2 in tdms.py). Findings on the snapshot in scope of C07: "
      "non-native byte order arrays are written byte-swapped (key d11-nonnative-byteorder, dev/patches/D11.patch) and "
      "a list mixing int and float whose first element is an int is truncated to integers (key "
      "d12-mixed-int-float-list, dev/patches/D12.patch); both reappear with a replay if unfixed.",
      "Coq proof of the composed writer->reader theorem on the two models (writer bytes = ser_file of a well-formed "
      "syntax; state machine on writer output; read_correct) + lia case analysis on the translated functions + "
      "translator + in-Coq byte-exact correspondence + read-back oracle",
      "DESIGN.md section 7, C07; sections 3a, 4, 8, 9 (D5, D6)")
claim("C08",
      "Theorems (Props/C08.v, closed under the global context): writer_structurally_valid -- for every well-formed "
      "file (any sessions / calls accepted by Model/Writer.v, index file on) the data bytes are accepted by the "
      "independent strict parser Model/StrictParse.v (tag, version, ToC; raw_data_offset <= next_segment_offset inside "
      "the file; metadata parses to exactly raw_data_offset bytes and is the canonical serialisation of what was "
      "parsed, so every length field equals the bytes that follow; nothing left over in raw data) and, clause by "
      "clause (Proofs/StrictClauses.v): lead-in offsets equal the byte lengths written, every raw data index has "
      "dimension 1, count = number of values, length field 20 -- 28 with total = 4n + sum of lengths for strings, raw "
      "data length equals what declared types and counts imply, no duplicate paths, the first segment declares the "
      "root, every channel's group path is declared in an earlier segment or earlier in the same segment, and the "
      "index bytes equal strip_raw_and_retag of the data bytes (positional: raw data removed, TDSm -> TDSh). "
      "writer_structurally_valid_refuted: the unchanged code (string index length 20) fails the same statement on a "
      "one-string-channel witness (D6). Supporting: Proofs/TokensRoundtrip.v (parser inverts serialiser for both byte "
      "orders under Model/TokensWf.v), Proofs/StrictParseProofs.v (strict_parse (ser segs) = Some segs). Tie / search: "
      "the Coq strict_parse and strip_raw_and_retag are run on the REAL writer's bytes, an independently written "
      "Python strict parser is the direct oracle, and data and index bytes are compared byte for byte with the "
      "model (quick 350 call sequences: BytesIO and paths, 1-3 sessions in append mode, versions 4712/4713, index off / "
      "on; thorough 8 000).",
      "Trusted: Coq kernel + vm_compute; the hand-written writer model (validated byte-exactly by the "
      "correspondence); the strict parser is a specification written from the TDMS layout (its Python twin in "
      "harness/writer_cases.py must agree with it on every case). wf_file (hypothesis): lengths and counts fit their "
      "fields, value sizes match types, string data of one channel per segment < 4 GiB. Defect D6 found on the "
      "snapshot (dev/patches/D6.patch: string channels declare an index length of 20 although 28 bytes follow); "
      "violation key d6-string-index-length reappears with a replay if the fix is reverted.",
      "Coq proof (induction over calls with the invariant 'groups_written are declared'; list/length arithmetic with "
      "lia) + Coq strict parser on real output + in-Coq byte-exact correspondence + Python strict parser oracle",
      "DESIGN.md section 7, C08; sections 4, 8, 9 (D6)")
claim("C10",
      "Theorem (Props/C10.v, closed under the global context): defrag_preserves_partial -- for every content (root "
      "properties, groups in order, channels in order with optional data type, raw value bytes, properties) whose "
      "calls are well-formed, the bytes Model/Defrag.v (the call list TdmsWriter.defragment issues, over "
      "Model/Writer.v) produces strict-parse to one segment per source object in the source's order -- root, each "
      "group followed by its channels -- each with exactly the source's properties (raw bytes: timestamps at full "
      "precision), the source's values byte for byte (hence the same length) and the source's data type whenever the "
      "channel holds at least one value (an empty channel keeps a NumPy type, otherwise becomes an object without "
      "raw data); nothing is inserted; the index file is the positional strip. Tie / search: TdmsWriter.defragment "
      "is run on generated non-DAQmx sources (70% from an independent encoder: 1-6 segments, big-endian, interleaved, "
      "multi-chunk, metadata-less, matches-previous; untyped, property-only, empty string/timestamp/numeric channels; "
      "strings, raw timestamps, complex; Linear/Polynomial scaling properties; 30% written by TdmsWriter), source and "
      "destination as stream or path, index on/off; direct oracle: TdmsFile.read(src, raw_timestamps=True) vs the "
      "same on the destination -- groups/channels order, properties, lengths, bit-identical raw values "
      "(read_data(scaled=False)), data type when len >= 1, scaled data (nan-safe); correspondence: the destination "
      "(and index) bytes equal the model's bytes for the content read from the source, evaluated inside Coq (quick "
      "300 files, thorough 6 000). COMPOSED with the reader model (Props/C10_read.v, closed): defrag_read -- the "
      "destination bytes READ BACK (rd_all) as defrag_tokens v c: the source's group and channel order, properties, "
      "values byte for byte, lengths, and dtype via defrag_type (preserved when the channel has a value); "
      "defrag_preserves_read_partial -- for a source ser_file segs under read_correct's hypotheses with c := the "
      "content read from it, both reads are given explicitly.",
      "PARTIAL: the final equality of the two token lists (up to version and the dtype of empty channels) needs three "
      "facts about the source's reader state not yet proved (property dictionaries well-keyed, an untyped channel has "
      "length 0, a group's name equals its dictionary key); it is checked by the reader-vs-reader oracle on every run "
      "and evaluated in Coq on an example (c10_pipeline_example). wf_file of the calls (lengths fit their fields) is a "
      "hypothesis. Property TDMS types are not compared (the reader API does not expose them; defragment re-types ints "
      "by magnitude, floats as double). Model = code with fixes D2 (tdms.py: read_data() of an untyped channel after "
      "an eager read), D7 (dev/patches/D7.patch: empty data whose type cannot be determined is written as an object "
      "without raw data; was TypeError None * int). Keys d7-defragment-raises-TypeError / "
      "d2-defragment-raises-RuntimeError reappear with a replay if a fix is reverted.",
      "Coq proof (one segment per object: the writer inserts nothing when root and group are written first) composed "
      "with the writer->reader theorem of C07 + in-Coq byte-exact correspondence + reader-vs-reader oracle",
      "DESIGN.md section 7, C10; section 9 (D2, D7)")
