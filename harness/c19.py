"""C19 -- Partial reads touch only the part of the file they need.

Proof: Props/C19.v (plan_exact_chunks: the chunks the repaired reader loop fetches are
exactly those whose value range meets the window; index_fetches_one_chunk;
cache_hit_reads_nothing).
Tie / search: every generated file is opened lazily through a recording stream (every
read/readinto with its position and size).  Direct oracle: each fetched byte range lies
in the raw data of a chunk that overlaps the request -- in contiguous layout inside the
requested channel's bytes of that chunk -- or is a 4-byte tag check of a segment between
the first and last segment overlapping the request; indexing again into the chunk just
read fetches nothing; the total is bounded by the request.  Correspondence: the set of
chunks touched is compared with lz_plan / read_at_index evaluated inside Coq.
Byte level (Props/C19_bytes.v: ranges_within_request, bytes_bounded_by_request): for every file
and channel the recorded list of reads -- positions and sizes, in order, zero-length reads
included -- of every window, slice and index request is compared for EQUALITY with
Model/LazyRanges.v (lz_ranges / lz_slice_ranges / lz_index_ranges) evaluated inside Coq on the
same file bytes (reader state of Model/Reader.v rd_metadata, as LazyBytes.channel_view); for
string channels after merging adjacent reads on both sides (the model lists a string block as
one read of its declared size).  The same evaluation checks that the state satisfies ranges_inv,
the hypothesis of the theorems.
"""
import json
import logging
import os
import random
import sys

sys.path.insert(0, os.path.dirname(os.path.abspath(__file__)))
import common as H

H.ensure_env()

import lazygen as G  # noqa: E402
import tdmsgen as TG  # noqa: E402  (DAQmx files: independent encoder of C01 / C11)
import daqmxgen as DQ  # noqa: E402
from nptdms import TdmsFile  # noqa: E402
import nptdms.log  # noqa: E402
import c04 as K  # noqa: E402  (shared Coq printers, window / slice enumerations)

nptdms.log.log_manager.set_level(logging.ERROR)

IMPORTS = K.IMPORTS
RANGE_IMPORTS = ("From NpTdms Require Import Base.Bytes Base.Res Base.PySlice Model.Tokens Model.SegState Model.Layout "
                 "Model.Reader Model.LazyRead Model.LazyBytes Model.LazyRanges.\nOpen Scope Z_scope.\n")
RANGE_TYPE = "bytes * list chan_case"
cz, copt, clist = H.cz, H.copt, H.clist


def c_pairs(ps):
    return clist(["(%s, %s)" % (cz(a), cz(b)) for a, b in sorted(ps)])


def c_reads(log):
    """the recorded reads, in order, nothing dropped"""
    return clist(["(%s, %s)" % (cz(a), cz(b)) for a, b in log])


def c_oreads(log):
    return "None" if log is None else "(Some %s)" % c_reads(log)


def chan_path(chan):
    return chan if isinstance(chan, bytes) else G.path(chan).encode("utf-8")


def range_case(data, chan, wins, slices, steps):
    """one (file, channel) case of type RANGE_TYPE for LazyRanges.agree_file"""
    ws = clist(["(%s, %s, %s)" % (cz(o), copt(l, cz), c_reads(log)) for (o, l, log) in wins])
    ss = clist(["(%s, %s, %s, %s)" % (copt(a, cz), copt(b, cz), copt(k, cz), c_oreads(log)) for (a, b, k, log) in slices])
    st = clist(["(%s, %s)" % (cz(i), c_oreads(log)) for (i, log) in steps])
    return '(hex "%s", [(hex "%s", %s, %s, %s)])' % (data.hex(), chan_path(chan).hex(), ws, ss, st)


class Layout:
    """byte layout of one channel of a generated file"""

    def __init__(self, desc, chan):
        self.segs = desc["channels"][chan]["segs"]
        self.lay = desc["segments"]
        self.chan = chan
        self.size = desc["size"]
        self.ranges = G.chunk_ranges(self.segs)          # (seg, chunk, first value, end value)
        self.sranges = G.seg_ranges(self.segs)
        self.n = self.sranges[-1][1] if self.sranges else 0
        self.by_pos = {l["pos"]: i for i, l in enumerate(self.lay)}

    def allowed(self, lo, hi):
        """(allowed chunks, allowed tag-check segments) for the value window [lo, hi)"""
        if hi > lo:
            chunks = {(i, c) for (i, c, s, e) in self.ranges if s < hi and e > lo}
            over = [i for i, (s, e) in enumerate(self.sranges) if s < hi and e > lo]
        else:
            chunks = {(i, c) for (i, c, s, e) in self.ranges if s < lo < e}
            over = [i for i, (s, e) in enumerate(self.sranges) if s <= lo < e]
        tags = set(range(min(over), max(over) + 1)) if over else set()
        return chunks, tags

    def bound(self, chunks, tags):
        b = 4 * len(tags)
        for (i, c) in chunks:
            l = self.lay[i]
            b += l["chunk_bytes"] if l["interleaved"] else l["layout"][self.chan][1]
        return b

    def analyse(self, log, chunks, tags):
        """-> (problems, touched chunks, bytes fetched)"""
        problems, touched, total, seen_tags = [], set(), 0, []
        for (p, k) in log:
            if k == 0:
                continue
            total += k
            if k == 4 and p in self.by_pos:
                si = self.by_pos[p]
                if si not in tags:
                    problems.append("tag check of segment %d, which is not between the segments overlapping the request" % si)
                if si in seen_tags:
                    problems.append("segment %d tag-checked twice" % si)
                seen_tags.append(si)
                continue
            si = next((i for i, l in enumerate(self.lay)
                       if l["chunk_bytes"] > 0 and l["data_pos"] <= p < l["data_pos"] + l["chunk_bytes"] * l["nchunks"]),
                      None)
            if si is None:
                problems.append("read of %d bytes at %d outside any raw data" % (k, p))
                continue
            l = self.lay[si]
            c0 = (p - l["data_pos"]) // l["chunk_bytes"]
            c1 = (p + k - 1 - l["data_pos"]) // l["chunk_bytes"]
            for c in range(c0, c1 + 1):
                touched.add((si, c))
                if (si, c) not in chunks:
                    problems.append("read of %d bytes at %d touches chunk %d of segment %d, which does not overlap "
                                    "the request" % (k, p, c, si))
            if not l["interleaved"]:
                if self.chan not in l["layout"]:
                    problems.append("read of %d bytes at %d in segment %d, which has no data of this channel" % (k, p, si))
                else:
                    off, nb = l["layout"][self.chan]
                    w0 = p - l["data_pos"] - c0 * l["chunk_bytes"]
                    if c0 != c1 or w0 < off or w0 + k > off + nb:
                        problems.append("read of %d bytes at %d leaves the channel's bytes [%d, %d) of chunk %d in "
                                        "segment %d" % (k, p, off, off + nb, c0, si))
        b = self.bound(chunks, tags)
        if total > b:
            problems.append("%d bytes fetched, bound from the request is %d" % (total, b))
        return problems, touched, total


class Ctx:
    def __init__(self, run):
        self.run = run
        self.chan_defs = []
        self.cases = {"plan": [], "slice": [], "index": []}
        self.meta = {"plan": [], "slice": [], "index": []}
        self.rcases = []          # byte-level cases (one per file and channel) and what they were built from
        self.rmeta = []
        self.keycount = {}
        self.flagged = set()
        self.bytes_fetched = 0
        self.bytes_files = 0

    def add_chan(self, cd):
        name = "ch_%d" % len(self.chan_defs)
        self.chan_defs.append("Definition %s : chan := %s." % (name, K.c_chan(cd)))
        return name

    def violation(self, key, what, case, expected, actual, tag):
        self.flagged.add(tag)
        self.keycount[key] = self.keycount.get(key, 0) + 1
        if self.keycount[key] <= 2:
            self.run.violation(key, what, case, expected=expected, actual=actual)


def run_file(ctx, spec, rng, label, vol):
    run = ctx.run
    data, desc = G.build(spec)
    hexfile = data.hex()
    run.count(label)
    rs = G.RecStream(data)
    try:
        lazy = TdmsFile.open(rs)
    except Exception as e:
        run.violation("open-raises", "generated file cannot be opened: %r" % (e,),
                      {"op": "open", "spec": spec, "file_hex": hexfile}, actual=repr(e))
        return
    if "z" in spec["channels"]:
        run.count("files_with_large_unrelated_channel")
    with lazy:
        for c, cd in desc["channels"].items():
            if c == "z" or "g" not in lazy or c not in lazy["g"]:
                continue
            segs, dt = cd["segs"], cd["dtype"]
            lay = Layout(desc, c)
            n = lay.n
            ch = lazy["g"][c]
            if len(ch) != n:
                continue                      # description mismatch: C04 reports it
            cname = ctx.add_chan(cd)
            base = {"spec": spec, "file_hex": hexfile, "channel": c}
            run.count("channels")
            rwin, rsl, ridx, ridx_ok = [], [], [], True
            # ---- read_data windows
            for (o, l) in K.window_lists(n, rng, 12, vol["win_samples"]):
                hi = n if l is None else min(n, o + l)
                chunks, tags = lay.allowed(o, max(o, hi)) if o <= n else (set(), set())
                rs.reset_log()
                r = K.observe(lambda: len(ch.read_data(o, l)))
                log = list(rs.log)
                run.cov["evaluations"] += 1
                problems, touched, total = lay.analyse(log, chunks, tags)
                ctx.bytes_fetched += total
                ctx.bytes_files += len(data)
                tag = (cname, "window", o, l)
                if problems:
                    key = K.classify(segs, o, hi)
                    key = key if key != "window-mismatch" else "over-read"
                    ctx.violation(key, "read_data(%r, %r) on channel %s (%s, %d values, file of %d bytes): %s"
                                  % (o, l, c, dt, n, len(data), "; ".join(problems[:3])),
                                  dict(base, op="window", offs=o, len=l), sorted(chunks), log, tag)
                if isinstance(r, int):
                    ctx.cases["plan"].append("(%s, %s, %s, %s)" % (cname, cz(o), copt(l, cz), c_pairs(touched)))
                    ctx.meta["plan"].append((tag, base, (o, l), sorted(touched)))
                    rwin.append((o, l, log))
                if len(chunks) >= 1 and len(lay.ranges) > len(chunks):
                    run.cov["distinct_nontrivial"] += 1
            # ---- slices
            sl = K.slice_lists(n, rng, vol["slice_exh"], vol["slice_samples"])
            for (a, b, k) in sl:
                if k == 0:
                    lo = hi = 0
                    chunks, tags = set(), set()
                else:
                    st, sp, kk = slice(a, b, k).indices(n)
                    lo, hi = (st, sp) if kk > 0 else (sp + 1, st + 1)
                    if len(range(st, sp, kk)) == 0:
                        # nothing selected: at most an empty read
                        chunks, tags = lay.allowed(max(lo, 0), max(lo, 0)) if 0 <= lo <= n else (set(), set())
                        chunks = set()
                    else:
                        chunks, tags = lay.allowed(lo, hi)
                rs.reset_log()
                r = K.observe(lambda: len(ch[a:b:k]))
                log = list(rs.log)
                run.cov["evaluations"] += 1
                problems, touched, total = lay.analyse(log, chunks, tags)
                ctx.bytes_fetched += total
                ctx.bytes_files += len(data)
                tag = (cname, "slice", a, b, k)
                if problems:
                    key = K.classify(segs, max(lo, 0), max(lo, hi, 0))
                    key = key if key != "window-mismatch" else "over-read"
                    ctx.violation(key, "channel[%r:%r:%r] on channel %s (%s, %d values, file of %d bytes): %s"
                                  % (a, b, k, c, dt, n, len(data), "; ".join(problems[:3])),
                                  dict(base, op="slice", start=a, stop=b, step=k), sorted(chunks), log, tag)
                if isinstance(r, int) or r == "V":
                    rsl.append((a, b, k, log if isinstance(r, int) else None))
                    ctx.cases["slice"].append("(%s, %s, %s, %s, %s)" % (cname, copt(a, cz), copt(b, cz), copt(k, cz),
                                                                       c_pairs(touched)))
                    ctx.meta["slice"].append((tag, base, (a, b, k), sorted(touched)))
            # ---- integer indices on one channel object; after each, index again into the chunk just read
            order = list(range(-n - 2, n + 2))
            if n > 12:
                order = sorted(set(rng.sample(order, min(len(order), 30)) + [-n - 1, -n, -1, 0, n - 1, n]))
            rng.shuffle(order)
            steps = []
            for i in order:
                ii = i + n if i < 0 else i
                inrange = 0 <= ii < n
                own = [(si, cc, s, e) for (si, cc, s, e) in lay.ranges if s <= ii < e] if inrange else []
                chunks = {(own[0][0], own[0][1])} if own else set()
                tags = {own[0][0]} if own else set()
                rs.reset_log()
                r = K.observe(lambda: ch[i] is not None)
                log = list(rs.log)
                run.cov["evaluations"] += 1
                problems, touched, total = lay.analyse(log, chunks, tags)
                ctx.bytes_fetched += total
                ctx.bytes_files += len(data)
                tag = (cname, "index", i)
                if (r is True) != inrange:
                    problems.append("result %r for an index that is %s range" % (r, "in" if inrange else "out of"))
                if problems:
                    ctx.violation("index-over-read", "channel[%r] on channel %s (%s, %d values): %s"
                                  % (i, c, dt, n, "; ".join(problems[:3])), dict(base, op="index", index=i),
                                  sorted(chunks), log, tag)
                steps.append("(%s, %s)" % (cz(i), c_pairs(touched)))
                if r is True or r == "I":
                    ridx.append((i, log if r is True else None))
                else:
                    ridx_ok = False
                if own:
                    run.cov["distinct_nontrivial"] += 1
                    # every other index of the chunk just read (and the same one again) must cost nothing
                    (si, cc, s, e) = own[0]
                    for j in sorted({s, e - 1, ii, rng.randint(s, e - 1)}):
                        for jj in (j, j - n):
                            rs.reset_log()
                            r2 = K.observe(lambda: ch[jj] is not None)
                            run.cov["evaluations"] += 1
                            if rs.log or r2 is not True:
                                ctx.violation("cache-miss", "channel[%r] right after channel[%r] (same chunk [%d, %d)) on "
                                              "channel %s issued reads %r (result %r)" % (jj, i, s, e, c, rs.log, r2),
                                              dict(base, op="reindex", index=i, again=jj), [], list(rs.log),
                                              (cname, "index", i))
                            steps.append("(%s, %s)" % (cz(jj), c_pairs([])))
                            if r2 is True or r2 == "I":
                                ridx.append((jj, list(rs.log) if r2 is True else None))
                            else:
                                ridx_ok = False
            ctx.cases["index"].append("(%s, %s)" % (cname, clist(steps)))
            ctx.meta["index"].append(((cname, "indexseq"), base, order, None))
            if ch.data_type is not None:
                cap = vol.get("range_slice_cap")
                if cap and len(rsl) > cap:        # thorough tier: an evenly spaced subset of the slice requests
                    rsl = rsl[::-(-len(rsl) // cap)]
                ctx.rcases.append(range_case(data, c, rwin, rsl, ridx if ridx_ok else []))
                ctx.rmeta.append(dict(cname=cname, base=base, data=data, chan=c, wins=rwin, slices=rsl,
                                      steps=ridx if ridx_ok else []))
                run.count("byte_range_requests_compared", len(rwin) + len(rsl) + (len(ridx) if ridx_ok else 0))
            if len(run.cov["samples"]) < 4 and "z" in spec["channels"] and n:
                run.sample({"channel": c, "values": n, "file_bytes": len(data),
                            "chunks": [{"segment": i, "chunk": cc, "values": [s, e]} for (i, cc, s, e) in lay.ranges][:8]})


def build_daqmx(rng):
    """a DAQmx file (independent encoder tdmsgen / daqmxgen), possibly cut inside its last segment, with the
    description Layout needs: per channel the number of values each chunk holds, per segment the byte layout"""
    truncate = rng.random() < 0.4
    widths, rows, chans = DQ.gen_daqmx_layout(rng, one_buffer_per_channel=truncate)
    cs = DQ.chunk_size(widths, rows)
    e = rng.choice("<>")
    segs = []
    for si in range(rng.randint(1, 3)):
        nchunks = rng.randint(1, 3)
        raw = bytes(rng.randrange(256) for _ in range(cs * nchunks))
        r = rng.random()
        if si == 0 or r < 0.4:
            entries, toc = DQ.daqmx_entries(widths, chans), TG.TOC_META | TG.TOC_RAW | TG.TOC_DAQMX | TG.TOC_NEWLIST
        elif r < 0.7:
            entries, toc = None, TG.TOC_RAW | TG.TOC_DAQMX
        else:
            entries, toc = [TG.Entry(c.path, "prev") for c in chans], TG.TOC_META | TG.TOC_RAW | TG.TOC_DAQMX
        segs.append(TG.Seg(e=e, toc=toc, entries=entries, data=raw))
    data = TG.ser_file(segs)
    avail_last = None
    if truncate and cs > 0 and len(segs[-1].data) > 1:
        cut = rng.randint(1, min(len(segs[-1].data), cs * 2 - 1))
        avail_last = DQ.truncated_avail(widths, rows, len(segs[-1].data) - cut)
        data = data[:len(data) - cut]
    seglay, pos = [], 0
    per_seg_avail = []
    for si, sg in enumerate(segs):
        blob = TG.ser_seg(sg)
        avail = DQ.full_avail(rows, len(sg.data) // cs if cs else 0)
        if avail_last is not None and si == len(segs) - 1:
            avail = avail_last
        per_seg_avail.append(avail)
        seglay.append(dict(pos=pos, data_pos=pos + len(blob) - len(sg.data), chunk_bytes=cs, nchunks=len(avail),
                           interleaved=True, layout={}))
        pos += len(blob)
    chandesc = {}
    for c in chans:
        b = c.scalers[0][1]
        cs_segs = []
        for avail in per_seg_avail:
            partial = bool(avail) and avail[-1] != list(rows)
            cs_segs.append(dict(chunk=c.n, nchunks=len(avail), final=(avail[-1][b] if partial else None), interleaved=True,
                                vals=[[0] * a[b] for a in avail]))
        chandesc[c.path] = dict(dtype="daqmx", segs=cs_segs)
    desc = dict(channels=chandesc, segments=seglay, size=len(data))
    return data, desc, chans, dict(widths=widths, rows=rows, truncated=avail_last is not None, nseg=len(segs))


def run_daqmx_file(ctx, file_seed, vol):
    """DAQmx layout: the recorded reads of read_data(o, l, scaled=False) and of channel[i] on typed channels
    against the oracle (chunk bytes of overlapping chunks + tag checks) and against Model/LazyRanges.v.
    The file and the requests are a function of file_seed (kept in the replay case)."""
    run = ctx.run
    rng = random.Random(file_seed)
    data, desc, chans, info = build_daqmx(rng)
    info = dict(info, daqmx_seed=file_seed)
    hexfile = data.hex()
    run.count("daqmx_files")
    if info["truncated"]:
        run.count("daqmx_files_truncated")
    rs = G.RecStream(data)
    try:
        lazy = TdmsFile.open(rs)
    except Exception as e:
        run.violation("open-raises", "generated DAQmx file cannot be opened: %r" % (e,),
                      {"op": "open-daqmx", "file_hex": hexfile, "info": info, "daqmx_seed": file_seed}, actual=repr(e))
        return
    with lazy:
        for c in chans:
            name = TG.parse_path(c.path)[1]
            if "dq" not in lazy or name not in lazy["dq"]:
                continue
            ch = lazy["dq"][name]
            lay = Layout(desc, c.path)
            n = lay.n
            if len(ch) != n:
                continue                      # C11 reports a wrong length
            cname = "daqmx_%d_%s" % (run.cov["evaluations"], name)
            base = {"file_hex": hexfile, "channel": c.path.decode("utf-8"), "info": info, "daqmx_seed": file_seed}
            run.count("daqmx_channels")
            rwin, ridx = [], []
            for (o, l) in list(vol.get("extra_windows", [])) + K.window_lists(n, rng, 8, vol["daqmx_win_samples"]):
                hi = n if l is None else min(n, o + l)
                chunks, tags = lay.allowed(o, max(o, hi)) if o <= n else (set(), set())
                rs.reset_log()
                r = K.observe(lambda: len(ch.read_data(o, l, scaled=False)))
                log = list(rs.log)
                run.cov["evaluations"] += 1
                problems, touched, total = lay.analyse(log, chunks, tags)
                ctx.bytes_fetched += total
                ctx.bytes_files += len(data)
                if problems:
                    ctx.violation("daqmx-over-read", "read_data(%r, %r, scaled=False) on DAQmx channel %s (%d values, file of %d "
                                  "bytes): %s" % (o, l, base["channel"], n, len(data), "; ".join(problems[:3])),
                                  dict(base, op="daqmx-window", offs=o, len=l), sorted(chunks), log, (cname, "window", o, l))
                if isinstance(r, int):
                    rwin.append((o, l, log))
                if len(chunks) >= 1 and len(lay.ranges) > len(chunks):
                    run.cov["distinct_nontrivial"] += 1
            if c.dt != TG.T_DAQMX:
                for i in rng.sample(range(-n - 1, n + 1), min(2 * n + 2, 8)):
                    rs.reset_log()
                    r = K.observe(lambda: ch[i] is not None)
                    run.cov["evaluations"] += 1
                    if r is True or r == "I":
                        ridx.append((i, list(rs.log) if r is True else None))
                    else:
                        break
            ctx.rcases.append(range_case(data, c.path, rwin, [], ridx))
            ctx.rmeta.append(dict(cname=cname, base=base, data=data, chan=c.path, wins=rwin, slices=[], steps=ridx))
            run.count("byte_range_requests_compared", len(rwin) + len(ridx))


def correspondence(ctx):
    run = ctx.run
    extra = "\n".join(ctx.chan_defs) + "\n"
    plan = [("plan", "chan * Z * option Z * list (Z * Z)", "check_plan"),
            ("slice", "chan * option Z * option Z * option Z * list (Z * Z)", "check_slice_io"),
            ("index", "chan * list (Z * list (Z * Z))", "check_index_io")]
    for kind, ty, fn in plan:
        cases = ctx.cases[kind]
        if not cases:
            continue
        run.count("coq_cases_" + kind, len(cases))
        bad, errors = H.run_sharded(run.pid, IMPORTS, ty, fn, cases, shard=1500 if kind != "index" else 40,
                                    extra_defs=extra, tag=kind)
        run.corr_errors(errors)
        run.cov["traces_validated_against_impl"] += len(cases) - len(bad)
        shown = 0
        for i in bad:
            tag, base, args, touched = ctx.meta[kind][i]
            if tag in ctx.flagged or (kind == "index" and any(t[0] == tag[0] and t[1] == "index" for t in ctx.flagged)):
                continue
            shown += 1
            if shown > 2:
                break
            run.violation("corr-" + kind, "the chunks touched by nptdms for %s %r of channel %s differ from the model's "
                          "plan (%s) although every byte range satisfies the oracle: touched %r"
                          % (kind, args, base["channel"], fn, touched), dict(base, op="corr-" + kind, args=list(args)),
                          kind="correspondence-broken", theorem="Model.LazyRead lz_plan vs nptdms (%s)" % fn,
                          actual=touched, no_input=True)


def range_drilldown(run, m):
    """which request of a disagreeing (file, channel) case differs, and what the model lists for it"""
    import re
    term = "diagnose_file %s" % range_case(m["data"], m["chan"], m["wins"], m["slices"], m["steps"])
    rc, out = H.coq_print_terms(run.pid, RANGE_IMPORTS, [term], tag="drill")
    flat = out.split(": list")[0]
    lists = re.findall(r"\[([^\[\]]*)\]", flat)
    tail = re.findall(r"\],\s*(true|false),\s*(true|false)\)", flat)
    if rc != 0 or len(lists) < 2 or not tail:
        return "the case (diagnosis could not be evaluated)", None, out[-600:]
    wflags = [x.strip() == "true" for x in lists[0].split(";") if x.strip()]
    sflags = [x.strip() == "true" for x in lists[1].split(";") if x.strip()]
    idx_ok, inv_ok = tail[0][0] == "true", tail[0][1] == "true"
    req, obs, show = None, None, None
    if not inv_ok:
        req = "the structural invariant ranges_inv of the reader state"
    elif False in wflags:
        w = m["wins"][wflags.index(False)]
        req, obs = "read_data(%r, %r)" % (w[0], w[1]), w[2]
        show = 'lz_ranges_bytes (hex "%s") (hex "%s") %s %s' % (m["data"].hex(), chan_path(m["chan"]).hex(), cz(w[0]),
                                                               copt(w[1], cz))
    elif False in sflags:
        sl = m["slices"][sflags.index(False)]
        req, obs = "channel[%r:%r:%r]" % tuple(sl[:3]), sl[3]
    elif not idx_ok:
        req, obs = "the index sequence %r" % [i for i, _ in m["steps"]][:40], [l for _, l in m["steps"]][:40]
    else:
        return "no single request reproduces the disagreement", None, None
    model = None
    if show:
        rc, out = H.coq_print_terms(run.pid, RANGE_IMPORTS, [show], tag="drillshow")
        model = out.strip()[-1500:]
    return req, obs, model


def correspondence_ranges(ctx, shard):
    run = ctx.run
    if not ctx.rcases:
        return
    run.count("coq_cases_byte_ranges", len(ctx.rcases))
    bad, errors = H.run_sharded(run.pid, RANGE_IMPORTS, RANGE_TYPE, "agree_file", ctx.rcases, shard=shard,
                                tag="ranges", timeout=1500)
    run.corr_errors(errors)
    if bad:
        run.count("byte_range_cases_disagreeing_with_model", len(bad))
    run.cov["traces_validated_against_impl"] += sum(
        len(m["wins"]) + len(m["slices"]) + len(m["steps"]) for i, m in enumerate(ctx.rmeta) if i not in set(bad))
    shown = 0
    for i in bad:
        m = ctx.rmeta[i]
        if any(t[0] == m["cname"] for t in ctx.flagged):
            continue          # the implementation already violates the oracle on this channel: reported with its input
        shown += 1
        if shown > 2:
            break
        req, obs, model = range_drilldown(run, m)
        run.violation("corr-ranges", "the reads nptdms issues for %s on channel %s differ from the byte-range model "
                      "(Model/LazyRanges.v) although every byte range satisfies the oracle: recorded %r"
                      % (req, m["chan"], obs), dict(m["base"], op="corr-ranges", request=req),
                      kind="correspondence-broken", theorem="Model.LazyRanges lz_ranges vs nptdms (agree_file)",
                      actual=obs, model=model, no_input=True)


def replay(run, case):
    ctx = Ctx(run)
    spec = case.get("spec")
    if case.get("daqmx_seed") is not None:
        extra = [(case["offs"], case["len"])] if case.get("op") == "daqmx-window" else []
        run_daqmx_file(ctx, case["daqmx_seed"], dict(daqmx_win_samples=60, extra_windows=extra))
        correspondence_ranges(ctx, 4)
        return
    if spec is None:
        print("replay: nothing to re-run")
        return
    data, desc = G.build(spec)
    c = case.get("channel")
    op = case.get("op")
    if op in ("window", "slice", "index", "reindex") and c:
        lay = Layout(desc, c)
        rs = G.RecStream(data)
        f = TdmsFile.open(rs)
        ch = f["g"][c]
        n = lay.n
        rs.reset_log()
        if op == "window":
            o, l = case["offs"], case["len"]
            hi = n if l is None else min(n, o + l)
            chunks, tags = lay.allowed(o, max(o, hi)) if o <= n else (set(), set())
            K.observe(lambda: ch.read_data(o, l))
        elif op == "slice":
            a, b, k = case["start"], case["stop"], case["step"]
            st, sp, kk = slice(a, b, k).indices(n) if k != 0 else (0, 0, 1)
            lo, hi = (st, sp) if kk > 0 else (sp + 1, st + 1)
            chunks, tags = lay.allowed(lo, hi) if len(range(st, sp, kk)) else (set(), set())
            K.observe(lambda: ch[a:b:k])
        else:
            i = case["index"]
            ii = i + n if i < 0 else i
            own = [(si, cc) for (si, cc, s, e) in lay.ranges if s <= ii < e]
            chunks, tags = set(own[:1]), {own[0][0]} if own else set()
            K.observe(lambda: ch[i])
            if op == "reindex":
                rs.reset_log()
                chunks, tags = set(), set()
                K.observe(lambda: ch[case["again"]])
        log = list(rs.log)
        problems, touched, total = lay.analyse(log, chunks, tags)
        print("nptdms (%s): reads %r\nallowed chunks %r, tag segments %r\nproblems: %r"
              % (H.REPO, log, sorted(chunks), sorted(tags), problems))
        if problems:
            run.violation(case.get("key_hint", "over-read"), "replayed %s on channel %s: %s" % (op, c, "; ".join(problems[:3])),
                          case, expected=sorted(chunks), actual=log)
    else:
        run_file(ctx, spec, random.Random(run.seed), "replayed_files", dict(win_samples=80, slice_exh=5, slice_samples=200))
        correspondence(ctx)
        correspondence_ranges(ctx, 4)


def main():
    run = H.Run("C19")
    run.prove(extra_files=("theories/Model/LazyRanges.v",))
    if run.replay:
        replay(run, json.load(open(run.replay))["case"])
        run.finish()
    rng = random.Random(run.seed)
    ctx = Ctx(run)
    vol = dict(win_samples=run.pick(60, 150), slice_exh=run.pick(4, 7), slice_samples=run.pick(120, 500),
               daqmx_win_samples=run.pick(25, 60), range_slice_cap=run.pick(None, 400))
    d3 = dict(channels={"a": "i32", "b": "i32"}, strw=3, segments=[
        dict(kind="new", be=False, objs=[["a", 4]], interleaved=False, nchunks=1),
        dict(kind="new", be=False, objs=[["b", 2]], interleaved=False, nchunks=1),
        dict(kind="new", be=False, objs=[["a", 4]], interleaved=False, nchunks=3)])
    d13 = dict(channels={"b": "i32", "a": "i32"}, strw=3, cut=24, segments=[
        dict(kind="new", be=False, objs=[["b", 4], ["a", 4]], interleaved=False, nchunks=3)])
    for spec in (d3, d13):
        run_file(ctx, spec, rng, "witness_files", vol)
    nfiles = run.pick(120, 1200)
    for it in range(nfiles):
        spec = G.gen_spec(rng, big=(it % 2 == 0), small=(it % 3 != 2))
        run_file(ctx, spec, rng, "generated_files", vol)
        if it % 200 == 199 and run.thorough:
            correspondence(ctx)
            correspondence_ranges(ctx, 12)
            keep = ctx.keycount, ctx.flagged, ctx.bytes_fetched, ctx.bytes_files
            ctx = Ctx(run)
            ctx.keycount, ctx.flagged, ctx.bytes_fetched, ctx.bytes_files = keep
    for it in range(run.pick(40, 400)):
        run_daqmx_file(ctx, rng.getrandbits(48), vol)
    correspondence(ctx)
    correspondence_ranges(ctx, run.pick(8, 12))
    for k, v in sorted(ctx.keycount.items()):
        run.count("violations_" + k, v)
    run.count("bytes_fetched_total", ctx.bytes_fetched)
    run.count("file_bytes_times_requests", ctx.bytes_files)
    run.cov["exhaustive"] = True
    run.cov["rule"] = ("per generated file (half of them with a large unrelated channel and segments) and channel: every "
                       "read_data(offset, length) with 0 <= offset <= n+2, length in 0..n+2 or None for n <= 12 (sampled "
                       "above), the slice grid for n <= %d (sampled above), every integer index in [-n-2, n+1] in random "
                       "order on one channel object, each followed by indexing again (positive and negative form) at the "
                       "bounds of and inside the chunk just read. Every recorded read()/readinto() is checked. "
                       "Non-trivial = a request whose allowed chunk set is non-empty and smaller than the channel's chunk "
                       "set, or an in-range index. Byte level: for every (file, channel) the complete recorded read list "
                       "(position, bytes returned; zero-length reads included, order kept) of every one of these requests "
                       "is compared for equality with Model/LazyRanges.v evaluated in Coq on the file bytes (string "
                       "channels: after merging adjacent reads on both sides), and ranges_inv is evaluated on the reader "
                       "state. DAQmx files (daqmxgen, 40%% cut inside the last segment): read_data(o, l, scaled=False) "
                       "windows (exhaustive for n <= 8) and integer indices on typed channels, same two checks."
                       % vol["slice_exh"])
    run.assumptions = ["the stream passed to TdmsFile.open is an unbuffered BytesIO subclass; OS / buffered-file prefetching "
                       "is below the stream interface and not observed",
                       "metadata reading at open time is not part of the claim (the log is reset after open)",
                       "the direct oracle ignores zero-length reads (fromfile's terminating readinto; a channel with no "
                       "values in a truncated final chunk); the byte-level correspondence compares them",
                       "read()/readinto() of the recording stream return min(requested, bytes left) in ONE call "
                       "(in-memory stream): the model lists bytes RETURNED; a stream that returns short reads before EOF "
                       "would show more, smaller reads over the same ranges",
                       "string channels: the model lists a string block as one read of its declared size; the comparison "
                       "merges adjacent reads on both sides for them (the only layout where equality is modulo merging)",
                       "for an empty window the chunk strictly containing the offset may be fetched (as the theorem states)",
                       "lz_plan models the REPAIRED read_raw_data_for_channel (dev/patches/D3.patch, D13.patch)"]
    run.finish()


if __name__ == "__main__":
    main()
