"""C03 — Every way of obtaining a channel's data gives the same data.

For each generated readable file (well-formed, truncated, DAQmx, with and without a Linear
scaling) every access path of the public API, in every configuration
{read, open} x {path, BytesIO} x {memmap_dir None, dir} x {raw_timestamps False, True},
must deliver the same values as the eager baseline; chunk offsets are running counts.
Correspondence: the eager baseline itself is compared with Model/Reader.v.
"""
import io
import os
import random
import struct
import sys
import warnings

sys.path.insert(0, os.path.dirname(os.path.abspath(__file__)))
import common as H

H.ensure_env()
import numpy as np           # noqa: E402
import tdmsgen as G          # noqa: E402
import daqmxgen as D         # noqa: E402
import readerlib as R        # noqa: E402

G.silence_logs()


def canon_scalar(x):
    from nptdms.timestamp import TdmsTimestamp
    if isinstance(x, TdmsTimestamp):
        return struct.pack("<Qq", int(x.second_fractions), int(x.seconds))
    if isinstance(x, str):
        return x.encode("utf-8", errors="surrogatepass")
    if isinstance(x, np.generic):
        a = np.asarray(x)
        return a.astype(a.dtype.newbyteorder("<")).tobytes()
    return repr(x).encode()


def canon(arr):
    """array-like -> list of canonical value bytes"""
    from nptdms.timestamp import TimestampArray
    if isinstance(arr, dict):
        return {int(k): canon(v) for k, v in arr.items()}
    if isinstance(arr, TimestampArray):
        return G.canon_array_values(arr)
    if isinstance(arr, (list, tuple)):
        # string chunks are plain Python lists; never let NumPy turn them into a 'U' array
        # (it would strip trailing NULs and re-encode)
        return [canon_scalar(x) for x in arr]
    a = np.asarray(arr)
    if a.dtype.kind == "M":
        a = a.astype("<M8[us]").astype("<i8")
    return G.canon_array_values(a)


def outcome(fn):
    try:
        return ("ok", fn())
    except Exception as ex:     # noqa: BLE001
        return ("err", "raised")      # which exception class is not part of "the same data"


def eager_paths(ch):
    n = len(ch)
    return {
        "slice": outcome(lambda: canon(ch[:])),
        "ellipsis": outcome(lambda: canon(ch[...])),
        "read_data": outcome(lambda: canon(ch.read_data())),
        "data": outcome(lambda: canon(ch.data)),
        "iter": outcome(lambda: [canon_scalar(x) for x in ch]),
        "index": outcome(lambda: [canon_scalar(ch[i]) for i in range(n)]),
        "raw": outcome(lambda: canon(ch.read_data(scaled=False))),
        "raw_data": outcome(lambda: canon(ch.raw_scaler_data if ch.data_type is not None and
                                          ch.data_type.enum_value == G.T_DAQMX else ch.raw_data)),
    }


def lazy_paths(f, ch):
    n = len(ch)

    def chan_chunks():
        out, count = [], 0
        for c in ch.data_chunks():
            if c.offset != count:
                raise AssertionError("chunk offset %r != running count %r" % (c.offset, count))
            v = canon(c[:])
            if len(v) != len(c):
                raise AssertionError("len(chunk) %d != values %d" % (len(c), len(v)))
            out += v
            count += len(c)
        return out

    def file_chunks():
        out, count = [], 0
        for dc in f.data_chunks():
            c = dc[ch.group_name][ch.name]
            if c.offset != count:
                raise AssertionError("file chunk offset %r != running count %r" % (c.offset, count))
            out += canon(c[:])
            count += len(c)
        return out
    def file_chunks_collected():
        # all chunks fetched first (list(...)), looked at afterwards: a chunk's offset and data must not depend on
        # when it is inspected
        out, count = [], 0
        for dc in list(f.data_chunks()):
            c = dc[ch.group_name][ch.name]
            if c.offset != count:
                raise AssertionError("collected file chunk offset %r != running count %r" % (c.offset, count))
            out += canon(c[:])
            count += len(c)
        return out

    def chan_chunks_collected():
        out, count = [], 0
        for c in list(ch.data_chunks()):
            if c.offset != count:
                raise AssertionError("collected chunk offset %r != running count %r" % (c.offset, count))
            out += canon(c[:])
            count += len(c)
        return out
    return {
        "slice": outcome(lambda: canon(ch[:])),
        "ellipsis": outcome(lambda: canon(ch[...])),
        "read_data": outcome(lambda: canon(ch.read_data())),
        "iter": outcome(lambda: [canon_scalar(x) for x in ch]),
        "index": outcome(lambda: [canon_scalar(ch[i]) for i in range(n)]),
        "index_rev": outcome(lambda: [canon_scalar(ch[i]) for i in range(n - 1, -1, -1)][::-1]),
        "chan_chunks": outcome(chan_chunks),
        "file_chunks": outcome(file_chunks),
        "file_chunks_collected": outcome(file_chunks_collected),
        "chan_chunks_collected": outcome(chan_chunks_collected),
        "raw": outcome(lambda: canon(ch.read_data(scaled=False))),
    }


SCALED_NAMES = ("slice", "ellipsis", "read_data", "data", "iter", "index", "index_rev", "chan_chunks", "file_chunks",
                "file_chunks_collected", "chan_chunks_collected")


def observe_config(src, mode, raw_ts, memmap):
    """-> {channel path: {access path: outcome}}"""
    from nptdms import TdmsFile
    out = {}
    with warnings.catch_warnings():
        warnings.simplefilter("ignore")
        s = io.BytesIO(src) if isinstance(src, bytes) else src
        if mode == "read":
            f = TdmsFile.read(s, raw_timestamps=raw_ts, memmap_dir=memmap)
            for g in f.groups():
                for ch in g.channels():
                    out[ch.path] = eager_paths(ch)
        else:
            with TdmsFile.open(s, raw_timestamps=raw_ts, memmap_dir=memmap) as f:
                for g in f.groups():
                    for ch in g.channels():
                        out[ch.path] = lazy_paths(f, ch)
    return out


def ts_to_us(raw_vals):
    """what raw timestamps convert to (documented change of representation), via the library's own
    TimestampArray.as_datetime64 on the raw values"""
    from nptdms.timestamp import TimestampArray
    a = np.zeros(len(raw_vals), dtype=[("second_fractions", "<u8"), ("seconds", "<i8")])
    for i, v in enumerate(raw_vals):
        fr, s = struct.unpack("<Qq", v)
        a[i] = (fr, s)
    with warnings.catch_warnings():
        warnings.simplefilter("ignore")
        return canon(TimestampArray(a).as_datetime64())


def add_linear_scale(rng, segs):
    """attach a Linear NI_Scale to some numeric channels (on their first listing)"""
    done = set()
    for s in segs:
        for x in (s.entries or []):
            if isinstance(x.idx, tuple) and x.idx[0] == "full" and x.idx[2] in (1, 2, 3, 5, 6, 7, 10) \
                    and x.path not in done and rng.random() < 0.7:
                done.add(x.path)
                if rng.random() < 0.4:
                    # a sensor scaling (they compute with in-place NumPy operations) reading the raw data
                    import c13_lib
                    kind = rng.choice(["Strain", "RTD", "Thermistor", "Thermocouple"])
                    if kind == "Thermocouple":
                        x.props += [G.Prop(b"NI_Scale[0]_Scale_Type", G.T_STRING, b"Thermocouple"),
                                    G.Prop(b"NI_Scale[0]_Thermocouple_Thermocouple_Type", 7,
                                           struct.pack("<L", rng.choice([10073, 10072, 10085]))),
                                    G.Prop(b"NI_Scale[0]_Thermocouple_Scaling_Direction", 7,
                                           struct.pack("<L", rng.choice([0, 0, 1]))),
                                    G.Prop(b"NI_Scale[0]_Thermocouple_Input_Source", 7, struct.pack("<L", 0xFFFFFFFF)),
                                    G.Prop(b"NI_Number_Of_Scales", 7, struct.pack("<L", 1))]
                        continue
                    x.props += [G.Prop(b"NI_Scale[0]_Scale_Type", G.T_STRING, kind.encode()),
                                G.Prop(("NI_Scale[0]_%s_Input_Source" % kind).encode(), 7, struct.pack("<L", 0xFFFFFFFF)),
                                G.Prop(b"NI_Number_Of_Scales", 7, struct.pack("<L", 1))]
                    for name, val in c13_lib.SENSOR_DEFAULTS[kind]:
                        if isinstance(val, int):
                            x.props.append(G.Prop(("NI_Scale[0]_" + name).encode(), 7, struct.pack("<L", val)))
                        else:
                            x.props.append(G.Prop(("NI_Scale[0]_" + name).encode(), 10, struct.pack("<d", val)))
                    continue
                x.props += [G.Prop(b"NI_Scale[0]_Scale_Type", G.T_STRING, b"Linear"),
                            G.Prop(b"NI_Scale[0]_Linear_Slope", 10, struct.pack("<d", rng.choice([2.0, -0.5, 1e-3]))),
                            G.Prop(b"NI_Scale[0]_Linear_Y_Intercept", 10, struct.pack("<d", rng.choice([0.0, 1.5]))),
                            G.Prop(b"NI_Number_Of_Scales", 7, struct.pack("<L", 1))]
    return segs


def gen_case(rng):
    r = rng.random()
    if r < 0.2:
        widths, rows, chans, segs = daq(rng)
        data = G.ser_file(segs)
        kind = "daqmx"
        if rng.random() < 0.3 and segs[-1].data:
            data = data[:len(data) - rng.randint(1, min(len(segs[-1].data), 9))]
            kind = "daqmx_truncated"
        return data, kind, R.describe_segs(segs)
    if r < 0.23:
        # more than 100 segments, channels whose segment structure diverges only after the first 100
        import lazygen
        data, _ = lazygen.build(lazygen.gen_many_spec(rng))
        return data, "many_segments", None
    kind = "wellformed"
    if rng.random() < 0.5:
        # scaled channels: numeric types only, half of them float64 (the type the scalings compute in, so that
        # a scaling working in place would touch the channel's own raw array)
        segs = G.gen_file(rng, G.GenParams(max_segs=4, max_chans=3, max_vals=4, max_chunks=3,
                                           types=[10, 10, 10, 10, 9, 3, 5, 2, 7]))
        segs = add_linear_scale(rng, segs)
        kind = "scaled"
    else:
        segs = G.gen_file(rng, G.GenParams(max_segs=4, max_chans=3, max_vals=4, max_chunks=3))
    data = G.ser_file(segs)
    if r > 0.8 and segs[-1].data:
        data = data[:len(data) - rng.randint(1, len(segs[-1].data))]
        kind += "_truncated"
    return data, kind, R.describe_segs(segs)


def daq(rng):
    widths, rows, chans = D.gen_daqmx_layout(rng, one_buffer_per_channel=True)
    e = rng.choice("<>")
    segs = []
    for si in range(rng.randint(1, 3)):
        cs = D.chunk_size(widths, rows)
        data = bytes(rng.randrange(256) for _ in range(cs * rng.randint(1, 3)))
        if si == 0:
            entries = D.daqmx_entries(widths, chans)
            # a Linear scale over DAQmx scaler 0 for channels that have a scaler with id 0
            for x, c in zip(entries, chans):
                if c.dt == G.T_DAQMX and any(s[4] == 0 for s in c.scalers) and rng.random() < 0.7:
                    x.props += [G.Prop(b"NI_Number_Of_Scales", 7, struct.pack("<L", 2)),
                                G.Prop(b"NI_Scale[1]_Scale_Type", G.T_STRING, b"Linear"),
                                G.Prop(b"NI_Scale[1]_Linear_Slope", 10, struct.pack("<d", 0.25)),
                                G.Prop(b"NI_Scale[1]_Linear_Y_Intercept", 10, struct.pack("<d", -1.0)),
                                G.Prop(b"NI_Scale[1]_Linear_Input_Source", 7, struct.pack("<L", 0))]
            toc = G.TOC_META | G.TOC_RAW | G.TOC_DAQMX | G.TOC_NEWLIST
        else:
            entries, toc = None, G.TOC_RAW | G.TOC_DAQMX
        segs.append(G.Seg(e=e, toc=toc, entries=entries, data=data))
    return widths, rows, chans, segs


def check_case(run, rng, work, k, data, kind, desc, cases, meta):
    path = os.path.join(work, "f%d.tdms" % k)
    open(path, "wb").write(data)
    mm = os.path.join(work, "mm")
    os.makedirs(mm, exist_ok=True)
    case = {"op": "paths", "hex": data.hex(), "kind": kind, "desc": desc}
    try:
        base = observe_config(data, "read", True, None)
        mark_time_channels(data, base)
    except Exception as ex:     # noqa: BLE001
        run.count("unreadable")
        return
    run.count(kind)
    configs = [(m, s, r, mmd) for m in ("read", "open") for s in ("bytes", "path") for r in (True, False)
               for mmd in (None, mm)]
    if not run.thorough:
        # quick: every value of every dimension appears, not the full product
        configs = [("read", "bytes", True, None), ("open", "bytes", True, None), ("read", "path", False, mm),
                   ("open", "path", False, None), ("open", "bytes", False, mm), ("read", "path", True, mm),
                   ("open", "path", True, mm), ("read", "bytes", False, None)]
    failed = False
    for (mode, src, raw_ts, mmd) in configs:
        run.cov["evaluations"] += 1
        try:
            obs = observe_config(data if src == "bytes" else path, mode, raw_ts, mmd)
        except Exception as ex:     # noqa: BLE001
            failed = True
            run.violation("paths-config-raises", "%s file: TdmsFile.%s(%s, raw_timestamps=%s, memmap=%s) raises %r"
                          % (kind, mode, src, raw_ts, bool(mmd), ex), case, actual=repr(ex)[:300])
            break
        for chp, paths in base.items():
            if chp not in obs:
                failed = True
                run.violation("paths-channel-missing", "channel %r missing in config %s" % (chp, (mode, src, raw_ts)),
                              case)
                break
            ref_scaled = paths["slice"]
            ref_raw = paths["raw"]
            for name, oc in obs[chp].items():
                if name.startswith("__"):
                    continue
                ref = ref_raw if name in ("raw", "raw_data") else ref_scaled
                if not raw_ts and paths.get("__ts__") and ref[0] == "ok":
                    ref = ("ok", ts_to_us(ref[1]))
                if ref[0] == "err" and oc[0] == "ok" and not isinstance(oc[1], dict) and len(oc[1]) == 0:
                    # the bulk read raises (DAQmx data without scaling information) and this path delivers
                    # NO data (zero-length channel / nothing to iterate): nothing is obtained either way
                    continue
                if oc != ref:
                    failed = True
                    run.violation("paths-differ-%s" % name,
                                  "%s file, %s/%s raw_timestamps=%s memmap=%s: access path %r of %r gives %s, baseline "
                                  "(eager channel[:]) gives %s" % (kind, mode, src, raw_ts, bool(mmd), name, chp,
                                                                  short(oc), short(ref)), case,
                                  expected=short(ref), actual=short(oc))
                    break
            if failed:
                break
        if failed:
            break
    toks, ex = G.read_eager(data)
    cases.append(R.case_all(data, toks))
    meta.append({"data": data, "impl": R.exc_kind(ex) or "tokens", "desc": desc, "oracle_failed": failed})
    if not kind.startswith("daqmx") and not failed:
        window_cases(rng, data, desc, failed)


WINDOW_CASES = []


def window_cases(rng, data, desc, failed):
    """lazy raw windows of a few channels, to be compared with the byte-level lazy model"""
    from nptdms import TdmsFile
    with warnings.catch_warnings():
        warnings.simplefilter("ignore")
        with TdmsFile.open(io.BytesIO(data), raw_timestamps=True) as f:
            chans = [ch for g in f.groups() for ch in g.channels()]
            rng.shuffle(chans)
            for ch in chans[:2]:
                n = len(ch)
                for _ in range(3):
                    o = rng.randint(0, n + 1)
                    ln = rng.choice([None, 0, 1, rng.randint(0, n + 2)])
                    try:
                        vals = canon(ch.read_data(o, ln, scaled=False))
                        if isinstance(vals, dict):
                            break
                    except Exception:     # noqa: BLE001
                        vals = None
                    obs = "None" if vals is None else "(Some %s)" % H.clist(['hex "%s"' % v.hex() for v in vals])
                    term = '(hex "%s", hex "%s", %s, %s, %s)' % (
                        data.hex(), ch.path.encode("utf-8").hex(), H.cz(o), H.copt(ln, H.cz), obs)
                    WINDOW_CASES.append((term, {"data": data, "path": ch.path, "offs": o, "len": ln,
                                                "impl": None if vals is None else [v.hex() for v in vals[:8]],
                                                "desc": desc}))


def short(oc):
    if oc[0] == "err":
        return oc
    v = oc[1]
    if isinstance(v, dict):
        return ("ok", {k: [x.hex() for x in vv[:5]] for k, vv in v.items()})
    return ("ok", len(v), [x.hex() if isinstance(x, bytes) else x for x in v[:6]])


def mark_time_channels(data, base):
    from nptdms import TdmsFile
    with warnings.catch_warnings():
        warnings.simplefilter("ignore")
        f = TdmsFile.read_metadata(io.BytesIO(data))
        for g in f.groups():
            for ch in g.channels():
                if ch.path in base:
                    base[ch.path]["__ts__"] = ch.data_type is not None and ch.data_type.enum_value == G.T_TIME


LAZY_IMPORTS = R.READER_IMPORTS.replace("Model.Reader.", "Model.Reader Model.LazyRead Model.LazyBytes.")


def run_window_cases(run):
    """Model/LazyBytes.v (metadata pass + chunk decoders + LazyRead.lz_read) vs read_data(o, l, scaled=False)"""
    terms = [t for t, _ in WINDOW_CASES]
    if not terms:
        return
    bad, errors = H.run_sharded(run.pid, LAZY_IMPORTS, "bytes * bytes * Z * option Z * option (list bytes)",
                                "agree_window", terms, shard=run.pick(40, 120), tag="windows", timeout=1200)
    run.corr_errors(errors, "windows")
    run.count("lazy_windows_compared_with_byte_level_model", len(terms))
    run.cov["traces_validated_against_impl"] += len(terms) - len(bad)
    for i in bad[:3]:
        m = WINDOW_CASES[i][1]
        rc, out = H.coq_print_terms(run.pid, LAZY_IMPORTS,
                                    ['lz_read_bytes (hex "%s") (hex "%s") %s %s'
                                     % (m["data"].hex(), m["path"].encode("utf-8").hex(), H.cz(m["offs"]),
                                        H.copt(m["len"], H.cz))], tag="show_win_%d" % i)
        run.violation("corr-lazy-window", "byte-level lazy model and read_data(%d, %r, scaled=False) of %r disagree"
                      % (m["offs"], m["len"], m["path"]),
                      {"op": "paths", "hex": m["data"].hex(), "kind": "window", "desc": m["desc"]},
                      kind="correspondence-broken", theorem="Model.LazyBytes.lz_read_bytes vs TdmsChannel.read_data",
                      actual=m["impl"], model=out[-2500:], no_input=True)


# A readable file outside the generators' well-formedness domain (DESIGN.md appendix B: no path listed twice in
# one segment's metadata), found while proving Props/C03_read.v (lazy_eq_eager_refuted; the hypothesis
# "no segment's object list names a path twice" of lazy_is_window_of_eager is necessary): two segments, one int32
# channel; segment 2 starts a new object list and lists the channel TWICE - full index (2 values), then "no data".
DUP_PATH_FILE = bytes([
    84, 68, 83, 109, 14, 0, 0, 0, 105, 18, 0, 0, 48, 0, 0, 0, 0, 0, 0, 0, 40, 0, 0, 0, 0, 0, 0, 0,
    1, 0, 0, 0, 8, 0, 0, 0, 47, 39, 103, 39, 47, 39, 97, 39, 20, 0, 0, 0, 3, 0, 0, 0, 1, 0, 0, 0,
    2, 0, 0, 0, 0, 0, 0, 0, 0, 0, 0, 0, 1, 0, 0, 0, 2, 0, 0, 0,
    84, 68, 83, 109, 14, 0, 0, 0, 105, 18, 0, 0, 68, 0, 0, 0, 0, 0, 0, 0, 60, 0, 0, 0, 0, 0, 0, 0,
    2, 0, 0, 0, 8, 0, 0, 0, 47, 39, 103, 39, 47, 39, 97, 39, 20, 0, 0, 0, 3, 0, 0, 0, 1, 0, 0, 0,
    2, 0, 0, 0, 0, 0, 0, 0, 0, 0, 0, 0, 8, 0, 0, 0, 47, 39, 103, 39, 47, 39, 97, 39,
    255, 255, 255, 255, 0, 0, 0, 0, 3, 0, 0, 0, 4, 0, 0, 0])


def dup_path_witness(run):
    """the recorded finding (KNOWN_FINDINGS.txt key dup-path-in-segment): eager and lazy reads of DUP_PATH_FILE"""
    from nptdms import TdmsFile
    run.count("dup_path_witness")
    try:
        eager = [int(x) for x in TdmsFile.read(io.BytesIO(DUP_PATH_FILE))["g"]["a"][:]]
        with TdmsFile.open(io.BytesIO(DUP_PATH_FILE)) as f:
            ch = f["g"]["a"]
            lazy = {"slice": [int(x) for x in ch[:]], "read_data": [int(x) for x in ch.read_data()],
                    "window(2,2)": [int(x) for x in ch.read_data(2, 2)], "index": [int(ch[i]) for i in range(len(ch))]}
    except Exception as ex:     # noqa: BLE001  (a tree that rejects such files has nothing to compare)
        run.count("dup_path_witness_rejected")
        return
    bad = {k: v for k, v in lazy.items() if v != (eager[2:4] if k == "window(2,2)" else eager)}
    if bad:
        run.violation("dup-path-in-segment",
                      "a segment whose metadata lists the same channel twice (full index, then 'no data'): TdmsFile.read "
                      "gives %r, TdmsFile.open gives %r (object_index maps the path to the LAST listing, so the lazy "
                      "path skips the segment and returns the zero-filled receiver)" % (eager, bad),
                      {"op": "paths", "hex": DUP_PATH_FILE.hex(), "kind": "dup_path", "desc": None},
                      expected=eager, actual=bad)


def main():
    run = H.Run("C03")
    run.prove()
    rng = random.Random(run.seed)
    work = str(H.workdir("C03"))
    cases, meta = [], []
    if run.replay:
        import json
        case = json.load(open(run.replay))["case"]
        check_case(run, rng, work, 0, bytes.fromhex(case["hex"]), case.get("kind", "replay"), case.get("desc"), cases, meta)
        R.run_agree_all(run, cases, meta, "replay", "replay")
        run.finish()
    dup_path_witness(run)
    for k in range(run.pick(180, 2500)):
        data, kind, desc = gen_case(rng)
        check_case(run, rng, work, k, data, kind, desc, cases, meta)
        run.cov["distinct_nontrivial"] += 1
        if k < 2:
            run.sample({"kind": kind, "segments": desc})
    R.run_agree_all(run, cases, meta, "baseline", "eager baseline")
    run_window_cases(run)
    run.cov["rule"] = ("random readable files (well-formed as C01, with Linear scaling, truncated in the last segment, DAQmx "
                       "with and without a scale over a DAQmx scaler) x access paths {channel[:], channel[...], read_data(), "
                       "data, iteration, integer indexing forwards and backwards, channel.data_chunks(), "
                       "TdmsFile.data_chunks(), read_data(scaled=False), raw_data / raw_scaler_data} x configurations "
                       "{read, open} x {path, BytesIO} x {memmap_dir None, dir} x {raw_timestamps True, False} "
                       "(quick: a covering subset of 8 configurations; thorough: all 16). evaluations counts (file, "
                       "configuration) pairs; every file is non-trivial.")
    run.assumptions = ["memmap_dir is a storage choice the value model cannot exhibit: covered by the differential run only",
                      "raw vs converted timestamps are related through the library's own TimestampArray.as_datetime64 "
                      "(its correctness is C12)"]
    run.finish()


if __name__ == "__main__":
    main()
