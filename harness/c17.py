"""C17 — Sensor scalings invert their sensor laws.

Proof: Props/C17.v (over the reals: the RTD, thermistor and strain formulas of
nptdms/scaling.py invert the Callendar-Van Dusen, Steinhart-Hart and Wheatstone
laws, with lead-wire compensation, initial voltage and gain adjustment;
polynomial = sum of powers, table = clamped piecewise-linear interpolation).

Tie: for generated parameter sets x temperatures / strains
  * forward law in Python (exact rationals where the law is rational) -> voltage v,
  * implementation: <Scaling>.scale(np.array([... v ...])),
  * direct oracle: |impl - x| within the property's 1e-6 relative tolerance,
  * correspondence, kernel-checked per sample: generated Coq files with one
    `Goal ... Qed.` per sample stating |model(params, v) - impl| <= tol (closed by
    `interval`, comparisons by `lra`, literals are the exact floats), and that the
    Python forward law agrees with the Coq law,
  * once through TdmsWriter -> TdmsFile with NI_Scale[0]_* properties: channel[:]
    equals the direct scale() (ties the from_properties name mapping),
  * float_tie: the binary64 models of Model/SensorsF.v (RTD quadratic branch incl. the lead
    compensation and the branch test, all seven strain bridges) evaluated inside Coq
    (vm_compute) on ~600 (parameters, voltage) samples per scaling kind and compared bit for
    bit with float.hex() of the implementation's result; these are the models the rounding
    theorems of Props/C17_float.v are about.
"""
import io
import json
import math
import struct
import os
import random
import re
import sys
import warnings
from fractions import Fraction as Fr

sys.path.insert(0, os.path.dirname(os.path.abspath(__file__)))
import common as H

H.ensure_env()

import numpy as np  # noqa: E402
from nptdms import scaling as S  # noqa: E402

warnings.filterwarnings("ignore")
np.seterr(all="ignore")

RAW = 0xFFFFFFFF
CUR, VOLT = 10134, 10322
BRIDGES = [("FULL_BRIDGE_1", 10183), ("FULL_BRIDGE_2", 10184), ("FULL_BRIDGE_3", 10185),
           ("HALF_BRIDGE_1", 10188), ("HALF_BRIDGE_2", 10189),
           ("QUARTER_BRIDGE_1", 10271), ("QUARTER_BRIDGE_2", 10272)]
BRIDGE_NAME = {code: name for name, code in BRIDGES}
WIRING = {2: "TwoWire", 3: "ThreeWire", 4: "FourWire"}

# correspondence tolerances (model over R vs float implementation on the same inputs):
# only float rounding separates the two, measured <= 1e-12 relative; 1e-9 leaves room
CORR_REL = 1e-9

HEADER = """From Coq Require Import Reals ZArith List Lra.
From Interval Require Import Tactic.
Import ListNotations.
From NpTdms Require Import Model.SensorsR Proofs.SensorsProofs.
Open Scope R_scope.
Unset Lia Cache. Unset Nia Cache. Unset Nra Cache.
Ltac unf := cbv [corr rtd_r_t rtd_scale_pos adjust_for_lead_resistance thermistor_scale thermistor_resistance polyval polynomial_scale fold_right strain_scale strain_measured_voltage bridge_output wheatstone lead_adjustment current_excitation_voltage voltage_divider_voltage lead_in_measurement cvd_pos cvd_neg steinhart_hart_recip_T Z.eqb Pos.eqb andb orb CURRENT_EXCITATION VOLTAGE_EXCITATION FULL_BRIDGE_1 FULL_BRIDGE_2 FULL_BRIDGE_3 HALF_BRIDGE_1 HALF_BRIDGE_2 QUARTER_BRIDGE_1 QUARTER_BRIDGE_2 wiring_code].
Ltac num := interval with (i_prec 100).
"""
HEADER_LINES = HEADER.count("\n")


def rh(x):
    """exact float -> Coq real literal"""
    x = float(x)
    assert math.isfinite(x)
    return "(%s)" % x.hex()


def rlist(xs):
    return "[" + "; ".join(rh(x) for x in xs) + "]"


def zc(n):
    return "(%d)%%Z" % n


def fr(x):
    return Fr(float(x))


# ---------------------------------------------------------------------------
# forward laws (Python side; mirrored by the Coq laws, agreement is a per-sample goal)

def lead_in_measurement(exc, cfg, lead):
    if cfg == 3:
        return fr(lead)
    if cfg == 2 and exc == CUR:
        return 2 * fr(lead)
    return Fr(0)


def cvd(p, t):
    r0, a, b, c, t = fr(p["r0"]), fr(p["a"]), fr(p["b"]), fr(p["c"]), fr(t)
    if t >= 0:
        return r0 * (1 + a * t + b * t * t)
    return r0 * (1 + a * t + b * t * t + c * (t - 100) * t ** 3)


def rtd_forward(p, t):
    return float(fr(p["i"]) * (cvd(p, t) + lead_in_measurement(CUR, p["cfg"], p["lead"])))


def sh_resistance(p, t):
    """R with 1/T = a + b ln R + c (ln R)^3 (b, c > 0: strictly increasing cubic in ln R)."""
    a, b, c = p["a"], p["b"], p["c"]
    f = lambda x: a + b * x + c * x ** 3 - 1.0 / t  # noqa: E731
    lo, hi = -50.0, 50.0
    assert f(lo) < 0 < f(hi)
    for _ in range(200):
        mid = 0.5 * (lo + hi)
        if f(mid) < 0:
            lo = mid
        else:
            hi = mid
    x = 0.5 * (lo + hi)
    for _ in range(3):   # Newton polish
        x -= f(x) / (b + 3 * c * x * x)
    return math.exp(x)


def thermistor_forward(p, t):
    r = sh_resistance(p, t)
    rm = fr(r) + lead_in_measurement(p["exc"], p["cfg"], p["lead"])
    if p["exc"] == CUR:
        v = fr(p["value"]) * rm
    else:
        v = fr(p["value"]) * rm / (fr(p["r1"]) + rm)
    return r, float(v)


def bridge_output(code, nu, r0, rl, g, vex, e):
    def wheat(r1, r2, r3, r4):
        return (r3 / (r3 + r4) - r2 / (r1 + r2)) * vex
    name = BRIDGE_NAME[code]
    if name == "FULL_BRIDGE_1":
        return wheat(r0 * (1 - e * g), r0 * (1 + e * g), r0 * (1 - e * g), r0 * (1 + e * g))
    if name == "FULL_BRIDGE_2":
        return wheat(r0 * (1 - e * nu * g), r0 * (1 + e * nu * g), r0 * (1 - e * g), r0 * (1 + e * g))
    if name == "FULL_BRIDGE_3":
        return wheat(r0 * (1 - e * nu * g), r0 * (1 + e * g), r0 * (1 - e * nu * g), r0 * (1 + e * g))
    if name == "HALF_BRIDGE_1":
        return wheat(r0, r0, r0 * (1 - e * nu * g) + rl, r0 * (1 + e * g) + rl)
    if name == "HALF_BRIDGE_2":
        return wheat(r0, r0, r0 * (1 - e * g) + rl, r0 * (1 + e * g) + rl)
    return wheat(r0, r0, r0 + rl, r0 * (1 + e * g) + rl)


def strain_forward(p, e):
    vo = bridge_output(p["cfg"], fr(p["nu"]), fr(p["r0"]), fr(p["rl"]), fr(p["g"]), fr(p["vex"]),
                       fr(e) / fr(p["gain"]))
    return float(fr(p["init"]) + vo)


# ---------------------------------------------------------------------------
# implementation objects

def make_scaling(kind, p):
    if kind == "rtd":
        return S.RtdScaling(p["i"], p["r0"], p["a"], p["b"], p["c"], p["lead"], p["cfg"], RAW)
    if kind == "thermistor":
        return S.ThermistorScaling(p["exc"], p["value"], p["cfg"], p["r1"], p["lead"],
                                   p["a"], p["b"], p["c"], p["offset"], RAW)
    if kind == "strain":
        return S.StrainScaling(p["cfg"], p["nu"], p["r0"], p["rl"], p["init"], p["g"], p["gain"],
                               p["vex"], RAW)
    if kind == "polynomial":
        return S.PolynomialScaling(list(p["coefficients"]), RAW)
    if kind == "table":
        return S.TableScaling(np.array(p["pre"], dtype=float), np.array(p["scaled"], dtype=float), RAW)
    raise ValueError(kind)


def scale_properties(kind, p):
    """NI_Scale[0]_* properties as LabVIEW writes them (names from the from_properties methods)."""
    props = {"NI_Number_Of_Scales": np.uint32(1), "NI_Scaling_Status": "unscaled"}
    pre = "NI_Scale[0]_"
    if kind == "rtd":
        props.update({pre + "Scale_Type": "RTD", pre + "RTD_Current_Excitation": p["i"],
                      pre + "RTD_R0_Nominal_Resistance": p["r0"], pre + "RTD_A": p["a"],
                      pre + "RTD_B": p["b"], pre + "RTD_C": p["c"],
                      pre + "RTD_Lead_Wire_Resistance": p["lead"],
                      pre + "RTD_Resistance_Configuration": np.uint32(p["cfg"]),
                      pre + "RTD_Input_Source": np.uint32(RAW)})
    elif kind == "thermistor":
        t = pre + "Thermistor_"
        props.update({pre + "Scale_Type": "Thermistor", t + "Excitation_Type": np.uint32(p["exc"]),
                      t + "Excitation_Value": p["value"],
                      t + "Resistance_Configuration": np.uint32(p["cfg"]),
                      t + "R1_Reference_Resistance": p["r1"], t + "Lead_Wire_Resistance": p["lead"],
                      t + "A": p["a"], t + "B": p["b"], t + "C": p["c"],
                      t + "Temperature_Offset": p["offset"], t + "Input_Source": np.uint32(RAW)})
    elif kind == "strain":
        t = pre + "Strain_"
        props.update({pre + "Scale_Type": "Strain", t + "Configuration": np.uint32(p["cfg"]),
                      t + "Poisson_Ratio": p["nu"], t + "Gage_Resistance": p["r0"],
                      t + "Lead_Wire_Resistance": p["rl"], t + "Initial_Bridge_Voltage": p["init"],
                      t + "Gage_Factor": p["g"],
                      t + "Bridge_Shunt_Calibration_Gain_Adjustment": p["gain"],
                      t + "Voltage_Excitation": p["vex"], t + "Input_Source": np.uint32(RAW)})
    elif kind == "polynomial":
        cs = p["coefficients"]
        props.update({pre + "Scale_Type": "Polynomial",
                      pre + "Polynomial_Coefficients_Size": np.uint32(len(cs)),
                      pre + "Polynomial_Input_Source": np.uint32(RAW)})
        for k, c in enumerate(cs):
            props[pre + "Polynomial_Coefficients[%d]" % k] = float(c)
    elif kind == "table":
        t = pre + "Table_"
        props.update({pre + "Scale_Type": "Table", t + "Input_Source": np.uint32(RAW),
                      t + "Pre_Scaled_Values_Size": np.uint32(len(p["pre"])),
                      t + "Scaled_Values_Size": np.uint32(len(p["scaled"]))})
        for k, c in enumerate(p["pre"]):
            props[t + "Pre_Scaled_Values[%d]" % k] = float(c)
        for k, c in enumerate(p["scaled"]):
            props[t + "Scaled_Values[%d]" % k] = float(c)
    return props


# ---------------------------------------------------------------------------
# generators (physically meaningful parameter sets)

RTD_STANDARDS = [  # (A, B, C): IEC 60751, US industrial, ITS-90 / SAMA, JIS 1604 old
    (3.9083e-3, -5.775e-7, -4.183e-12), (3.9692e-3, -5.8495e-7, -4.2325e-12),
    (3.9848e-3, -5.870e-7, -4.0e-12), (3.9739e-3, -5.870e-7, -4.4e-12),
    (3.9787e-3, -5.8686e-7, -4.167e-12), (3.81e-3, -6.02e-7, -6.0e-12)]
THERMISTORS = [  # Steinhart-Hart (a, b, c): test-suite part, 10k / 2.2k / 5k / 30k NTCs
    (1.2873851e-3, 2.3575235e-4, 9.497806e-8), (1.129148e-3, 2.34125e-4, 8.76741e-8),
    (1.4733e-3, 2.372e-4, 1.074e-7), (1.28463e-3, 2.36246e-4, 9.2706e-8),
    (9.354011e-4, 2.210605e-4, 1.274720e-7), (1.032e-3, 2.387e-4, 1.580e-7)]


def gen_rtd_params(rng):
    a, b, c = rng.choice(RTD_STANDARDS)
    if rng.random() < 0.3:
        a *= rng.uniform(0.97, 1.03)
        b *= rng.uniform(0.97, 1.03)
        c *= rng.uniform(0.9, 1.1)
    return {"i": rng.choice([1e-3, 1e-4, 5e-4, 2.1e-3, 1e-2, rng.uniform(1e-4, 5e-3)]),
            "r0": rng.choice([100.0, 1000.0, 500.0, 10.0, 50.0, 200.0, rng.uniform(10, 2000)]),
            "a": a, "b": b, "c": c,
            "lead": rng.choice([0.0, 0.0, 0.05, 0.5, 1.234, 10.0, 100.0, rng.uniform(0, 20)]),
            "cfg": rng.choice([2, 3, 4])}


def gen_rtd_temps(rng, n):
    special = [0.0, -200.0, 850.0, -1e-9, 1e-9, -0.5, 0.5, 100.0, -100.0, 660.323, -38.8344, -189.3442]
    ts = [rng.choice(special) for _ in range(max(1, n // 3))]
    while len(ts) < n:
        ts.append(rng.uniform(-200, 0) if rng.random() < 0.5 else rng.uniform(0, 850))
    rng.shuffle(ts)
    return ts


def gen_thermistor_params(rng):
    a, b, c = rng.choice(THERMISTORS)
    if rng.random() < 0.3:
        a *= rng.uniform(0.95, 1.05)
        b *= rng.uniform(0.95, 1.05)
        c *= rng.uniform(0.8, 1.2)
    exc = rng.choice([CUR, VOLT])
    if exc == CUR:
        value = rng.choice([1e-3, 1e-4, 1e-5, 5e-5, rng.uniform(1e-5, 1e-3)])
        r1 = rng.choice([0.0, 10000.0])
    else:
        value = rng.choice([2.5, 5.0, 10.0, 1.0, 3.3, rng.uniform(1, 10)])
        r1 = rng.choice([10000.0, 5000.0, 1000.0, 2252.0, 100000.0, rng.uniform(1e3, 1e5)])
    return {"exc": exc, "value": value, "cfg": rng.choice([2, 3, 4]), "r1": r1,
            "lead": rng.choice([0.0, 0.0, 0.5, 1.0, 10.0, 100.0, rng.uniform(0, 50)]),
            "a": a, "b": b, "c": c, "offset": rng.choice([0.0, 273.15, 1.0, -10.0])}


def gen_thermistor_temps(rng, n):
    special = [273.15, 298.15, 233.15, 423.15, 310.0, 373.15]
    ts = [rng.choice(special) for _ in range(max(1, n // 3))]
    while len(ts) < n:
        ts.append(rng.uniform(233.15, 423.15))
    rng.shuffle(ts)
    return ts


def gen_strain_params(rng, code):
    mode = rng.randrange(6)   # 0 baseline, 1 gain, 2 initial voltage, 3 lead, 4/5 all
    gain = rng.choice([1.123, 0.98, 1.05, 0.9, rng.uniform(0.8, 1.25)]) if mode in (1, 4, 5) else 1.0
    init = rng.choice([0.00135, -0.00135, 1e-4, -2.5e-3, rng.uniform(-5e-3, 5e-3)]) if mode in (2, 4, 5) else 0.0
    rl = rng.choice([1.234, 0.5, 10.0, 0.05, rng.uniform(0, 20)]) if mode in (3, 4, 5) else 0.0
    return {"cfg": code, "nu": rng.choice([0.3, 0.285, 0.33, 0.25, 0.0, 0.5, rng.uniform(0.1, 0.5)]),
            "r0": rng.choice([120.0, 350.0, 1000.0, rng.uniform(100, 1000)]),
            "rl": rl, "init": init,
            "g": rng.choice([2.0, 2.1, 2.13, 2.05, 3.2, rng.uniform(1.8, 2.2)]),
            "gain": gain, "vex": rng.choice([2.5, 5.0, 10.0, 3.3, 1.0, rng.uniform(1, 10)])}


def gen_strains(rng, n):
    special = [0.0, 1e-3, -1e-3, 1e-6, -1e-6, 5e-2, -5e-2, 1e-7]
    es = [rng.choice(special) for _ in range(max(1, n // 3))]
    while len(es) < n:
        es.append(rng.choice([-1, 1]) * 10 ** rng.uniform(-7, -1.3))
    rng.shuffle(es)
    return es


# ---------------------------------------------------------------------------
# per-sample oracle + goal text

def rtd_near_r0(run, rng, nparams):
    """Voltages at and within 20 ulp of I * R0 (0 degC): the measured resistance is then at most a few ulp away
    from R0 on either side of the quadratic / quartic branch point; the scaling must return (nearly) 0 degC, not
    raise (defect D23: the quartic's root near zero is found as 0.0 or a tiny positive number)."""
    import numpy as np
    for _ in range(nparams):
        p = gen_rtd_params(rng)
        v0 = rtd_forward(p, 0.0)
        vs = []
        for k in range(-20, 21):
            v = v0
            for _ in range(abs(k)):
                v = float(np.nextafter(v, np.inf if k > 0 else -np.inf))
            vs.append(v)
        case = {"kind": "rtd", "params": p, "xs": [0.0], "near_r0": True}
        run.count("rtd_near_r0_voltages", len(vs))
        run.cov["evaluations"] += len(vs)
        try:
            sc = make_scaling("rtd", p)
            ys = [float(sc.scale(np.array([v], dtype=np.float64))[0]) for v in vs]
        except Exception as e:     # noqa: BLE001
            run.violation("rtd-raises", "rtd scaling raised %r for a voltage within 20 ulp of I*R0 (0 degC), params %r"
                          % (e, p), case, actual=repr(e))
            continue
        bad = [(v, y) for v, y in zip(vs, ys) if not (math.isfinite(y) and abs(y) <= direct_tol("rtd", 0.0))]
        if bad:
            run.violation("rtd-inverse", "rtd scaling near 0 degC: voltage %r -> %r (params %r)" % (bad[0][0], bad[0][1], p),
                          case, expected=0.0, actual=bad[0][1])


def rtd_two_configurations(run, rng, npairs):
    """Two RTD scalings with DIFFERENT Callendar-Van Dusen coefficients are given the SAME voltages (same
    excitation, wiring and lead resistance, hence the same measured resistances, all on the quartic branch), one
    after the other in one process: each must return the temperature of ITS OWN law (state shared between scaling
    objects - a cache keyed by the resistance only - would hand the second one the first one's roots)."""
    import numpy as np
    for _ in range(npairs):
        p1 = gen_rtd_params(rng)
        p2 = dict(p1)
        p2["a"] = p1["a"] * rng.choice([0.96, 1.03, 1.05])
        p2["b"] = p1["b"] * rng.choice([0.9, 1.1])
        p2["c"] = p1["c"] * rng.choice([0.8, 1.2])
        temps1 = [rng.uniform(-195.0, -1.0) for _ in range(5)]
        vs = [rtd_forward(p1, x) for x in temps1]
        # the temperatures these voltages mean under the second law (bisection on its own forward law)
        temps2 = []
        for v in vs:
            lo, hi = -250.0, 60.0
            if not (rtd_forward(p2, lo) < v < rtd_forward(p2, hi)):
                temps2.append(None)
                continue
            for _k in range(200):
                mid = 0.5 * (lo + hi)
                if rtd_forward(p2, mid) < v:
                    lo = mid
                else:
                    hi = mid
            temps2.append(0.5 * (lo + hi))
        case = {"kind": "rtd", "params": p2, "xs": [x for x in temps2 if x is not None], "after": p1}
        run.count("rtd_two_configuration_pairs")
        run.cov["evaluations"] += len(vs)
        try:
            y1 = [float(u) for u in make_scaling("rtd", p1).scale(np.array(vs, dtype=np.float64))]
            y2 = [float(u) for u in make_scaling("rtd", p2).scale(np.array(vs, dtype=np.float64))]
        except Exception as e:     # noqa: BLE001
            run.violation("rtd-raises", "rtd scaling raised %r (two configurations, same voltages)" % (e,), case,
                          actual=repr(e))
            continue
        for x1, x2, v, a1, a2 in zip(temps1, temps2, vs, y1, y2):
            if abs(a1 - x1) > direct_tol("rtd", x1):
                run.violation("rtd-inverse", "rtd scaling: voltage %r -> %r, law gives %r (params %r)" % (v, a1, x1, p1),
                              case, expected=x1, actual=a1)
                break
            if x2 is not None and x2 < -0.5 and abs(a2 - x2) > direct_tol("rtd", x2):
                run.violation("rtd-inverse", "a second RtdScaling with other coefficients, scaling the same voltage "
                              "after the first: %r -> %r, its own law gives %r (first scaling's answer %r; params %r)"
                              % (v, a2, x2, a1, p2), case, expected=x2, actual=a2)
                break


def direct_tol(kind, x):
    if kind == "strain":
        return 1e-6 * abs(x) + 1e-12
    return 1e-6 * (1 + abs(x))


def rtd_goals(p, t, v, y):
    """(corr goal, forward goal, flags) for one RTD sample; None goal if not expressible."""
    args = "%s %s %s %s %s %s %s %s" % (rh(p["i"]), rh(p["r0"]), rh(p["a"]), rh(p["b"]), rh(p["c"]),
                                         rh(p["lead"]), zc(p["cfg"]), rh(v))
    tol = CORR_REL * (1 + abs(y))
    rt = fr(v) / fr(p["i"])
    if p["cfg"] == 3:
        rt -= fr(p["lead"])
    elif p["cfg"] == 2:
        rt -= 2 * fr(p["lead"])
    flags = {}
    if rt >= fr(p["r0"]):          # the model's (exact) branch
        flags["branch"] = "quadratic"
        corr = ("Goal forall pr, corr (rtd_scale pr %s) %s %s. Proof. intro pr. apply rtd_scale_corr_pos; "
                "[unf; lra | unf; num]. Qed." % (args, rh(y), rh(tol)))
    else:
        flags["branch"] = "quartic"
        lo = y - tol / 2
        hi = min(y + tol / 2, 0.0)
        if not lo < hi:            # implementation answered >= 0 on the model's quartic branch
            lo = min(lo, -tol / 2)
        hi_tac = "rewrite rtd_quartic_expand; unf; lra" if hi == 0.0 else "rewrite rtd_quartic_expand; unf; num"
        coeffs = "(rtd_quartic_coefficients %s %s %s %s (rtd_r_t %s %s %s %s))" % (
            rh(p["a"]), rh(p["b"]), rh(p["c"]), rh(p["r0"]), rh(p["i"]), rh(p["lead"]), zc(p["cfg"]), rh(v))
        corr = ("Goal forall pr, small_roots_ok (pr %s) %s -> corr (rtd_scale pr %s) %s %s. "
                "Proof. intros pr Hok. apply (rtd_scale_corr_neg pr %s %s %s %s %s); "
                "[lra|lra|lra|lra|unfold RTD_ROOT_TOLERANCE; lra|unf; lra|lra|lra|lra|lra|"
                "rewrite rtd_quartic_expand; unf; num|%s|exact Hok]. Qed."
                % (coeffs, coeffs, args, rh(y), rh(tol), args, rh(y), rh(tol), rh(lo), rh(hi), hi_tac))
    sign_lemma = "cvd_eval_pos" if t >= 0 else "cvd_eval_neg"
    fwd = ("Goal Rabs (current_excitation_voltage %s %s %s (cvd %s %s %s %s %s) - %s) <= %s. "
           "Proof. rewrite %s by lra. unf. num. Qed."
           % (rh(p["i"]), WIRING[p["cfg"]], rh(p["lead"]), rh(p["r0"]), rh(p["a"]), rh(p["b"]), rh(p["c"]),
              rh(t), rh(v), rh(4e-16 * abs(v) + 1e-300), sign_lemma))
    return corr, fwd, flags


def thermistor_goals(p, t, r, v, y):
    tol = CORR_REL * (1 + abs(y))
    corr = ("Goal corr (thermistor_scale %s %s %s %s %s %s %s %s %s %s) %s %s. Proof. unf. num. Qed."
            % (zc(p["exc"]), rh(p["value"]), zc(p["cfg"]), rh(p["r1"]), rh(p["lead"]), rh(p["a"]),
               rh(p["b"]), rh(p["c"]), rh(p["offset"]), rh(v), rh(y), rh(tol)))
    law = "current_excitation_voltage %s %s %s %s" % (rh(p["value"]), WIRING[p["cfg"]], rh(p["lead"]), rh(r)) \
        if p["exc"] == CUR else \
        "voltage_divider_voltage %s %s %s %s %s" % (rh(p["value"]), rh(p["r1"]), WIRING[p["cfg"]],
                                                    rh(p["lead"]), rh(r))
    fwd = ("Goal Rabs (steinhart_hart_recip_T %s %s %s %s - / %s) <= %s /\\ Rabs (%s - %s) <= %s. "
           "Proof. split; unf; num. Qed."
           % (rh(p["a"]), rh(p["b"]), rh(p["c"]), rh(r), rh(t), rh(1e-13 / t),
              law, rh(v), rh(4e-16 * abs(v) + 1e-300)))
    return corr, fwd, {}


def strain_args(p):
    return "%s %s %s %s %s %s %s %s" % (BRIDGE_NAME[p["cfg"]], rh(p["nu"]), rh(p["r0"]), rh(p["rl"]),
                                        rh(p["init"]), rh(p["g"]), rh(p["gain"]), rh(p["vex"]))


def strain_goals(p, e, v, y):
    tol = CORR_REL * abs(y) + 1e-15
    corr = ("Goal corr (strain_scale %s %s) %s %s. Proof. unfold strain_scale. "
            "rewrite strain_voltage_out_eq. unf. num. Qed." % (strain_args(p), rh(v), rh(y), rh(tol)))
    fwd = ("Goal corr (strain_measured_voltage %s %s) %s %s. Proof. unf. num. Qed."
           % (strain_args(p), rh(e), rh(v), rh(4e-16 * abs(v) + 1e-300)))
    return corr, fwd, {}


def run_sensor(run, kind, plist, label, collect):
    """plist: list of (params, [x...]).  Implementation on arrays, direct oracle, goals."""
    for p, xs in plist:
        vs, aux = [], []
        for x in xs:
            if kind == "rtd":
                vs.append(rtd_forward(p, x))
                aux.append(None)
            elif kind == "thermistor":
                r, v = thermistor_forward(p, x)
                vs.append(v)
                aux.append(r)
            else:
                vs.append(strain_forward(p, x))
                aux.append(None)
        case0 = {"kind": kind, "params": p, "xs": list(xs)}
        try:
            sc = make_scaling(kind, p)
            volts = np.array(vs, dtype=np.float64)
            ys = [float(u) for u in sc.scale(volts)]
            # the same values must come out one at a time (element-wise code paths)
            ys1 = [float(sc.scale(np.array([v], dtype=np.float64))[0]) for v in vs]
            # ... and when the SAME voltage array is scaled again (a scaling that computes in place on the
            # caller's float64 array returns the right quantity once and garbage afterwards)
            again = [float(u) for u in sc.scale(volts)]
            if [struct.pack("<d", a) for a in again] != [struct.pack("<d", a) for a in ys]:
                k = next(i for i, (a, b) in enumerate(zip(again, ys)) if struct.pack("<d", a) != struct.pack("<d", b))
                run.violation(kind + "-inverse",
                              "%s scaling applied twice to the same float64 voltage array: first %r, then %r for "
                              "voltage %r (params %r) - the array passed in was modified" % (kind, ys[k], again[k], vs[k], p),
                              case0, expected=ys[k], actual=again[k])
        except Exception as e:  # a physically meaningful input must not raise
            run.violation(kind + "-raises", "%s scaling raised %r" % (kind, e), case0, actual=repr(e))
            run.cov["evaluations"] += len(xs)
            continue
        for x, v, r, y, y1 in zip(xs, vs, aux, ys, ys1):
            run.cov["evaluations"] += 1
            case = {"kind": kind, "params": p, "xs": [x]}
            want = x - p["offset"] if kind == "thermistor" else x
            ok = math.isfinite(y) and abs(y - want) <= direct_tol(kind, want)
            if not ok:
                run.violation(kind + "-inverse",
                              "%s scaling does not return the quantity that produced the voltage: "
                              "params %r, quantity %r -> voltage %r -> %r" % (kind, p, want, v, y),
                              case, expected=want, actual=y)
            if not (y == y1 or (math.isnan(y) and math.isnan(y1))):
                run.violation(kind + "-elementwise", "%s: value in an array %r differs from value alone %r"
                              % (kind, y, y1), case, expected=y1, actual=y)
            if not math.isfinite(y):
                continue
            if kind == "rtd":
                corr, fwd, flags = rtd_goals(p, x, v, y)
                nontrivial = x < 0 or (p["lead"] > 0 and p["cfg"] != 4)
                run.count("rtd_" + flags["branch"])
                run.count("rtd_%dwire%s" % (p["cfg"], "_lead" if p["lead"] > 0 else ""))
            elif kind == "thermistor":
                corr, fwd, flags = thermistor_goals(p, x, r, v, y)
                nontrivial = p["exc"] == VOLT or (p["lead"] > 0 and p["cfg"] != 4)
                run.count("thermistor_%s_%dwire%s" % ("current" if p["exc"] == CUR else "voltage", p["cfg"],
                                                      "_lead" if p["lead"] > 0 else ""))
            else:
                corr, fwd, flags = strain_goals(p, x, v, y)
                nontrivial = p["gain"] != 1.0 or p["init"] != 0.0 or p["rl"] != 0.0
                run.count("strain_%s%s%s%s" % (BRIDGE_NAME[p["cfg"]].lower(),
                                                "_gain" if p["gain"] != 1.0 else "",
                                                "_init" if p["init"] != 0.0 else "",
                                                "_lead" if p["rl"] != 0.0 else ""))
            if nontrivial:
                run.cov["distinct_nontrivial"] += 1
            goals = [("corr", corr)]
            if run.thorough or len(collect) % 3 == 0:      # law goals: all (thorough) / a third (quick)
                goals.append(("law", fwd))
            collect.append({"kind": kind, "case": case, "ok": ok, "y": y, "v": v, "want": want, "goals": goals})
    run.count(label, sum(len(xs) for _, xs in plist))


# ---------------------------------------------------------------------------
# polynomial and table

def exact_horner(cs, x):
    acc = Fr(0)
    for c in reversed(cs):
        acc = fr(c) + acc * fr(x)
    return acc


def exact_table(pre, scaled, x):
    """clamped piecewise-linear interpolation through (scaled_i, pre_i); None if not monotonic."""
    xs, ys = list(scaled), list(pre)
    inc = all(a < b for a, b in zip(xs, xs[1:]))
    if not inc:
        xs.reverse()
        ys.reverse()
        if not all(a < b for a, b in zip(xs, xs[1:])):
            return None
    x = fr(x)
    if x <= fr(xs[0]):
        return fr(ys[0])
    if x >= fr(xs[-1]):
        return fr(ys[-1])
    for j in range(len(xs) - 1):
        if fr(xs[j]) <= x < fr(xs[j + 1]):
            return fr(ys[j]) + (fr(ys[j + 1]) - fr(ys[j])) * (x - fr(xs[j])) / (fr(xs[j + 1]) - fr(xs[j]))
    raise AssertionError


def table_goal(pre, scaled, x, y, tol):
    xs, ys = list(scaled), list(pre)
    inc = all(a < b for a, b in zip(xs, xs[1:]))
    steps = []
    if inc:
        steps.append("rewrite table_scale_eval_incr by (cbv [strictly_increasing]; first [exact I | lra]).")
    else:
        xs.reverse()
        ys.reverse()
        steps.append("rewrite table_scale_eval_decr by (cbv [strictly_increasing rev app]; first [exact I | lra]). "
                     "cbv [rev app].")
    if x <= xs[0]:
        steps.append("rewrite interp_eval_left by (first [lra | reflexivity]).")
    else:
        steps.append("rewrite interp_eval_right by (first [lra | reflexivity]).")
        j = 1
        while j < len(xs) and xs[j] <= x:
            steps.append("rewrite interp_from_eval_ge by lra.")
            j += 1
        if j < len(xs):
            steps.append("rewrite interp_from_eval_lt by lra.")
        else:
            steps.append("cbn [interp_from].")
    return ("Goal corr (table_scale %s %s %s) %s %s. Proof. %s unf. num. Qed."
            % (rlist(pre), rlist(scaled), rh(x), rh(y), rh(tol), " ".join(steps)))


def run_polynomial(run, rng, n, collect):
    for k in range(n):
        deg = rng.choice([0, 0, 1, 2, 3, 4, 4, 5, 7, 10]) if k else 0
        ncoef = 0 if k == 0 else deg + 1        # k == 0: the no-coefficient case
        cs = [rng.choice([0.0, 1.0, -1.0, rng.uniform(-10, 10), rng.uniform(-1e-3, 1e-3), rng.uniform(-1e3, 1e3)])
              for _ in range(ncoef)]
        xs = [rng.choice([0.0, 1.0, -1.0, rng.uniform(-10, 10), rng.uniform(-1e-3, 1e-3), rng.uniform(-100, 100)])
              for _ in range(4)]
        p = {"coefficients": cs}
        case0 = {"kind": "polynomial", "params": p, "xs": xs}
        try:
            ys = [float(u) for u in make_scaling("polynomial", p).scale(np.array(xs, dtype=np.float64))]
        except Exception as e:
            run.violation("polynomial-raises", "polynomial scaling raised %r" % (e,), case0, actual=repr(e))
            continue
        for x, y in zip(xs, ys):
            run.cov["evaluations"] += 1
            want = exact_horner(cs, x)
            mag = sum(abs(fr(c)) * abs(fr(x)) ** i for i, c in enumerate(cs))
            tol = 1e-13 * float(mag) + 1e-300
            case = {"kind": "polynomial", "params": p, "xs": [x]}
            ok = math.isfinite(y) and abs(fr(y) - want) <= fr(tol)
            if not ok:
                run.violation("polynomial-horner", "polynomial %r at %r: implementation %r, Horner %r"
                              % (cs, x, y, float(want)), case, expected=float(want), actual=y)
            if len(cs) >= 3:
                run.cov["distinct_nontrivial"] += 1
            if math.isfinite(y):
                goal = ("Goal Rabs (polynomial_scale %s %s - %s) <= %s. Proof. unf. num. Qed."
                        % (rlist(cs), rh(x), rh(y), rh(2 * tol)))
                collect.append({"kind": "polynomial", "case": case, "ok": ok, "y": y, "v": x,
                                "want": float(want), "goals": [("corr", goal)]})
        run.count("polynomial_degree_%s" % ("none" if not cs else len(cs) - 1), len(xs))


def run_table(run, rng, n, collect):
    for k in range(n):
        m = rng.choice([1, 2, 2, 3, 4, 5, 8])
        knots = sorted(set(rng.choice([round(rng.uniform(-10, 10), 1), rng.uniform(-100, 100), rng.uniform(-1, 1)])
                           for _ in range(m)))
        pre = [rng.choice([rng.uniform(-10, 10), float(rng.randint(-5, 5)), rng.uniform(-1e3, 1e3)]) for _ in knots]
        shape = rng.choice(["increasing", "increasing", "decreasing", "decreasing", "unordered", "repeated"])
        scaled = list(knots)
        if shape == "decreasing":
            scaled.reverse()
        elif shape == "unordered" and len(scaled) >= 3:
            scaled[0], scaled[1] = scaled[1], scaled[0]
        elif shape == "repeated" and len(scaled) >= 2:
            scaled[1] = scaled[0]
        else:
            shape = "increasing" if shape in ("unordered", "repeated") else shape
        p = {"pre": pre, "scaled": scaled}
        lo, hi = min(knots), max(knots)
        xs = [lo - 1.0, hi + 1.0, lo, hi, rng.choice(knots), math.nextafter(lo, -math.inf),
              math.nextafter(hi, math.inf)]
        xs += [rng.uniform(lo - 2, hi + 2) for _ in range(3)]
        if len(knots) >= 2:
            j = rng.randrange(len(knots) - 1)
            xs += [0.5 * (knots[j] + knots[j + 1]), math.nextafter(knots[j + 1], -math.inf)]
        case0 = {"kind": "table", "params": p, "xs": xs}
        run.count("table_" + shape, len(xs))
        want0 = exact_table(pre, scaled, xs[0])
        try:
            sc = make_scaling("table", p)
        except ValueError as e:
            run.cov["evaluations"] += 1
            if want0 is not None:
                run.violation("table-raises", "monotonic table rejected: %r" % (e,), case0, actual=repr(e))
            else:
                goal = ("Goal table_scale %s %s %s = None. Proof. apply table_scale_eval_error; "
                        "cbv [strictly_increasing rev app]; lra. Qed." % (rlist(pre), rlist(scaled), rh(xs[0])))
                collect.append({"kind": "table", "case": {"kind": "table", "params": p, "xs": xs[:1]}, "ok": True,
                                "y": None, "v": xs[0], "want": None, "goals": [("corr", goal)]})
            continue
        if want0 is None:
            run.cov["evaluations"] += 1
            run.violation("table-accepts", "non-monotonic table accepted: scaled values %r" % (scaled,), case0,
                          expected="ValueError", actual="accepted")
            continue
        ys = [float(u) for u in sc.scale(np.array(xs, dtype=np.float64))]
        for x, y in zip(xs, ys):
            run.cov["evaluations"] += 1
            want = exact_table(pre, scaled, x)
            tol = 1e-13 * (1 + max(abs(u) for u in pre))
            case = {"kind": "table", "params": p, "xs": [x]}
            ok = math.isfinite(y) and abs(fr(y) - want) <= fr(tol)
            if not ok:
                run.violation("table-interp", "table (scaled %r -> pre-scaled %r) at %r: implementation %r, "
                              "clamped linear interpolation %r" % (scaled, pre, x, y, float(want)),
                              case, expected=float(want), actual=y)
            if shape == "decreasing" or x <= lo or x >= hi:
                run.cov["distinct_nontrivial"] += 1
            if math.isfinite(y):
                collect.append({"kind": "table", "case": case, "ok": ok, "y": y, "v": x, "want": float(want),
                                "goals": [("corr", table_goal(pre, scaled, x, y, 2 * tol))]})


# ---------------------------------------------------------------------------
# kernel-checked correspondence

def check_goals(run, collect, per_file=200, max_rounds=4):
    import time
    t0 = time.time()
    """Every goal is one line `Goal ... Qed.` of a generated file; a file that does not
    compile names the failing line, which is removed and the file re-run."""
    goals = []                       # (sample index, tag, text)
    for i, s in enumerate(collect):
        for tag, text in s["goals"]:
            assert "\n" not in text
            goals.append((i, tag, text))
    shards = {}
    per_file = max(20, min(per_file, -(-len(goals) // H.NCPU)))   # <= 200 goals per file, spread over the cores
    for k in range(0, len(goals), per_file):
        shards["c17_%04d" % (k // per_file)] = goals[k:k + per_file]
    failed = []                      # (sample index, tag, coq message)
    unchecked = []
    pending = dict(shards)
    for rnd in range(max_rounds + 1):
        if not pending:
            break
        files = [(name, HEADER + "\n".join(g[2] for g in gl) + "\n") for name, gl in sorted(pending.items())]
        results = H.coq_eval_files(run.pid, files, timeout=900)
        nxt = {}
        for name, rc, out in results:
            gl = pending[name]
            if rc == 0:
                continue
            m = re.search(r'line (\d+), characters', out)
            idx = int(m.group(1)) - HEADER_LINES - 1 if m else -1
            if not (0 <= idx < len(gl)):
                unchecked.append((name, [g[0] for g in gl], out[-1500:]))
                continue
            failed.append((gl[idx][0], gl[idx][1], out[-1200:]))
            rest = gl[:idx] + gl[idx + 1:]
            if rest:
                if rnd == max_rounds:
                    unchecked.append((name, [g[0] for g in rest], "more than %d failing goals" % max_rounds))
                else:
                    nxt[name] = rest
        pending = nxt
    bad_samples = {i for i, _, _ in failed}
    skipped = {i for _, ids, _ in unchecked for i in ids}
    run.cov["traces_validated_against_impl"] += len([i for i in range(len(collect))
                                                     if i not in bad_samples and i not in skipped])
    run.cov["goals_checked"] = run.cov.get("goals_checked", 0) + len(goals)
    run.notes.append("correspondence: %d goals in %d files, %.1f s" % (len(goals), len(shards), time.time() - t0))
    for i, tag, msg in failed[:6]:
        s = collect[i]
        what = ("model and implementation disagree" if tag == "corr"
                else "Python forward law and Coq law disagree")
        run.violation("corr-" + s["kind"] if tag == "corr" else "law-" + s["kind"],
                      "%s (%s): input %r, implementation %r" % (what, s["kind"], s["v"], s["y"]),
                      s["case"], kind="correspondence-broken",
                      theorem="Model.SensorsR vs nptdms.scaling (%s goal)" % tag,
                      expected=s["want"], actual=s["y"], model=msg, no_input=s["ok"])
    for name, ids, msg in unchecked[:2]:
        run.violation("corr-error", "correspondence file %s: %d samples not checked" % (name, len(set(ids))),
                      {"log": msg}, kind="correspondence-broken", theorem="correspondence:" + name, no_input=True)


# ---------------------------------------------------------------------------
# binary64 models (Model/SensorsF.v) against the implementation, bit for bit

IMPORTS_F = ("From Coq Require Import ZArith List PrimFloat.\nFrom NpTdms Require Import Model.SensorsF.\n"
             "Import ListNotations.\nOpen Scope Z_scope.\n")


def cf(x):
    """python float -> Coq PrimFloat term (bit-exact; NaNs identified)"""
    x = float(x)
    if x != x:
        return "nan"
    if x in (float("inf"), float("-inf")):
        return "infinity" if x > 0 else "neg_infinity"
    return "(%s)%%float" % x.hex()


def cof(x):
    return "None" if x is None else "(Some %s)" % cf(x)


def rtd_float_case(p, v):
    """One voltage through RtdScaling.scale; which branch ran is observed by wrapping
    _solve_quartic_form (its argument is the r_t of the implementation)."""
    seen = []
    orig = S.RtdScaling._solve_quartic_form

    def spy(self, r_t):
        seen.append(float(r_t))
        return orig(self, r_t)
    S.RtdScaling._solve_quartic_form = spy
    try:
        y = float(make_scaling("rtd", p).scale(np.array([v], dtype=np.float64))[0])
    except ValueError:          # the quartic branch may refuse (defect D23 family); the branch was still observed
        y = None
    finally:
        S.RtdScaling._solve_quartic_form = orig
    a2 = p["a"] ** 2            # the expression of scaling.py, evaluated by the same Python
    # hypothesis of Props/C17_float.v on the C library's pow: within one ulp, |a2 - a*a| <= 2^-52 a*a
    pow_ok = abs(fr(a2) - fr(p["a"]) ** 2) <= Fr(1, 2 ** 52) * fr(p["a"]) ** 2
    rtq = seen[0] if seen else None
    term = "(%s, %s, %s, %s, %s, %s, %d, %s, %s, %s)" % (
        cf(p["i"]), cf(p["r0"]), cf(p["a"]), cf(a2), cf(p["b"]), cf(p["lead"]), p["cfg"], cf(v),
        cof(rtq), cof(None if seen else y))
    meta = {"op": "float_tie", "kind": "rtd", "params": p, "v": float(v).hex(), "a_pow_2": float(a2).hex(),
            "quartic_r_t": None if rtq is None else rtq.hex(), "impl": None if y is None else y.hex(),
            "pow_within_one_ulp": pow_ok}
    return term, meta, (a2 != p["a"] * p["a"]), bool(seen)


def strain_float_case(p, v):
    y = float(make_scaling("strain", p).scale(np.array([v], dtype=np.float64))[0])
    term = "(%d, %s, %s, %s, %s, %s, %s, %s, %s, %s)" % (
        p["cfg"], cf(p["nu"]), cf(p["r0"]), cf(p["rl"]), cf(p["init"]), cf(p["g"]), cf(p["gain"]), cf(p["vex"]),
        cf(v), cf(y))
    meta = {"op": "float_tie", "kind": "strain", "params": p, "v": float(v).hex(), "impl": y.hex()}
    return term, meta


def float_tie(run, rng, only=None):
    """~600 (parameters, voltage) samples per scaling kind from the generators above, evaluated with the PrimFloat
    model inside Coq (vm_compute) and compared with float.hex() of the implementation's result."""
    n = run.pick(600, 6000)
    rtd_cases, rtd_meta, st_cases, st_meta = [], [], [], []
    if only is None:
        rtd_in = []
        while len(rtd_in) < 2 * n:          # about half of the temperatures are below 0 degC (quartic branch)
            p = gen_rtd_params(rng)
            for t in gen_rtd_temps(rng, 6):
                rtd_in.append((p, rtd_forward(p, t)))
            # voltages a few ulp around I*R0: both sides of the float comparison r_t >= r_0
            v0 = rtd_forward(p, 0.0)
            for k in (-2, -1, 1, 2):
                v = v0
                for _ in range(abs(k)):
                    v = float(np.nextafter(v, np.inf if k > 0 else -np.inf))
                rtd_in.append((p, v))
        st_in = []
        per = -(-n // len(BRIDGES))
        for _, code in BRIDGES:
            k = 0
            while k < per:
                p = gen_strain_params(rng, code)
                for e in gen_strains(rng, 6):
                    st_in.append((p, strain_forward(p, e)))
                    k += 1
    else:
        rtd_in = [(only["params"], float.fromhex(only["v"]))] if only["kind"] == "rtd" else []
        st_in = [(only["params"], float.fromhex(only["v"]))] if only["kind"] == "strain" else []
    pow_differs = 0
    for p, v in rtd_in:
        term, meta, differs, quartic = rtd_float_case(p, v)
        rtd_cases.append(term)
        rtd_meta.append(meta)
        pow_differs += differs
        if not meta["pow_within_one_ulp"]:
            run.violation("pow-assumption", "a ** 2 = %s is more than one ulp away from a*a for a = %r: the hypothesis on "
                          "a2 of Props/C17_float.v (rtd_quadratic_rounding) does not hold on this platform"
                          % (meta["a_pow_2"], p["a"]), meta, kind="correspondence-broken",
                          theorem="Props/C17_float.v hypothesis |a2 - a^2| <= 2^-52 a^2", no_input=True)
        run.count("float_tie_rtd_%s" % ("quartic_branch_r_t_only" if quartic else "quadratic"))
    for p, v in st_in:
        term, meta = strain_float_case(p, v)
        st_cases.append(term)
        st_meta.append(meta)
        run.count("float_tie_strain_%s" % BRIDGE_NAME[p["cfg"]].lower())
    run.cov["evaluations"] += len(rtd_cases) + len(st_cases)
    if pow_differs:
        run.count("float_tie_rtd_a_pow_2_not_a_times_a", pow_differs)
    for cases, meta, ty, fn, tag in (
            (rtd_cases, rtd_meta, "float * float * float * float * float * float * Z * float * option float * option float",
             "check_rtd_F", "ftie_rtd"),
            (st_cases, st_meta, "Z * float * float * float * float * float * float * float * float * float",
             "check_strain_F", "ftie_strain")):
        if not cases:
            continue
        bad, errors = H.run_sharded(run.pid, IMPORTS_F, ty, fn, cases, shard=max(50, -(-len(cases) // H.NCPU)), tag=tag)
        run.corr_errors(errors)
        run.cov["traces_validated_against_impl"] += len(cases) - len(bad)
        run.count("float_tie_model_compared", len(cases))
        for j in bad[:3]:
            m = meta[j]
            c = cases[j]
            if m["kind"] == "rtd":
                show = ["let '(i, r0, a, a2, b, lead, cfg, v, _, _) := %s in "
                        "(rtd_r_t_F i lead cfg v, rtd_scale_F i r0 a a2 b lead cfg v)" % c]
            else:
                show = ["let '(cfg, nu, r0, rl, init, g, gain, vex, v, _) := %s in "
                        "strain_scale_F cfg nu r0 rl init g gain vex v" % c]
            rc, out = H.coq_print_terms(run.pid, IMPORTS_F, show, tag="show_%s%d" % (tag, j))
            run.violation("corr-float-" + m["kind"],
                          "Model.SensorsF and the implementation disagree bit-wise (%s): params %r, voltage %s, "
                          "implementation %s" % (m["kind"], m["params"], m["v"], m["impl"]),
                          m, kind="correspondence-broken", theorem="Model.SensorsF vs nptdms.scaling (float_tie)",
                          expected=m["impl"], model=out[-800:], no_input=True)
        if bad:
            run.notes.append("float_tie %s: model/implementation disagree on %d of %d samples" % (tag, len(bad), len(cases)))


# ---------------------------------------------------------------------------
# through TdmsWriter / TdmsFile (from_properties name mapping)

def end_to_end(run, cases):
    from nptdms import TdmsWriter, TdmsFile, ChannelObject
    for kind, p, vs in cases:
        run.cov["evaluations"] += 1
        run.count("end_to_end_" + kind)
        case = {"kind": "e2e", "scale": kind, "params": p, "vs": list(vs)}
        try:
            data = np.array(vs, dtype=np.float64)
            direct = make_scaling(kind, p).scale(data.copy())
            buf = io.BytesIO()
            with TdmsWriter(buf) as w:
                w.write_segment([ChannelObject("g", "c", data, scale_properties(kind, p))])
            buf.seek(0)
            got = TdmsFile.read(buf)["g"]["c"][:]
            ok = got.shape == direct.shape and bool(np.all((got == direct) | (np.isnan(got) & np.isnan(direct))))
            detail = None if ok else {"channel": [float(u) for u in got], "direct": [float(u) for u in direct]}
        except Exception as e:
            ok, detail = False, repr(e)
        if ok:
            run.cov["distinct_nontrivial"] += 1
        else:
            run.violation("end-to-end", "channel[:] with NI_Scale properties differs from direct scale() for %s: %r"
                          % (kind, detail), case, actual=detail)


# ---------------------------------------------------------------------------

def replay(run, case):
    collect = []
    kind = case.get("kind") if case.get("op") != "float_tie" else "float_tie"
    if kind in ("rtd", "thermistor", "strain"):
        run_sensor(run, kind, [(case["params"], case["xs"])], "replay", collect)
    elif kind == "polynomial":
        p, xs = case["params"], case["xs"]
        ys = make_scaling("polynomial", p).scale(np.array(xs, dtype=np.float64))
        for x, y in zip(xs, ys):
            want = exact_horner(p["coefficients"], x)
            print("polynomial", p["coefficients"], "at", x, "->", float(y), "Horner", float(want))
            mag = sum(abs(fr(c)) * abs(fr(x)) ** i for i, c in enumerate(p["coefficients"]))
            if not abs(fr(float(y)) - want) <= fr(1e-13 * float(mag) + 1e-300):
                run.violation("polynomial-horner", "polynomial differs from Horner", case,
                              expected=float(want), actual=float(y))
    elif kind == "table":
        p, xs = case["params"], case["xs"]
        want = [exact_table(p["pre"], p["scaled"], x) for x in xs]
        try:
            ys = [float(u) for u in make_scaling("table", p).scale(np.array(xs, dtype=np.float64))]
        except ValueError:
            ys = None
        print("table", p, "at", xs, "->", ys, "expected", [None if w is None else float(w) for w in want])
        if ys is None and want[0] is not None:
            run.violation("table-raises", "monotonic table rejected", case)
        elif ys is not None and want[0] is None:
            run.violation("table-accepts", "non-monotonic table accepted", case)
        elif ys is not None:
            tol = 1e-13 * (1 + max(abs(u) for u in p["pre"]))
            for y, w in zip(ys, want):
                if not abs(fr(y) - w) <= fr(tol):
                    run.violation("table-interp", "table differs from clamped interpolation", case,
                                  expected=float(w), actual=y)
    elif kind == "e2e":
        end_to_end(run, [(case["scale"], case["params"], case["vs"])])
    elif case.get("op") == "float_tie":
        float_tie(run, None, only=case)
        return
    else:
        print("replay: nothing to re-run for", kind)
        return
    for s in collect:
        print("replay: %s quantity %r -> voltage %r -> implementation %r" % (s["kind"], s["want"], s["v"], s["y"]))
    check_goals(run, collect)


def main():
    run = H.Run("C17")
    run.prove()
    if run.replay:
        replay(run, json.load(open(run.replay))["case"])
        run.finish()
    rng = random.Random(run.seed)
    collect = []
    n_sets, per_set = run.pick(40, 500), 6
    rtd = [(gen_rtd_params(rng), None) for _ in range(n_sets)]
    # the IEC 60751 set of the test-suite first, all wirings
    for k, cfg in enumerate((2, 3, 4)):
        rtd[k][0].update({"i": 1e-3, "r0": 100.0, "a": 3.9083e-3, "b": -5.775e-7, "c": -4.183e-12,
                          "lead": 100.0, "cfg": cfg})
    rtd = [(p, gen_rtd_temps(rng, per_set)) for p, _ in rtd]
    run_sensor(run, "rtd", rtd, "rtd_samples", collect)
    rtd_near_r0(run, rng, run.pick(60, 800))
    rtd_two_configurations(run, rng, run.pick(40, 600))
    th = [(gen_thermistor_params(rng), gen_thermistor_temps(rng, per_set)) for _ in range(n_sets)]
    run_sensor(run, "thermistor", th, "thermistor_samples", collect)
    n_strain = run.pick(8, 80)
    st = [(gen_strain_params(rng, code), gen_strains(rng, per_set)) for _, code in BRIDGES for _ in range(n_strain)]
    run_sensor(run, "strain", st, "strain_samples", collect)
    run_polynomial(run, rng, run.pick(30, 300), collect)
    run_table(run, rng, run.pick(20, 250), collect)
    check_goals(run, collect)
    float_tie(run, random.Random(run.seed + 17))
    # end to end: one file per scaling type and a few parameter sets
    e2e = []
    for p, xs in rtd[:run.pick(6, 40)]:
        e2e.append(("rtd", p, [rtd_forward(p, x) for x in xs]))
    for p, xs in th[:run.pick(6, 40)]:
        e2e.append(("thermistor", p, [thermistor_forward(p, x)[1] for x in xs]))
    for p, xs in st[::max(1, len(st) // run.pick(14, 70))]:
        e2e.append(("strain", p, [strain_forward(p, x) for x in xs]))
    e2e.append(("polynomial", {"coefficients": [1.0, -2.5, 0.0, 3.0]}, [0.0, 1.0, -2.0, 0.5]))
    e2e.append(("polynomial", {"coefficients": []}, [0.0, 1.0]))
    e2e.append(("table", {"pre": [2.0, 4.0, 8.0], "scaled": [1.0, 2.0, 3.0]}, [0.5, 1.0, 1.5, 2.5, 3.0, 3.5]))
    e2e.append(("table", {"pre": [8.0, 4.0, 2.0], "scaled": [3.0, 2.0, 1.0]}, [0.5, 1.0, 1.5, 2.5, 3.0, 3.5]))
    end_to_end(run, e2e)
    run.cov["rule"] = (
        "samples = parameter set x quantity; forward law in exact rationals (thermistor: float64 + Newton), "
        "implementation scale() on the array and one at a time, direct oracle |impl - x| <= 1e-6 (1 + |x|) "
        "(strain: 1e-6 |x| + 1e-12); every sample has a kernel-checked goal |model - impl| <= 1e-9 relative and a "
        "goal that the Python forward law is the Coq law. Non-trivial = RTD below 0 C (quartic) or with a "
        "compensated lead, thermistor with voltage excitation or compensated lead, strain with gain / initial "
        "voltage / lead, polynomial of degree >= 2, table decreasing or clamped, a passing end-to-end file.")
    for s in collect[:1] + [s for s in collect if s["kind"] == "rtd" and s["want"] < -1][:1] + \
            [s for s in collect if s["kind"] == "thermistor"][:1] + \
            [s for s in collect if s["kind"] == "strain" and s["case"]["params"]["gain"] != 1.0][:1]:
        run.sample({"case": s["case"], "voltage": s["v"], "implementation": s["y"], "goal": s["goals"][0][1][:400]})
    run.assumptions = [
        "float rounding: bounded by theorem (Props/C17_float.v) for the RTD quadratic branch and the strain bridges, "
        "under stated parameter ranges, on binary64 models tied bit-exactly to the implementation (float_tie); the "
        "thermistor (np.log) and the RTD quartic branch (polyroots) have no binary64 model and stay bounded per sample "
        "(1e-9 relative); `a ** 2` of RtdScaling is the C library's pow, assumed within one ulp of a*a",
        "numpy.polynomial.polynomial.polyroots is an oracle: assumed to list each real root below 1e-9 of the RTD "
        "quartic once (small_roots_ok; the filter of _get_negative_real_root after repair D23); validated per sample "
        "by the bracket goals and the direct oracle",
        "lead-wire law follows NI: no lead term for a 2-wire voltage-excited thermistor (pinned by the test-suite "
        "against LabVIEW values); gain adjustment multiplies the strain reading (NI-DAQmx definition)",
        "Coq Reals axioms as listed by Print Assumptions; the Interval tactic (kernel-checked by Qed)"]
    run.finish()


if __name__ == "__main__":
    main()
