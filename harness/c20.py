"""C20 - npTDMS closes the files it opened, only those, and fails loudly afterwards.

Proof: Props/C20.v (ownership model Model/Resource.v: no owned handle stays
open after read / read_metadata / close / __exit__ / the writer's with-block,
caller streams are never closed, reads after close raise, close is idempotent;
all histories by induction over the operation list).

Tie (the claim is PARTIAL: descriptor lifetime is runtime behaviour):
  * the implementation is run on fault sequences (files malformed at every
    stage x kind of source x index file beside or not x API x follow-up
    histories; writer with-blocks; defragment) under /proc/self/fd accounting,
    sampling after every call - for a call that raises, inside the `except`
    block while the exception is still alive (that is where a caller would
    try to delete or rewrite the file);
  * direct oracle on those observations (no library descriptor after the
    calls named in the property, caller streams open, reads after close raise
    or are served from memory with the right values, close twice is fine,
    nothing left to the finaliser, nothing left after everything is dropped);
  * the model is run on the same abstract scenario inside Coq and its trace
    (outcome class + handle snapshot after every call, finaliser work) is
    compared with the observed one.  The model has a switch for defect D19
    (see dev/patches/D19_C20_unclosed_on_failure.patch): the tree must agree with the unpatched or
    with the patched variant on ALL cases of the run.
"""
import gc
import io
import json
import logging
import os
import random
import resource
import struct
import sys
import warnings

sys.path.insert(0, os.path.dirname(os.path.abspath(__file__)))
import common as H

H.ensure_env()

import numpy as np  # noqa: E402
from nptdms import TdmsFile, TdmsWriter, ChannelObject, GroupObject, RootObject  # noqa: E402

logging.disable(logging.WARNING)   # npTDMS logs (not warnings) about truncated segments

PID = "C20"
IMPORTS = "From NpTdms Require Import Model.Resource.\n"

# ---------------------------------------------------------------------------
# tiny TDMS encoder (copied from dev/probes/enc.py)


def _s(x, e='<'):
    b = x.encode('utf-8')
    return struct.pack(e + 'L', len(b)) + b


def enc_obj(path, idx=None, props=(), e='<'):
    """idx: None -> no data; 'prev' -> matches previous; (dtype, n) or (0x20, n, total)"""
    out = _s(path, e)
    if idx is None:
        out += struct.pack(e + 'L', 0xFFFFFFFF)
    elif idx == 'prev':
        out += struct.pack(e + 'L', 0)
    else:
        if idx[0] == 0x20:
            out += struct.pack(e + 'LLLQQ', 28, 0x20, 1, idx[1], idx[2])
        else:
            out += struct.pack(e + 'LLLQ', 20, idx[0], 1, idx[1])
    out += struct.pack(e + 'L', len(props))
    for (n, t, v) in props:
        out += _s(n, e) + struct.pack(e + 'L', t) + v
    return out


def enc_seg(objs, data, toc=0b1110, e='<', version=4713):
    meta = b'' if objs is None else struct.pack(e + 'L', len(objs)) + b''.join(objs)
    n = len(meta) + len(data)
    return b'TDSm' + struct.pack('<l', toc) + struct.pack(e + 'lQQ', version, n, len(meta)) + meta + data


def build(segs):
    """segs: list of (objs|None, data, kwargs) -> (data bytes, index bytes, [segment offsets])"""
    out, idx, offs = b'', b'', []
    for (objs, data, kw) in segs:
        sb = enc_seg(objs, data, **kw)
        meta_len = struct.unpack('<Q', sb[20:28])[0]
        offs.append(len(out))
        out += sb
        idx += b'TDSh' + sb[4:28 + meta_len]
    return out, idx, offs


I32 = 3
CH = "/'g'/'c'"


def chan(n=2, t=I32):
    return enc_obj(CH, (t, n))


def valid_segs(layout):
    """One int32 channel /'g'/'c', 2 values per chunk; layout = chunks per segment."""
    segs, v = [], 1
    for k, nch in enumerate(layout):
        data = b''
        for _ in range(nch):
            data += struct.pack('<ii', v, v + 1)
            v += 2
        objs = [enc_obj("/"), enc_obj("/'g'"), chan()] if k == 0 else [chan()]
        segs.append((objs, data, {}))
    return segs


def mut(b, pos, new):
    return b[:pos] + new + b[pos + len(new):]


T, F = True, False
# flags: (file_data, chan_all, chan_first) given that the metadata was read
ALL_OK = (T, T, T)


def make_fault(name, layout=(2, 1)):
    """-> dict(data, index, meta_data, meta_index, build, via_data, via_index,
               has_channel, values, layout)
    via_data / via_index: outcome flags of data reads when the metadata came
    from the data file / from the index file."""
    layout = list(layout)
    base = valid_segs(layout)
    good, gidx, offs = build(base)
    nvals = 2 * sum(layout)
    r = dict(meta_data=T, meta_index=T, build=T, via_data=ALL_OK, via_index=ALL_OK,
             has_channel=True, values=list(range(1, nvals + 1)), layout=layout, data=good, index=gidx)
    j = good.find(b'\x14\x00\x00\x00')     # raw data index header of the channel in segment 0
    s1 = offs[1] if len(offs) > 1 else None
    if name == 'valid':
        pass
    elif name == 'bad_tag':
        r.update(data=mut(good, 0, b'XXXX'), meta_data=F, via_index=(F, F, F), values=None)
    elif name == 'bad_tag_seg2':
        r.update(data=mut(good, s1, b'XXXX'), meta_data=F, via_index=(F, F, T), values=None)
    elif name == 'trunc_leadin':
        r.update(data=good[:20], has_channel=False, values=None, layout=[])
    elif name == 'trunc_short':          # fewer than 4 bytes: no tag at all
        r.update(data=good[:2], has_channel=False, values=None, layout=[])
    elif name == 'empty':
        r.update(data=b'', has_channel=False, values=None, layout=[])
    elif name == 'trunc_leadin_seg2':
        r.update(data=good[:s1 + 20], values=list(range(1, 2 * layout[0] + 1)), layout=layout[:1])
    elif name == 'trunc_meta':
        r.update(data=good[:28 + 10], has_channel=False, values=None, layout=[])
    elif name == 'trunc_meta_seg2':
        r.update(data=good[:s1 + 28 + 6], values=list(range(1, 2 * layout[0] + 1)), layout=layout[:1])
    elif name == 'bad_meta_count':
        r.update(data=mut(good, 28, b'\xff\xff\xff\x7f'), meta_data=F, values=None)
    elif name == 'unknown_type':
        r.update(data=mut(good, j + 4, b'\x99\x00\x00\x00'), meta_data=F, values=None)
    elif name == 'dim_ne_1':
        r.update(data=mut(good, j + 8, b'\x02\x00\x00\x00'), meta_data=F, values=None)
    elif name == 'matches_prev_unseen':
        d, i, _ = build([([enc_obj("/"), enc_obj("/'g'"), enc_obj(CH, 'prev')], struct.pack('<ii', 1, 2), {})])
        r.update(data=d, index=i, meta_data=F, meta_index=F, values=None)
    elif name == 'first_no_meta':
        d, i, _ = build([(None, struct.pack('<ii', 1, 2), {'toc': 0b1000})])
        r.update(data=d, index=i, meta_data=F, meta_index=F, values=None)
    elif name == 'type_change':
        d, i, _ = build([base[0], ([chan(2, 10)], struct.pack('<dd', 5, 6), {})])
        r.update(data=d, index=i, meta_data=F, meta_index=F, values=None)
    elif name == 'bad_path':
        d, i, _ = build([([enc_obj("/"), enc_obj("/'g'"), enc_obj("abc", (I32, 2))], struct.pack('<ii', 1, 2), {})])
        r.update(data=d, index=i, build=F, values=None)
    elif name == 'index_mismatch':
        # the data file has one more property on the root than the file the index was made for:
        # the index parses, its second segment position does not hit a segment start
        segs = [([enc_obj("/", props=[("p", I32, struct.pack('<i', 7))]), enc_obj("/'g'"), chan()],
                 base[0][1], {})] + base[1:]
        d, _, _ = build(segs)
        r.update(data=d, via_index=(F, F, T), values=None)
    elif name == 'index_bad_tag':
        r.update(index=mut(gidx, 0, b'XXXX'), meta_index=F)
    elif name == 'index_truncated':
        # the index stops inside the first metadata block: unlike a truncated data file this is
        # not tolerated, parsing the index raises
        r.update(index=gidx[:28 + 9], meta_index=F)
    elif name == 'data_overrun':
        # a string channel after /'g'/'c' whose offsets run past the end of the file:
        # metadata fine, reading all data raises, /'g'/'c' itself reads fine
        segs = base + [([enc_obj("/'g'/'s'", (0x20, 5, 12))], struct.pack('<III', 1, 2, 3), {})]
        d, i, _ = build(segs)
        r.update(data=d, index=i, via_data=(F, T, T), via_index=(F, T, T))
    elif name == 'data_overrun_first':
        d, i, _ = build([([enc_obj("/"), enc_obj("/'g'"), enc_obj(CH, (0x20, 5, 12))],
                          struct.pack('<III', 1, 2, 3), {})])
        r.update(data=d, index=i, via_data=(F, F, F), via_index=(F, F, F), values=None, layout=[1])
    else:
        raise ValueError(name)
    return r


FAULTS = ['valid', 'bad_tag', 'bad_tag_seg2', 'trunc_leadin', 'trunc_short', 'empty', 'trunc_leadin_seg2',
          'trunc_meta', 'trunc_meta_seg2', 'bad_meta_count', 'unknown_type', 'dim_ne_1', 'matches_prev_unseen',
          'first_no_meta', 'type_change', 'bad_path', 'index_mismatch', 'index_bad_tag', 'index_truncated',
          'data_overrun', 'data_overrun_first']
GEN_OK_FAULTS = ('valid', 'trunc_leadin_seg2', 'trunc_meta_seg2')   # generator ops only on these
SRC_KINDS = ['path', 'pathlib', 'bytesio', 'file', 'index_path', 'index_bytesio', 'index_file']
APIS = ['read', 'open', 'read_metadata']

# ---------------------------------------------------------------------------
# observation


class Boom(Exception):
    pass


def classify(e):
    if isinstance(e, StopIteration):
        return 'Stop'
    if isinstance(e, Boom):
        return 'Raise EUser'
    m = str(e)
    if isinstance(e, RuntimeError) and 'reader is closed' in m:
        return 'Raise EClosed'
    if isinstance(e, RuntimeError) and 'index file only' in m:
        return 'Raise EIndexOnly'
    if isinstance(e, AttributeError) and "'NoneType' object has no attribute" in m:
        return 'Raise ENone'
    if isinstance(e, ValueError) and 'closed file' in m:
        return 'Raise EIO'
    if isinstance(e, ValueError) and 'File should either start with' in m:
        return 'Raise ETag'
    if isinstance(e, ValueError) and 'Neither tdms_index file nor tdms file' in m:
        return 'Raise ENoFile'
    if isinstance(e, OSError):
        return 'Raise EOpen'
    return 'Raise EParse'


class Ctx:
    """The files of one scenario and the caller's own streams on them."""

    def __init__(self, data_path, index_path):
        self.data_path = data_path
        self.index_path = index_path
        self.caller_data = None     # caller-supplied stream for the data slot
        self.caller_index = None

    def caller_fds(self):
        out = set()
        for s in (self.caller_data, self.caller_index):
            if s is not None and not s.closed and hasattr(s, 'fileno'):
                try:
                    out.add(s.fileno())
                except (OSError, io.UnsupportedOperation):
                    pass
        return out

    def sample(self):
        """(library descriptors on data file, on index file, caller data closed, caller index closed)"""
        gc.collect()
        mine = self.caller_fds()
        nd = ni = 0
        for n in os.listdir('/proc/self/fd'):
            try:
                t = os.readlink('/proc/self/fd/' + n)
            except OSError:
                continue
            if int(n) in mine:
                continue
            if t == self.data_path:
                nd += 1
            elif t == self.index_path:
                ni += 1
        return (nd, ni,
                bool(self.caller_data is not None and self.caller_data.closed),
                bool(self.caller_index is not None and self.caller_index.closed))


def observed(fn, ctx, restore=None):
    """Run fn; sample after it returns, or inside the handler while the exception is alive."""
    try:
        val = fn()
    except BaseException as e:  # noqa: B902 - StopIteration etc. are outcomes here
        if isinstance(e, (KeyboardInterrupt, SystemExit)):
            raise
        if restore:
            restore()
        out = classify(e)
        snap = ctx.sample()
        return out, None, snap, repr(e)[:200]
    if restore:
        restore()
    return 'Done', val, ctx.sample(), None


class FdLimit:
    """Make the second open() of the next call fail with EMFILE: only the lowest free
    descriptor number stays usable."""

    def __init__(self):
        self.soft, self.hard = resource.getrlimit(resource.RLIMIT_NOFILE)
        self.active = False

    def arm(self):
        gc.collect()
        k = os.open('/dev/null', os.O_RDONLY)
        os.close(k)
        resource.setrlimit(resource.RLIMIT_NOFILE, (k + 1, self.hard))
        self.active = True

    def restore(self):
        if self.active:
            resource.setrlimit(resource.RLIMIT_NOFILE, (self.soft, self.hard))
            self.active = False


def which_files(nd, ni):
    """suffix of a violation key: which of the scenario's files are concerned"""
    return "+".join(n for n, c in (("data", nd), ("index", ni)) if c) or "none"


def finaliser_hits(wlist, ctx):
    """ResourceWarnings ("unclosed file ... name='path'") for the scenario's files."""
    nd = ni = 0
    for w in wlist:
        if issubclass(w.category, ResourceWarning):
            m = str(w.message)
            if "name='%s'" % ctx.data_path in m:
                nd += 1
            elif "name='%s'" % ctx.index_path in m:
                ni += 1
    return nd, ni


# ---------------------------------------------------------------------------
# reader scenarios

_counter = [0]


def fresh_name(work):
    _counter[0] += 1
    return os.path.join(work, "s%06d.tdms" % _counter[0])


def abstract_source(kind, content):
    if kind in ('path', 'pathlib'):
        return 'Path'
    if kind == 'index_path':
        return 'IndexPath'
    tag = content[:4]
    return 'Stream' if tag == b'TDSm' else 'IndexStream' if tag == b'TDSh' else 'BadStream'


def reader_abstract(sc):
    """Abstract scenario (what the model is told) for a concrete reader scenario."""
    ft = make_fault(sc['fault'], sc['layout'])
    kind = sc['src']
    content = ft['index'] if kind.startswith('index_') else ft['data']
    src = abstract_source(kind, content)
    via_index = (src == 'Path' and sc['index_beside']) or src in ('IndexPath', 'IndexStream')
    fd, ca, cf = ft['via_index'] if via_index else ft['via_data']
    cfault = {'none': 'CNoFault', 'missing': 'CDataOpenFails' if src == 'Path' else 'CIndexOpenFails',
              'emfile': 'CIndexOpenFails'}[sc['cfault']]
    has_channel = ft['has_channel']
    return dict(ft=ft, src=src, via_index=via_index, cfault=cfault, has_channel=has_channel,
                fc=(ft['meta_data'], ft['meta_index'], ft['build'], fd, ca, cf, ft['layout']))


def coq_op(op):
    k = op[0]
    if k == 'OExit':
        return "(OExit %s)" % H.cbool(op[1])
    if k == 'OReadIndex':
        return "(OReadIndex %d)" % op[1]
    return k


def coq_snap(s):
    return "(%s, %s, %s, %s)" % (H.cbool(s[0] > 0), H.cbool(s[1] > 0), H.cbool(s[2]), H.cbool(s[3]))


def coq_trace(tr):
    return H.clist(["(%s, %s)" % (o, coq_snap(s)) for (o, s) in tr])


def coq_fc(fc):
    return "(mkfcond %s %s %s %s %s %s %s)" % tuple(
        [H.cbool(b) for b in fc[:6]] + [H.clist(["%d" % n for n in fc[6]])])


def coq_scenario(sc, ab):
    return "(mkscenario %s %s %s %s %s %s)" % (
        ab['src'], H.cbool(sc['index_beside']), ab['cfault'], coq_fc(ab['fc']),
        {'read': 'ApiRead', 'open': 'ApiOpen', 'read_metadata': 'ApiReadMetadata'}[sc['api']],
        H.clist([coq_op(o) for o in sc['ops']]))


def coq_reader_case(sc, ab, tr, fin):
    return "(%s, %s, (%s, %s))" % (coq_scenario(sc, ab), coq_trace(tr), H.cbool(fin[0] > 0), H.cbool(fin[1] > 0))


def run_reader(run, work, sc, fdlimit):
    """Runs one reader scenario on the implementation.  Returns (abstract, trace, finaliser, problems)
    where problems is a list of (key, what, expected, actual) found by the direct oracle."""
    ab = reader_abstract(sc)
    ft = ab['ft']
    p = fresh_name(work)
    ip = p + '_index'
    missing = sc['cfault'] == 'missing'
    if not missing:
        with open(p, 'wb') as fh:
            fh.write(ft['data'])
        if sc['index_beside'] or sc['src'].startswith('index_'):
            with open(ip, 'wb') as fh:
                fh.write(ft['index'])
    ctx = Ctx(p, ip)
    kind = sc['src']
    problems = []
    trace = []
    with warnings.catch_warnings(record=True) as wlist:
        warnings.simplefilter('always')
        # the source object handed to npTDMS
        if kind == 'path':
            source = p
        elif kind == 'pathlib':
            import pathlib
            source = pathlib.Path(p)
        elif kind == 'index_path':
            source = ip
        elif kind == 'bytesio':
            source = ctx.caller_data = io.BytesIO(ft['data'])
        elif kind == 'file':
            source = ctx.caller_data = open(p, 'rb')
        elif kind == 'index_bytesio':
            source = io.BytesIO(ft['index'])
        elif kind == 'index_file':
            source = open(ip, 'rb')
        else:
            raise ValueError(kind)
        if kind in ('index_bytesio', 'index_file'):
            if ab['src'] == 'IndexStream':
                ctx.caller_index = source
            else:
                ctx.caller_data = source       # no recognisable tag: the model files it under "data"
        elif kind in ('bytesio', 'file') and ab['src'] == 'IndexStream':
            ctx.caller_index, ctx.caller_data = source, None
        api = sc['api']
        fn = {'read': TdmsFile.read, 'open': TdmsFile.open, 'read_metadata': TdmsFile.read_metadata}[api]
        restore = None
        if sc['cfault'] == 'emfile':
            fdlimit.arm()
            restore = fdlimit.restore
        out, tf, snap, exc = observed(lambda: fn(source), ctx, restore)
        trace.append((out, snap))
        st = {'closed': api != 'open', 'eager': api == 'read' and not ab['src'].startswith('Index'),
              'cache': None, 'gen': iter(()), 'genpos': 0, 'gen_live': False}
        vals = ft['values']

        def must_be_closed(label, snap, key):
            if snap[0] or snap[1]:
                key = "%s:%s" % (key, which_files(snap[0], snap[1]))
                problems.append((key, "%s: a descriptor opened by npTDMS is still open (data=%d, index=%d)"
                                 % (label, snap[0], snap[1]), "no library descriptor on the scenario's files",
                                 {"data": snap[0], "index": snap[1]}))

        def caller_ok(label, snap):
            if snap[2] or snap[3]:
                problems.append(("caller-stream-closed", "%s: a stream supplied by the caller was closed" % label,
                                 "caller streams stay open", {"data_closed": snap[2], "index_closed": snap[3]}))

        caller_ok("TdmsFile.%s" % api, snap)
        if out != 'Done':
            key = ("unclosed-on-failure:TdmsReader.__init__" if sc['cfault'] == 'emfile'
                   else "unclosed-on-failure:TdmsFile.%s" % api)
            must_be_closed("TdmsFile.%s raised %s" % (api, exc), snap, key)
        elif api != 'open':
            must_be_closed("TdmsFile.%s returned" % api, snap, "fd-left-open:TdmsFile.%s" % api)
        if out == 'Done':
            ch = None
            if ab['has_channel']:
                try:
                    ch = tf['g']['c']
                except Exception as e:  # the fault table is wrong about this file
                    raise RuntimeError("scenario %r: expected a channel: %r" % (sc, e))
            for op in sc['ops']:
                k = op[0]

                def act():
                    if k == 'OClose':
                        tf.close()
                        return None
                    if k == 'OExit':
                        try:
                            with tf:
                                if op[1]:
                                    raise Boom()
                        except Boom:
                            pass
                        return None
                    if k == 'OReadAll':
                        return ('all', list(ch[:]))
                    if k == 'OReadData':
                        return ('all', list(ch.read_data()))
                    if k == 'OReadIndex':
                        return ('one', 2 * op[1], ch[2 * op[1]])
                    if k == 'OChunks':
                        return ('all', [v for c in ch.data_chunks() for v in c[:]])
                    if k == 'OIter':
                        return ('all', list(iter(ch)))
                    if k == 'OFileChunks':
                        got = []
                        for c in tf.data_chunks():
                            for g in c.groups():
                                for cc in g.channels():
                                    if cc.name == 'c' and ch is not None:
                                        got.extend(cc[:])
                        return ('all', got) if ch is not None else None
                    if k == 'OGenStart':
                        st['gen'] = iter(())
                        st['gen_live'] = False
                        g = ch.data_chunks()
                        st['gen'] = g
                        st['genpos'] = 0
                        st['gen_live'] = True
                        c = next(g)
                        return ('chunk', list(c[:]))
                    if k == 'OGenNext':
                        c = next(st['gen'])
                        return ('chunk', list(c[:]))
                    raise ValueError(k)

                out, val, snap, exc = observed(act, ctx)
                trace.append((out, snap))
                label = "%s after %s" % (k, "close" if st['closed'] else "open")
                caller_ok(label, snap)
                was_closed = st['closed']
                if k in ('OClose', 'OExit'):
                    if out != 'Done':
                        problems.append(("close-raised", "close()/__exit__ raised %s" % exc, "no exception", out))
                    st['closed'] = True
                    must_be_closed("close()/__exit__", snap, "fd-left-open:close")
                    continue
                if st['closed']:
                    must_be_closed(label, snap, "fd-left-open:after-close")
                # reads: right values, and no data from the file once closed
                if out == 'Done' and val is not None:
                    if vals is not None:
                        if val[0] == 'all':
                            good = [int(v) for v in val[1]] == vals
                        elif val[0] == 'one':
                            good = int(val[2]) == vals[val[1]]
                        else:
                            lo = 2 * st['genpos']
                            good = [int(v) for v in val[1]] == vals[lo:lo + 2]
                        if not good:
                            problems.append(("wrong-data", "%s returned wrong or stale values" % label,
                                             "the values stored in the file", repr(val)[:200]))
                    if was_closed:
                        from_memory = (
                            (st['eager'] and k in ('OReadAll', 'OReadData', 'OReadIndex', 'OIter')) or
                            (k == 'OReadIndex' and st['cache'] == op[1]) or
                            (k == 'OGenNext' and ctx.caller_data is not None))
                        if not from_memory:
                            problems.append(("read-after-close-returned-data",
                                             "%s returned data although the file was closed" % label,
                                             "an exception", repr(val)[:200]))
                if k == 'OReadIndex' and out == 'Done' and not st['eager']:
                    st['cache'] = op[1]
                if k in ('OGenStart', 'OGenNext') and out == 'Done':
                    st['genpos'] += 1
        # drop everything npTDMS gave us; whatever the finaliser has to close is reported
        tf = ch = None
        st = None
        gc.collect()
        end = ctx.sample()
        if end[0] or end[1]:
            problems.append(("hard-leak", "descriptor still open after every npTDMS object was dropped",
                             "no descriptor", {"data": end[0], "index": end[1]}))
        fin = finaliser_hits(wlist, ctx)
        for s in (ctx.caller_data, ctx.caller_index, source):
            if hasattr(s, 'close'):
                s.close()
    if (fin[0] or fin[1]) and (trace[0][0] != 'Done' or trace[-1][1][0] == 0 and trace[-1][1][1] == 0):
        # nothing was open at the last sample (or the call raised), yet the finaliser closed a file
        key = ("unclosed-on-failure:TdmsReader.__init__" if sc['cfault'] == 'emfile'
               else "unclosed-on-failure:TdmsFile.%s" % sc['api']) if trace[0][0] != 'Done' else "left-to-finaliser"
        key = "%s:%s" % (key, which_files(*fin))
        problems.append((key, "a file opened by npTDMS was closed by the garbage collector only "
                         "(ResourceWarning: unclosed file)", "closed by npTDMS", {"data": fin[0], "index": fin[1]}))
    for q in (p, ip):
        if os.path.exists(q):
            os.unlink(q)
    return ab, trace, fin, problems


def base_ops(api, form, has_channel, valid):
    """Follow-up histories for the enumerated part."""
    second = ('OReadIndex', 1) if valid else ('OReadIndex', 0)
    if not has_channel:
        return {'a': [('OFileChunks',), ('OClose',), ('OFileChunks',), ('OClose',)],
                'b': [('OExit', False), ('OFileChunks',)],
                'c': [('OFileChunks',), ('OExit', True), ('OClose',)]}[form]
    if api == 'open':
        return {
            'a': [('OReadIndex', 0), ('OReadAll',), ('OExit', False), ('OReadAll',), ('OReadIndex', 0), second,
                  ('OChunks',), ('OIter',), ('OFileChunks',), ('OReadData',), ('OClose',)],
            'b': [('OReadData',), ('OFileChunks',), ('OChunks',), ('OClose',), ('OReadAll',), ('OReadData',),
                  ('OIter',), ('OReadIndex', 0)],
            'c': [('OIter',), ('OClose',), ('OClose',), ('OReadAll',), ('OReadIndex', 0), ('OChunks',),
                  ('OFileChunks',), ('OExit', True), ('OReadData',)],
        }[form]
    return {
        'a': [('OReadAll',), ('OReadIndex', 0), ('OChunks',), ('OFileChunks',), ('OClose',), ('OFileChunks',),
              ('OClose',), ('OReadData',)],
        'b': [('OReadData',), ('OIter',), ('OExit', False), ('OReadIndex', 0), ('OIter',)],
        'c': [('OFileChunks',), ('OExit', True), ('OReadAll',), ('OChunks',)],
    }[form]


def random_ops(rng, n, has_channel, gen_ok, nchunks):
    ops = []
    for _ in range(n):
        r = rng.random()
        if not has_channel:
            ops.append(rng.choice([('OFileChunks',), ('OClose',), ('OExit', rng.random() < 0.3)]))
        elif r < 0.14:
            ops.append(('OClose',))
        elif r < 0.22:
            ops.append(('OExit', rng.random() < 0.4))
        elif r < 0.40:
            ops.append(('OReadIndex', rng.randrange(max(1, nchunks)) if gen_ok else 0))
        elif gen_ok and r < 0.52:
            ops.append(('OGenStart',))
        elif gen_ok and r < 0.72:
            ops.append(('OGenNext',))
        else:
            ops.append((rng.choice(['OReadAll', 'OReadData', 'OChunks', 'OIter', 'OFileChunks']),))
    return ops


def enumerate_reader(rng):
    """fault x source kind x index beside x API x follow-up form."""
    out = []
    forms = ['a', 'b', 'c']
    for fault in FAULTS:
        for kind in SRC_KINDS:
            for ib in (False, True):
                if kind.startswith('index_') and not ib:
                    continue       # an index source is the index file itself
                for api in APIS:
                    sc = dict(fault=fault, layout=[2, 1], src=kind, index_beside=ib, cfault='none', api=api)
                    ab = reader_abstract(sc)
                    form = forms[len(out) % 3]
                    sc['ops'] = base_ops(api, form, ab['has_channel'], fault == 'valid')
                    out.append(sc)
    # constructor failure points
    for api in APIS:
        for kind in ('path', 'pathlib', 'index_path'):
            out.append(dict(fault='valid', layout=[2, 1], src=kind, index_beside=True, cfault='missing',
                            api=api, ops=[]))
        for fault in ('valid', 'index_bad_tag', 'bad_tag'):
            out.append(dict(fault=fault, layout=[2, 1], src='path', index_beside=True, cfault='emfile',
                            api=api, ops=[('OClose',)]))
    return out


def random_reader(rng, n, maxlen):
    out = []
    for _ in range(n):
        if rng.random() < 0.7:
            fault = rng.choice(GEN_OK_FAULTS) if rng.random() < 0.3 else 'valid'
        else:
            fault = rng.choice(FAULTS)
        layout = [rng.randint(1, 3) for _ in range(rng.randint(2, 3))]
        if fault not in GEN_OK_FAULTS:
            layout = [2, 1]
        kind = rng.choice(SRC_KINDS)
        ib = True if kind.startswith('index_') else rng.random() < 0.5
        api = rng.choice(['open', 'open', 'open', 'read', 'read_metadata'])
        sc = dict(fault=fault, layout=layout, src=kind, index_beside=ib, cfault='none', api=api)
        ab = reader_abstract(sc)
        gen_ok = fault in GEN_OK_FAULTS
        sc['ops'] = random_ops(rng, rng.randint(1, maxlen), ab['has_channel'], gen_ok, sum(ab['ft']['layout']))
        out.append(sc)
    return out


# ---------------------------------------------------------------------------
# writer scenarios

class FailingStream(io.BytesIO):
    """A caller's stream whose write fails after a number of calls."""

    def __init__(self, ok_writes):
        super().__init__()
        self.left = ok_writes

    def write(self, b):
        if self.left <= 0:
            raise Boom()
        self.left -= 1
        return super().write(b)


def seg_objects(ok=True):
    objs = [ChannelObject('g', 'c', np.array([1, 2], dtype=np.int32))]
    return objs if ok else objs + objs      # duplicate paths: TdmsSegment(...) raises ValueError


def coq_bstmt(b):
    return {"BWrite": lambda: "(BWrite %s)" % H.cbool(b[1]), "BRaise": lambda: "BRaise",
            "BClose": lambda: "BClose"}[b[0]]()


def coq_wop(o):
    if o[0] == 'WWith':
        return "(WWith %s %s)" % (o[1], H.clist([coq_bstmt(b) for b in o[2]]))
    if o[0] == 'WWrite':
        return "(WWrite %s)" % H.cbool(o[1])
    return "WClose"


def coq_target(t):
    return {"path": "(WPath false)", "path_index": "(WPath true)", "bytesio": "(WStream false)",
            "file": "(WStream false)", "bytesio_index": "(WStream true)", "file_index": "(WStream true)"}[t]


def run_writer(run, work, sc, fdlimit):
    sub = os.path.join(work, "w%06d" % (_counter[0] + 1))
    _counter[0] += 1
    os.mkdir(sub)
    p = os.path.join(sub, "out.tdms")
    ip = p + "_index"
    ctx = Ctx(p, ip)
    t = sc['target']
    problems, trace = [], []
    half_open = False
    with warnings.catch_warnings(record=True) as wlist:
        warnings.simplefilter('always')
        if t == 'path':
            w = TdmsWriter(p)
        elif t == 'path_index':
            w = TdmsWriter(p, index_file=True)
        elif t == 'bytesio':
            ctx.caller_data = io.BytesIO()
            w = TdmsWriter(ctx.caller_data)
        elif t == 'bytesio_index':
            ctx.caller_data, ctx.caller_index = io.BytesIO(), io.BytesIO()
            w = TdmsWriter(ctx.caller_data, index_file=ctx.caller_index)
        elif t == 'file':
            ctx.caller_data = open(p, 'w+b')
            w = TdmsWriter(ctx.caller_data)
        elif t == 'file_index':
            ctx.caller_data, ctx.caller_index = open(p, 'w+b'), open(ip, 'w+b')
            w = TdmsWriter(ctx.caller_data, index_file=ctx.caller_index)
        else:
            raise ValueError(t)
        for op in sc['ops']:
            restore = None
            if op[0] == 'WWith':
                fault, body = op[1], op[2]
                if fault == 'WDataOpenFails' and t.startswith('path'):
                    os.rename(sub, sub + ".off")

                    def restore(sub=sub):
                        if os.path.exists(sub + ".off"):
                            os.rename(sub + ".off", sub)
                elif fault == 'WIndexOpenFails' and t == 'path_index':
                    fdlimit.arm()
                    restore = fdlimit.restore

                def act(body=body, restore=restore):
                    with w:
                        if restore:
                            restore()       # the fault is over once __enter__ succeeded
                        for b in body:
                            if b[0] == 'BWrite':
                                w.write_segment(seg_objects(b[1]))
                            elif b[0] == 'BRaise':
                                raise Boom()
                            else:
                                w.close()
            elif op[0] == 'WClose':
                def act():
                    w.close()
            else:
                def act(ok=op[1]):
                    w.write_segment(seg_objects(ok))
            out, _, snap, exc = observed(act, ctx, restore)
            trace.append((out, snap))
            if snap[2] or snap[3]:
                problems.append(("caller-stream-closed", "TdmsWriter %s: a stream supplied by the caller was closed"
                                 % op[0], "caller streams stay open", list(snap)))
            if op[0] == 'WWith' and op[1] == 'WIndexOpenFails' and out != 'Done':
                half_open = True        # a failed __enter__: what it left behind is the same finding later on
            if op[0] in ('WWith', 'WClose') and (snap[0] or snap[1]):
                key = "unclosed-on-failure:TdmsWriter.open" if half_open else "fd-left-open:TdmsWriter"
                key = "%s:%s" % (key, which_files(snap[0], snap[1]))
                problems.append((key, "after %s (%s): a descriptor opened by TdmsWriter is still open "
                                 "(data=%d, index=%d)" % (op[0], exc or "returned", snap[0], snap[1]),
                                 "no library descriptor", list(snap)))
            if op[0] == 'WWith':
                body_raises = any(b[0] == 'BRaise' or (b[0] == 'BWrite' and not b[1]) for b in op[2])
                if body_raises and out == 'Done':
                    problems.append(("exception-swallowed", "the with-block swallowed an exception",
                                     "the exception propagates", out))
        w = None
        gc.collect()
        end = ctx.sample()
        if end[0] or end[1]:
            problems.append(("hard-leak", "descriptor still open after the writer was dropped", "no descriptor",
                             list(end)))
        fin = finaliser_hits(wlist, ctx)
        for s in (ctx.caller_data, ctx.caller_index):
            if s is not None:
                s.close()
    if (fin[0] or fin[1]) and not any(pr[0].startswith("unclosed-on-failure") for pr in problems):
        faulted = any(o[0] == 'WWith' and o[1] == 'WIndexOpenFails' for o in sc['ops'])
        problems.append((("unclosed-on-failure:TdmsWriter.open:" if faulted else "left-to-finaliser:")
                         + which_files(*fin), "a file opened by TdmsWriter was closed by the garbage collector only",
                         "closed by npTDMS", list(fin)))
    import shutil
    shutil.rmtree(sub, ignore_errors=True)
    shutil.rmtree(sub + ".off", ignore_errors=True)
    return trace, fin, problems


def coq_writer_case(sc, tr, fin):
    return "(%s, %s, %s, (%d, %d))" % (coq_target(sc['target']), H.clist([coq_wop(o) for o in sc['ops']]),
                                       coq_trace(tr), fin[0], fin[1])


WTARGETS = ['path', 'path_index', 'bytesio', 'bytesio_index', 'file', 'file_index']


def random_body(rng, n):
    body = []
    for _ in range(n):
        r = rng.random()
        body.append(('BWrite', True) if r < 0.6 else ('BWrite', False) if r < 0.75 else
                    ('BRaise',) if r < 0.9 else ('BClose',))
    return body


def enumerate_writer(rng):
    out = []
    bodies = [[], [('BWrite', True)], [('BWrite', True), ('BWrite', True)], [('BWrite', True), ('BRaise',)],
              [('BWrite', False), ('BWrite', True)], [('BRaise',)], [('BWrite', True), ('BClose',)],
              [('BClose',), ('BWrite', True)]]
    for t in WTARGETS:
        for b in bodies:
            out.append(dict(target=t, ops=[('WWith', 'WNoFault', b)]))
            out.append(dict(target=t, ops=[('WWith', 'WNoFault', b), ('WClose',), ('WWrite', True),
                                            ('WWith', 'WNoFault', [('BWrite', True)]), ('WClose',), ('WClose',)]))
        out.append(dict(target=t, ops=[('WClose',), ('WWrite', True)]))
    for t in ('path', 'path_index'):
        out.append(dict(target=t, ops=[('WWith', 'WDataOpenFails', [('BWrite', True)]), ('WClose',),
                                        ('WWith', 'WNoFault', [('BWrite', True)])]))
    out.append(dict(target='path_index', ops=[('WWith', 'WIndexOpenFails', [('BWrite', True)])]))
    out.append(dict(target='path_index', ops=[('WWith', 'WIndexOpenFails', []), ('WWrite', True), ('WClose',),
                                              ('WWith', 'WNoFault', [('BWrite', True)])]))
    out.append(dict(target='path_index', ops=[('WWith', 'WIndexOpenFails', []),
                                              ('WWith', 'WNoFault', [('BWrite', True)]), ('WClose',)]))
    return out


def random_writer(rng, n, maxlen):
    out = []
    for _ in range(n):
        t = rng.choice(WTARGETS)
        ops = []
        emfile_used = False
        for _ in range(rng.randint(1, maxlen)):
            r = rng.random()
            if r < 0.6:
                fault = 'WNoFault'
                if t.startswith('path') and rng.random() < 0.12:
                    fault = 'WDataOpenFails'
                elif t == 'path_index' and rng.random() < 0.1 and not emfile_used:
                    # at most once per scenario: the EMFILE injection is not reliable while an
                    # earlier half-opened data file can be released (freeing a descriptor) mid-call
                    fault = 'WIndexOpenFails'
                    emfile_used = True
                ops.append(('WWith', fault, random_body(rng, rng.randint(0, 4))))
            elif r < 0.8:
                ops.append(('WClose',))
            else:
                ops.append(('WWrite', rng.random() < 0.8))
        out.append(dict(target=t, ops=ops))
    return out


# ---------------------------------------------------------------------------
# defragment

def run_defrag(run, work, sc):
    ft = make_fault(sc['fault'], [2, 1])
    p = fresh_name(work)
    ip = p + '_index'
    with open(p, 'wb') as fh:
        fh.write(ft['data'])
    if sc['index_beside']:
        with open(ip, 'wb') as fh:
            fh.write(ft['index'])
    sub = os.path.join(work, "d%06d" % _counter[0])
    os.mkdir(sub)
    dp = os.path.join(sub, "out.tdms")
    src_ctx, dst_ctx = Ctx(p, ip), Ctx(dp, dp + "_index")
    problems = []
    with warnings.catch_warnings(record=True) as wlist:
        warnings.simplefilter('always')
        if sc['src'] == 'path':
            source = p
        elif sc['src'] == 'bytesio':
            source = src_ctx.caller_data = io.BytesIO(ft['data'])
        else:
            source = src_ctx.caller_data = open(p, 'rb')
        d = sc['dest']
        kw = {}
        if d == 'path':
            dest = dp
        elif d == 'path_index':
            dest, kw = dp, {'index_file': True}
        elif d == 'bytesio':
            dest = dst_ctx.caller_data = io.BytesIO()
        elif d == 'bytesio_index':
            dest = dst_ctx.caller_data = io.BytesIO()
            dst_ctx.caller_index = io.BytesIO()
            kw = {'index_file': dst_ctx.caller_index}
        elif d == 'failing':
            dest = dst_ctx.caller_data = FailingStream(sc['ok_writes'])
        else:
            raise ValueError(d)

        class Both:
            def sample(self):
                return src_ctx.sample(), dst_ctx.sample()
        out, _, (s1, s2), exc = observed(lambda: TdmsWriter.defragment(source, dest, **kw), Both())
        for label, s in (("source", s1), ("destination", s2)):
            if s[0] or s[1]:
                problems.append(("fd-left-open:defragment", "defragment (%s): %s descriptor opened by npTDMS still open"
                                 % (exc or "returned", label), "no library descriptor", list(s)))
            if s[2] or s[3]:
                problems.append(("caller-stream-closed", "defragment closed the caller's %s stream" % label,
                                 "caller streams stay open", list(s)))
        gc.collect()
        fin = finaliser_hits(wlist, src_ctx), finaliser_hits(wlist, dst_ctx)
        if any(fin[0]) or any(fin[1]):
            problems.append(("left-to-finaliser", "defragment left a file to the garbage collector",
                             "closed by npTDMS", [list(fin[0]), list(fin[1])]))
        for s in (src_ctx.caller_data, dst_ctx.caller_data, dst_ctx.caller_index):
            if s is not None:
                s.close()
    import shutil
    shutil.rmtree(sub, ignore_errors=True)
    for q in (p, ip):
        if os.path.exists(q):
            os.unlink(q)
    return out, s1, s2, problems


_defrag_calls = []


def defrag_write_calls():
    """Number of write() calls a defragment of the valid file makes on a destination stream
    (calibrated once by a dry run on a counting stream)."""
    if not _defrag_calls:
        class Counting(io.BytesIO):
            n = 0

            def write(self, b):
                Counting.n += 1
                return super().write(b)
        TdmsWriter.defragment(io.BytesIO(make_fault('valid', [2, 1])['data']), Counting())
        _defrag_calls.append(Counting.n)
    return _defrag_calls[0]


def defrag_abstract(sc):
    ft = make_fault(sc['fault'], [2, 1])
    src = abstract_source(sc['src'], ft['data'])
    via_index = src == 'Path' and sc['index_beside']
    fd, ca, cf = ft['via_index'] if via_index else ft['via_data']
    fc = (ft['meta_data'], ft['meta_index'], ft['build'], fd, ca, cf, ft['layout'])
    # the with-block writes the root, the group and the channel (3 segments); with a failing
    # destination stream one of the writes raises (which one does not matter to the handles)
    if sc['dest'] == 'failing' and sc['ok_writes'] < defrag_write_calls():
        body = [('BWrite', True), ('BRaise',)]
    else:
        body = [('BWrite', True)] * 3
    t = {"path": "(WPath false)", "path_index": "(WPath true)", "bytesio": "(WStream false)",
         "bytesio_index": "(WStream true)", "failing": "(WStream false)"}[sc['dest']]
    return src, fc, t, body


def coq_defrag_case(sc, out, s1, s2):
    src, fc, t, body = defrag_abstract(sc)
    return "((%s, %s, CNoFault, %s), (%s, WNoFault, %s), (%s, %s, %s))" % (
        src, H.cbool(sc['index_beside']), coq_fc(fc), t, H.clist([coq_bstmt(b) for b in body]),
        out, coq_snap(s1), coq_snap(s2))


def enumerate_defrag():
    out = []
    for fault in ('valid', 'bad_tag', 'unknown_type', 'index_mismatch', 'index_bad_tag', 'data_overrun', 'bad_path'):
        for src in ('path', 'bytesio', 'file'):
            for ib in (False, True):
                for dest in ('path', 'path_index', 'bytesio', 'bytesio_index'):
                    out.append(dict(fault=fault, src=src, index_beside=ib, dest=dest))
    for k in range(0, 8):
        out.append(dict(fault='valid', src='path', index_beside=False, dest='failing', ok_writes=k))
        out.append(dict(fault='valid', src='bytesio', index_beside=True, dest='failing', ok_writes=k))
    return out


# ---------------------------------------------------------------------------
# driving

def report_problems(run, problems, case, seen):
    for (key, what, expected, actual) in problems:
        run.violation(key, what, case, expected=expected, actual=actual)
        seen.add(key)


def correspond(run, label, case_type, fn_base, cases, metas):
    """Evaluate the model inside Coq under both variants of the D19 switch; the tree has to agree
    with one of them on every case.  Returns the set of variants that match all cases."""
    both = {'unpatched', 'patched'}
    if not cases:
        return both
    res = {}
    for variant in ('unpatched', 'patched'):
        bad, errors = H.run_sharded(PID, IMPORTS, case_type, "%s_%s" % (fn_base, variant), cases,
                                    shard=400, tag="%s_%s" % (label, variant))
        if errors:
            run.corr_errors(errors)
            return both
        res[variant] = bad
    match = {v for v in both if not res[v]}
    best = min(sorted(res), key=lambda v: len(res[v]))
    run.cov["traces_validated_against_impl"] += len(cases) - len(res[best])
    run.notes.append("%s: %d cases; disagreements with the model: unpatched variant %d, patched variant %d"
                     % (label, len(cases), len(res['unpatched']), len(res['patched'])))
    if not match:
        run.notes.append("%s: first disagreeing cases: %r" % (label, [
            {k: v for k, v in metas[i]["case"].items() if k not in ("ops", "layout", "kind")}
            for i in res[best][:12]]))
        for i in res[best][:3]:
            run.violation("corr-" + label,
                          "model (%s variant) and implementation disagree on %s scenario %r"
                          % (best, label, metas[i]["case"]), metas[i]["case"], kind="correspondence-broken",
                          theorem="Model.Resource vs nptdms (%s)" % label, actual=metas[i]["observed"],
                          model="re-run with --replay to print the model's trace",
                          no_input=not metas[i]["problems"])
    return match


def show_model(term):
    rc, out = H.coq_print_terms(PID, IMPORTS, [term], tag="show")
    return " ".join(out[-3000:].split())


def run_batch(run, work, fdlimit, readers, writers, defrags, label):
    seen = set()
    rcases, rmeta = [], []
    for sc in readers:
        ab, tr, fin, problems = run_reader(run, work, sc, fdlimit)
        case = dict(kind='reader', **sc)
        rcases.append(coq_reader_case(sc, ab, tr, fin))
        rmeta.append(dict(case=case, observed=dict(trace=[[o, list(s)] for o, s in tr], finaliser=list(fin)),
                          problems=problems))
        report_problems(run, problems, case, seen)
        gc.freeze()     # keep gc.collect() proportional to one scenario, not to the harness's records
        run.cov["evaluations"] += 1
        run.count("reader:%s:%s" % (sc['api'], 'fault' if sc['fault'] != 'valid' else 'valid'))
        run.count("reader_src:%s" % ab['src'])
        run.count("reader_api_outcome:%s" % tr[0][0])
        if sc['fault'] != 'valid' or len(tr) > 2:
            run.cov["distinct_nontrivial"] += 1
    wcases, wmeta = [], []
    for sc in writers:
        tr, fin, problems = run_writer(run, work, sc, fdlimit)
        case = dict(kind='writer', **sc)
        wcases.append(coq_writer_case(sc, tr, fin))
        wmeta.append(dict(case=case, observed=dict(trace=[[o, list(s)] for o, s in tr], finaliser=list(fin)),
                          problems=problems))
        report_problems(run, problems, case, seen)
        gc.freeze()
        run.cov["evaluations"] += 1
        run.cov["distinct_nontrivial"] += 1
        run.count("writer:%s" % sc['target'])
    dcases, dmeta = [], []
    for sc in defrags:
        out, s1, s2, problems = run_defrag(run, work, sc)
        case = dict(kind='defrag', **sc)
        dcases.append(coq_defrag_case(sc, out, s1, s2))
        dmeta.append(dict(case=case, observed=dict(outcome=out, source=list(s1), dest=list(s2)), problems=problems))
        report_problems(run, problems, case, seen)
        run.cov["evaluations"] += 1
        run.cov["distinct_nontrivial"] += 1
        run.count("defragment:%s->%s" % (sc['src'], sc['dest']))
    variants = {'unpatched', 'patched'}
    mixed = False
    for (lab, ctype, fn, cases, metas) in (
            ("reader_" + label, "scenario * list (outcome * snapshot) * (bool * bool)", "check_reader", rcases, rmeta),
            ("writer_" + label, "wtarget * list wop * list (outcome * snapshot) * (nat * nat)", "check_writer",
             wcases, wmeta),
            ("defrag_" + label, "(source * bool * cfault * fcond) * (wtarget * wfault * list bstmt) * "
             "(outcome * snapshot * snapshot)", "check_defrag", dcases, dmeta)):
        v = correspond(run, lab, ctype, fn, cases, metas)
        if v:
            mixed = mixed or not (variants & v)
            variants &= v
    if mixed:
        run.violation("variant-mix", "reader / writer / defragment agree with different variants of the D19 switch",
                      {}, kind="correspondence-broken", theorem="D19 switch", no_input=True)
    return dict(variants=variants, observed=[m['observed'] for m in rmeta + wmeta + dmeta])


def replay(run, work, fdlimit, case):
    kind = case.get('kind')
    c = {k: v for k, v in case.items() if k != 'kind'}
    if kind == 'reader':
        c['ops'] = [tuple(o) for o in c['ops']]
        r = run_batch(run, work, fdlimit, [c], [], [], "replay")
        print("observed on the implementation:", r['observed'][0])
        term = coq_scenario(c, reader_abstract(c))
        print("model trace (unpatched):", show_model("sc_trace false %s" % term))
        print("model trace (patched):  ", show_model("sc_trace true %s" % term))
    elif kind == 'writer':
        c['ops'] = [tuple([o[0], o[1], [tuple(b) for b in o[2]]]) if o[0] == 'WWith' else tuple(o) for o in c['ops']]
        r = run_batch(run, work, fdlimit, [], [c], [], "replay")
        print("observed on the implementation:", r['observed'][0])
        t, ops = coq_target(c['target']), H.clist([coq_wop(o) for o in c['ops']])
        print("model trace (unpatched):", show_model("w_trace false (w_init %s) %s" % (t, ops)))
        print("model trace (patched):  ", show_model("w_trace true (w_init %s) %s" % (t, ops)))
    elif kind == 'defrag':
        r = run_batch(run, work, fdlimit, [], [], [c], "replay")
        print("observed on the implementation:", r['observed'][0])
    else:
        print("replay: nothing to re-run for kind", kind)


def main():
    run = H.Run(PID)
    run.prove()
    work = str(H.workdir(PID))
    fdlimit = FdLimit()
    # warm up (imports, caches), then freeze the heap so that gc.collect() stays cheap
    run_reader(run, work, dict(fault='valid', layout=[2, 1], src='path', index_beside=True, cfault='none',
                               api='open', ops=[('OReadAll',), ('OClose',)]), fdlimit)
    gc.collect()
    gc.freeze()
    run.assumptions = [
        "descriptor lifetime is runtime behaviour (CPython reference counting, the OS): the theorems are about "
        "the ownership model, the tie is the measured agreement of this harness",
        "parse outcomes (does reading raise, at which stage) are inputs of the model, taken from the harness's "
        "fault table; a wrong table entry shows up as a disagreement",
        "/proc/self/fd is sampled after every call, for raising calls inside the except block while the "
        "exception is alive; only descriptors whose target is one of the scenario's files count",
        "the model carries a switch for defect D19; the tree must match one variant on all cases of the run",
    ]
    if run.replay:
        replay(run, work, fdlimit, json.load(open(run.replay))["case"])
        run.finish()
    rng = random.Random(run.seed)
    readers = enumerate_reader(rng) + random_reader(rng, run.pick(300, 20000), run.pick(10, 24))
    writers = enumerate_writer(rng) + random_writer(rng, run.pick(100, 5000), run.pick(5, 10))
    defrags = enumerate_defrag()
    variants = run_batch(run, work, fdlimit, readers, writers, defrags, run.tier)['variants']
    run.notes.append("code variant(s) of the D19 switch the tree agrees with on all cases: %s"
                     % (sorted(variants) or "none"))
    run.cov["rule"] = (
        "enumerated: %d fault kinds x 7 kinds of source x index file beside or not x 3 APIs with a follow-up "
        "history each, constructor failure points (missing file, EMFILE on the second open), writer with-blocks "
        "(8 bodies x 6 targets, open faults), defragment (7 faults x 3 sources x index x 4 destinations, failing "
        "destination stream); random: longer reader and writer histories. Non-trivial = a faulty file, or a "
        "history with at least two calls after the API call, or any writer/defragment scenario." % len(FAULTS))
    run.sample(dict(kind='reader', fault='index_mismatch', src='path', index_beside=True, api='open',
                    ops=['OReadIndex 0', 'OReadAll', 'OExit', 'OReadAll']))
    run.sample(dict(kind='reader', fault='valid', src='file', api='open',
                    ops=['OGenStart', 'OClose', 'OGenNext', 'OReadAll'], note="generator over the caller's stream"))
    run.sample(dict(kind='writer', target='path_index', ops=[['WWith', 'WNoFault', ['BWrite', 'BRaise']], 'WClose']))
    run.sample(dict(kind='defrag', fault='valid', src='path', dest='failing', ok_writes=3))
    run.finish()


if __name__ == "__main__":
    main()
