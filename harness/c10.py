"""C10 - Defragmenting a file preserves its content.

Proof: Props/C10.v (the call list defragment issues produces one segment per source object,
in order, with the source's properties, raw values and - with at least one value - data type).
Tie: TdmsWriter.defragment run on generated non-DAQmx sources (built with the real writer and
with an independent encoder: fragmented, interleaved, big-endian, matches-previous,
metadata-less and multi-chunk segments, empty / property-only / untyped channels, raw
timestamps, strings, scaling properties); direct oracle: TdmsFile.read(src, raw_timestamps=True)
against the same on the destination; correspondence: the destination bytes equal
Model/Defrag.v's bytes for the content read from the source (evaluated inside Coq).
"""
import io
import json
import os
import random
import struct
import sys

sys.path.insert(0, os.path.dirname(os.path.abspath(__file__)))
import common as H

H.ensure_env()

import warnings  # noqa: E402

import numpy as np  # noqa: E402

warnings.simplefilter("ignore")
import writer_cases as W  # noqa: E402

# ---------------------------------------------------------------------------
# independent encoder (after dev/probes/enc.py)

T_STRING, T_TIME = 0x20, 0x44
NUMERIC = [1, 2, 3, 4, 5, 6, 7, 8, 9, 10, 0x21, 0x08000c, 0x10000d]


def enc_str(x, e):
    b = x.encode("utf-8")
    return struct.pack(e + "L", len(b)) + b


def enc_obj(path, idx, props, e):
    """idx: None (no data) | 'prev' | (dtype, n) | (0x20, n, total)"""
    out = enc_str(path, e)
    if idx is None:
        out += struct.pack(e + "L", 0xFFFFFFFF)
    elif idx == "prev":
        out += struct.pack(e + "L", 0)
    elif idx[0] == T_STRING:
        out += struct.pack(e + "LLLQQ", 28, T_STRING, 1, idx[1], idx[2])
    else:
        out += struct.pack(e + "LLLQ", 20, idx[0], 1, idx[1])
    out += struct.pack(e + "L", len(props))
    for (n, t, v) in props:
        out += enc_str(n, e) + struct.pack(e + "L", t) + prop_bytes(t, v, e)
    return out


def enc_seg(objs, data, toc, e, version):
    meta = b"" if objs is None else struct.pack(e + "L", len(objs)) + b"".join(objs)
    return b"TDSm" + struct.pack("<l", toc) + struct.pack(e + "lQQ", version, len(meta) + len(data), len(meta)) \
        + meta + data


def store(ty, le_value, e):
    """canonical little-endian value bytes -> bytes in byte order e"""
    if e == "<":
        return le_value
    if ty in (0x08000c, 0x10000d):
        h = len(le_value) // 2
        return le_value[:h][::-1] + le_value[h:][::-1]
    return le_value[::-1]


def prop_bytes(ty, le_value, e):
    if ty == T_STRING:
        return struct.pack(e + "L", len(le_value)) + le_value
    return store(ty, le_value, e)


PROP_POOL = [
    (3, struct.pack("<l", -5)), (3, struct.pack("<l", 2 ** 31 - 1)), (7, struct.pack("<L", 2 ** 32 - 1)),
    (5, b"\x07"), (2, struct.pack("<h", -300)), (4, struct.pack("<q", -2 ** 63)), (8, struct.pack("<Q", 2 ** 64 - 1)),
    (8, struct.pack("<Q", 5)), (10, struct.pack("<d", 2.5)), (10, struct.pack("<d", float("inf"))),
    (9, struct.pack("<f", 1.25)), (0x21, b"\x01"), (0x21, b"\x00"), (T_STRING, "Volts".encode()),
    (T_STRING, "é中\U0001f600".encode()), (T_STRING, b""),
    (T_TIME, struct.pack("<Qq", 2 ** 63 + 12345, 3600000000)), (T_TIME, struct.pack("<Qq", 1, -5)),
    (T_TIME, struct.pack("<Qq", 2 ** 64 - 1, 0))]
PROP_NAMES = ["unit_string", "wf_increment", "wf_start_time", "description", "é", "p", "NI_ChannelName", "x'y"]


def gen_props(rng):
    names = rng.sample(PROP_NAMES, rng.choice([0, 0, 1, 1, 2, 3]))
    return [(n,) + rng.choice(PROP_POOL) for n in names]


def linear_scale_props(rng):
    return [("NI_Number_Of_Scales", 7, struct.pack("<L", 1)),
            ("NI_Scale[0]_Scale_Type", T_STRING, b"Linear"),
            ("NI_Scale[0]_Linear_Slope", 10, struct.pack("<d", rng.choice([2.0, -0.5, 1e-3]))),
            ("NI_Scale[0]_Linear_Y_Intercept", 10, struct.pack("<d", rng.choice([0.0, 1.0, -10.0])))]


def poly_scale_props(rng):
    return [("NI_Number_Of_Scales", 7, struct.pack("<L", 1)),
            ("NI_Scale[0]_Scale_Type", T_STRING, b"Polynomial"),
            ("NI_Scale[0]_Polynomial_Coefficients_Size", 7, struct.pack("<L", 3)),
            ("NI_Scale[0]_Polynomial_Coefficients[0]", 10, struct.pack("<d", 1.0)),
            ("NI_Scale[0]_Polynomial_Coefficients[1]", 10, struct.pack("<d", 0.5)),
            ("NI_Scale[0]_Polynomial_Coefficients[2]", 10, struct.pack("<d", -0.25))]


def gen_values(rng, ty, n):
    if ty == T_STRING:
        return [rng.choice(W.TEXTS).encode("utf-8") for _ in range(n)]
    if ty == T_TIME:
        return [struct.pack("<Qq", rng.choice([0, 1, 2 ** 63, 2 ** 64 - 1, rng.randint(0, 2 ** 64 - 1)]),
                            rng.choice([0, -1, 3700000000, rng.randint(-2 ** 40, 2 ** 40)])) for _ in range(n)]
    name = W.TYPE_NP[ty]
    raw = W.special_bytes(rng, name, n)
    sz = W.SIZES[ty]
    return [raw[i * sz:(i + 1) * sz] for i in range(n)]


def gen_source(rng):
    """-> dict(bytes=..., shape=description) built with the independent encoder"""
    version = rng.choice([4712, 4713])
    groups = rng.sample(W.NAMES, rng.choice([1, 1, 2, 3]))
    chans = []
    for g in groups:
        for c in rng.sample(W.NAMES, rng.choice([0, 1, 2, 2, 3])):
            k = rng.random()
            ty = None if k < 0.12 else T_STRING if k < 0.27 else T_TIME if k < 0.4 else rng.choice(NUMERIC)
            chans.append({"path": W.make_path(g, c), "ty": ty, "first": True})
    shapes = set()
    out = []
    prev_layout = None       # (e, interleaved, [(chan, n)], chunk bytes builder) of the previous segment
    nseg = rng.choice([1, 2, 3, 4, 5, 6])
    declared_group = set()
    wrote_root = False
    for si in range(nseg):
        e = ">" if rng.random() < 0.25 else "<"
        if prev_layout is not None and rng.random() < 0.15 and prev_layout["data_objs"]:
            # metadata-less segment: same object list and layout as the previous segment
            e = prev_layout["e"]
            data = build_data(rng, prev_layout["data_objs"], e, prev_layout["interleaved"], rng.choice([1, 1, 2]))
            toc = 8 | (64 if e == ">" else 0) | (32 if prev_layout["interleaved"] else 0)
            out.append(enc_seg(None, data, toc, e, version))
            shapes.add("metadata_less")
            continue
        objs, data_objs = [], []
        if not wrote_root or rng.random() < 0.2:
            objs.append(enc_obj("/", None, gen_props(rng), e))
            wrote_root = True
        for g in groups:
            if g not in declared_group or rng.random() < 0.15:
                if rng.random() < 0.85:
                    objs.append(enc_obj(W.make_path(g), None, gen_props(rng), e))
                    declared_group.add(g)
        members = [c for c in chans if rng.random() < 0.6]
        interleaved = (rng.random() < 0.25 and members and
                       all(c["ty"] not in (None, T_STRING, 0x08000c, 0x10000d) for c in members))
        n_common = rng.choice([1, 2, 3, 4])
        prev_counts = dict((c["path"], n) for (c, n) in prev_layout["data_objs"]) if prev_layout else {}
        for c in members:
            props = gen_props(rng)
            if c["first"] and c["ty"] in (1, 2, 3, 4, 5, 6, 7, 8, 9, 10) and rng.random() < 0.3:
                props += linear_scale_props(rng) if rng.random() < 0.6 else poly_scale_props(rng)
                shapes.add("scaled")
            c["first"] = False
            if c["ty"] is None:
                objs.append(enc_obj(c["path"], None, props, e))
                shapes.add("untyped")
                continue
            n = n_common if interleaved else rng.choice([0, 0, 1, 2, 3, 5])
            if n == 0:
                shapes.add("empty_" + ("string" if c["ty"] == T_STRING else "timestamp" if c["ty"] == T_TIME
                                       else "numeric"))
            use_prev = (c["path"] in prev_counts and prev_counts[c["path"]] == n and c["ty"] != T_STRING
                        and prev_layout["e"] == e and rng.random() < 0.4)
            data_objs.append((c, n))
            if use_prev:
                objs.append(enc_obj(c["path"], "prev", props, e))
                shapes.add("matches_previous")
            elif c["ty"] == T_STRING:
                objs.append(None)      # placeholder: the total size is known once the data is drawn
                data_objs[-1] = (c, n, len(objs) - 1, props)
            else:
                objs.append(enc_obj(c["path"], (c["ty"], n), props, e))
        nchunks = rng.choice([1, 1, 1, 2, 3]) if data_objs else 1
        if any(len(d) > 2 for d in data_objs):
            nchunks = 1 if rng.random() < 0.6 else nchunks
        # draw data; string totals must be equal in every chunk, so repeat the same strings' lengths
        chunks = []
        fixed = {}
        for k in range(nchunks):
            parts = []
            for d in data_objs:
                c, n = d[0], d[1]
                if c["ty"] == T_STRING:
                    if k == 0:
                        fixed[c["path"]] = gen_values(rng, T_STRING, n)
                    vals = fixed[c["path"]]
                    offs, acc = [], 0
                    for v in vals:
                        acc += len(v)
                        offs.append(struct.pack(e + "L", acc))
                    parts.append((c, n, b"".join(offs) + b"".join(vals), None))
                else:
                    vals = gen_values(rng, c["ty"], n)
                    parts.append((c, n, None, [store(c["ty"], v, e) for v in vals]))
            if interleaved:
                rows = []
                for i in range(n_common):
                    for (_, _, _, vals) in parts:
                        rows.append(vals[i])
                chunks.append(b"".join(rows))
            else:
                chunks.append(b"".join(p[2] if p[3] is None else b"".join(p[3]) for p in parts))
        for d in data_objs:
            if len(d) > 2:
                c, n, pos, props = d
                total = 4 * n + sum(len(v) for v in fixed[c["path"]])
                objs[pos] = enc_obj(c["path"], (T_STRING, n, total), props, e)
        data = b"".join(chunks)
        toc = 2 | 4 | (8 if data_objs else 0) | (64 if e == ">" else 0) | (32 if interleaved else 0)
        if not data_objs and rng.random() < 0.5:
            toc |= 8
        out.append(enc_seg(objs, data, toc, e, version))
        if e == ">":
            shapes.add("big_endian")
        if interleaved:
            shapes.add("interleaved")
        if nchunks > 1:
            shapes.add("multi_chunk")
        prev_layout = {"e": e, "interleaved": interleaved,
                       "data_objs": [(d[0], d[1]) for d in data_objs]}
    if nseg > 2:
        shapes.add("fragmented")
    return {"hex": b"".join(out).hex(), "shapes": sorted(shapes), "built_by": "encoder"}


def build_data(rng, data_objs, e, interleaved, nchunks):
    """raw data for a metadata-less segment with the previous layout (no strings there)"""
    chunks = []
    for _ in range(nchunks):
        parts = []
        for (c, n) in data_objs:
            if c["ty"] == T_STRING:
                vals = [b""] * n      # same total is required: only possible when the strings were empty
                parts.append(None)
                continue
            parts.append([store(c["ty"], v, e) for v in gen_values(rng, c["ty"], n)])
        if any(p is None for p in parts):
            return b""
        if interleaved:
            n = data_objs[0][1]
            chunks.append(b"".join(p[i] for i in range(n) for p in parts))
        else:
            chunks.append(b"".join(b"".join(p) for p in parts))
    return b"".join(chunks)


def gen_writer_source(rng, work, k):
    """a source built with the real writer (C07's generator, accepted cases only)"""
    cfg = {"rejects": False, "d11": False, "d12": False}
    for _ in range(20):
        case = W.gen_case(rng, cfg)
        res = W.run_writer(case, work, "src%d" % k)
        if "data" in res and res["data"]:
            return {"hex": res["data"].hex(), "shapes": ["writer_built"], "built_by": "writer"}
    return None


# ---------------------------------------------------------------------------
# observation of a file through the public API, raw timestamps

def value_bytes(ch, arr):
    """raw values of a channel as canonical little-endian byte strings"""
    from nptdms import types
    if ch.data_type is None:
        return []
    if ch.data_type is types.String:
        return [s.encode("utf-8") for s in arr]
    if ch.data_type is types.TimeStamp:
        return [struct.pack("<Qq", int(f), int(s)) for s, f in zip(arr.seconds, arr.second_fractions)]
    a = np.asarray(arr)
    raw = a.astype(a.dtype.newbyteorder("<"), copy=False).tobytes()
    sz = a.dtype.itemsize
    return [raw[i * sz:(i + 1) * sz] for i in range(len(a))]


def prop_obs(v):
    from nptdms.timestamp import TdmsTimestamp
    if isinstance(v, TdmsTimestamp):
        return ("ts", int(v.seconds), int(v.second_fractions))
    if isinstance(v, float):
        return ("float", struct.pack("<d", v) if v == v else b"nan")
    return (type(v).__name__, v)


def scaled_obs(ch):
    """scaled data, comparable with == (nan-safe, timestamps raw)"""
    from nptdms import types
    arr = ch[:]
    if ch.data_type is types.TimeStamp:
        return ("ts", [(int(s), int(f)) for s, f in zip(arr.seconds, arr.second_fractions)])
    if ch.data_type is types.String or ch.data_type is None:
        return ("list", list(arr))
    a = np.asarray(arr)
    return (str(a.dtype), a.astype(a.dtype.newbyteorder("<"), copy=False).tobytes() if a.dtype.kind != "f" else
            [("nan" if x != x else float(x).hex()) for x in a.astype(np.float64)])


def observe(f):
    """-> (root props, [(group, props, [(channel, type enum | None, len, values, props, scaled)])])"""
    root = [(k, prop_obs(v)) for k, v in f.properties.items()]
    groups = []
    for g in f.groups():
        chans = []
        for ch in g.channels():
            raw = ch.read_data(scaled=False)
            chans.append({"name": ch.name, "ty": None if ch.data_type is None else ch.data_type.enum_value,
                          "len": len(ch), "vals": value_bytes(ch, raw),
                          "props": [(k, prop_obs(v)) for k, v in ch.properties.items()],
                          "raw_props": list(ch.properties.items()), "scaled": scaled_obs(ch)})
        groups.append({"name": g.name, "props": [(k, prop_obs(v)) for k, v in g.properties.items()],
                       "raw_props": list(g.properties.items()), "chans": chans})
    return {"root": root, "raw_root": list(f.properties.items()), "groups": groups}


def compare(src, dst):
    """the C10 oracle -> list of (key, what, expected, actual)"""
    out = []
    if src["root"] != dst["root"]:
        out.append(("root-props", "root properties", src["root"], dst["root"]))
    if [g["name"] for g in src["groups"]] != [g["name"] for g in dst["groups"]]:
        out.append(("groups", "group names / order", [g["name"] for g in src["groups"]],
                    [g["name"] for g in dst["groups"]]))
        return out
    for gs, gd in zip(src["groups"], dst["groups"]):
        if gs["props"] != gd["props"]:
            out.append(("group-props", "properties of group %r" % gs["name"], gs["props"], gd["props"]))
        if [c["name"] for c in gs["chans"]] != [c["name"] for c in gd["chans"]]:
            out.append(("channels", "channels of group %r" % gs["name"], [c["name"] for c in gs["chans"]],
                        [c["name"] for c in gd["chans"]]))
            continue
        for cs, cd in zip(gs["chans"], gd["chans"]):
            where = "channel %r/%r" % (gs["name"], cs["name"])
            if cs["props"] != cd["props"]:
                out.append(("channel-props", "properties of " + where, cs["props"], cd["props"]))
            if cs["len"] != cd["len"]:
                out.append(("length", "length of " + where, cs["len"], cd["len"]))
            elif cs["vals"] != cd["vals"]:
                out.append(("raw-values", "raw values of " + where, [v.hex() for v in cs["vals"]],
                            [v.hex() for v in cd["vals"]]))
            if cs["len"] >= 1 and cs["ty"] != cd["ty"]:
                out.append(("dtype", "data type of " + where, cs["ty"], cd["ty"]))
            if cs["len"] == cd["len"] and cs["len"] >= 1 and cs["scaled"] != cd["scaled"]:
                out.append(("scaled", "scaled data of " + where, repr(cs["scaled"])[:300], repr(cd["scaled"])[:300]))
    return out


# ---------------------------------------------------------------------------
# Coq term of the content read from the source

def c_typed_prop(name, v):
    from nptdms.timestamp import TdmsTimestamp
    nm = W.c_str(name)
    if isinstance(v, TdmsTimestamp):
        return "mkProp %s %d %s" % (nm, T_TIME, W.c_bytes(struct.pack("<Qq", int(v.second_fractions), int(v.seconds))))
    if isinstance(v, bool):
        return "mkProp %s %d %s" % (nm, 0x21, W.c_bytes(bytes([int(v)])))
    if isinstance(v, int):
        if -2 ** 31 <= v < 2 ** 31:
            return "mkProp %s 3 %s" % (nm, W.c_bytes(struct.pack("<l", v)))
        if v < 2 ** 63:
            return "mkProp %s 4 %s" % (nm, W.c_bytes(struct.pack("<q", v)))
        return "mkProp %s 8 %s" % (nm, W.c_bytes(struct.pack("<Q", v)))
    if isinstance(v, float):
        return "mkProp %s 10 %s" % (nm, W.c_bytes(struct.pack("<d", v)))
    if isinstance(v, str):
        return "mkProp %s %d %s" % (nm, T_STRING, W.c_str(v))
    raise W.Unsupported(type(v).__name__)


def c_content(obs):
    groups = []
    for g in obs["groups"]:
        chans = ["mkDChan %s %s %s %s" % (W.c_str(c["name"]), H.copt(c["ty"], lambda t: "%d" % t),
                                          H.clist([W.c_bytes(v) for v in c["vals"]]),
                                          H.clist([c_typed_prop(k, v) for k, v in c["raw_props"]]))
                 for c in g["chans"]]
        groups.append("mkDGroup %s %s %s" % (W.c_str(g["name"]),
                                             H.clist([c_typed_prop(k, v) for k, v in g["raw_props"]]),
                                             H.clist(chans)))
    return "mkDContent %s %s" % (H.clist([c_typed_prop(k, v) for k, v in obs["raw_root"]]), H.clist(groups))


IMPORTS = ("From NpTdms Require Import Base.Bytes Base.Res Model.Tokens Model.ByteStr Model.StrictParse "
           "Model.Writer Model.Defrag.\nOpen Scope Z_scope.\n")


# ---------------------------------------------------------------------------

def run_case(run, case, work, k, coq_cases, coq_meta):
    from nptdms import TdmsFile, TdmsWriter
    srcb = bytes.fromhex(case["hex"])
    run.cov["evaluations"] += 1
    try:
        src = observe(TdmsFile.read(io.BytesIO(srcb), raw_timestamps=True))
    except Exception as e:
        run.count("unreadable_source_" + type(e).__name__)
        return
    for s in case["shapes"]:
        run.count("shape_" + s)
    run.count("dest_" + case["dest"])
    run.count("index_" + case["index"])
    want_index = case["index"] == "on"
    version = case["version"]
    try:
        if case["source_as"] == "path":
            sp = os.path.join(str(work), "s%d.tdms" % k)
            with open(sp, "wb") as fh:
                fh.write(srcb)
            source = sp
        else:
            source = io.BytesIO(srcb)
        if case["dest"] == "stream":
            dbuf, ibuf = io.BytesIO(), (io.BytesIO() if want_index else False)
            TdmsWriter.defragment(source, dbuf, version=version, index_file=ibuf)
            destb, indexb = dbuf.getvalue(), (ibuf.getvalue() if want_index else None)
        else:
            dp = os.path.join(str(work), "d%d.tdms" % k)
            for p in (dp, dp + "_index"):
                if os.path.exists(p):
                    os.remove(p)
            TdmsWriter.defragment(source, dp, version=version, index_file=want_index)
            destb = open(dp, "rb").read()
            indexb = open(dp + "_index", "rb").read() if want_index else None
    except Exception as e:
        key = {"RuntimeError": "d2-defragment-raises-RuntimeError",
               "TypeError": "d7-defragment-raises-TypeError"}.get(type(e).__name__,
                                                                    "defragment-raises-" + type(e).__name__)
        run.violation(key, "TdmsWriter.defragment raised %r on a readable non-DAQmx source [%s]"
                      % (e, ", ".join(case["shapes"])), case, expected="a destination file", actual=repr(e))
        return
    finally:
        for f in os.listdir(str(work)):
            if f.startswith(("s%d." % k, "d%d." % k)):
                os.remove(os.path.join(str(work), f))
    nontrivial = sum(len(g["chans"]) for g in src["groups"]) >= 1
    if nontrivial:
        run.cov["distinct_nontrivial"] += 1
    bad = False
    try:
        dst = observe(TdmsFile.read(io.BytesIO(destb), raw_timestamps=True))
    except Exception as e:
        run.violation("dest-unreadable", "the destination cannot be read: %r" % e, case, actual=repr(e))
        return
    for (key, what, exp, act) in compare(src, dst)[:2]:
        bad = True
        run.violation(key, "destination differs from source: %s [%s]" % (what, ", ".join(case["shapes"])), case,
                      expected=exp, actual=act)
    # the destination is structurally valid and its index is the positional strip (as C08)
    try:
        segs = W.pystrict_lenient(destb, [])     # the index length field is C08's subject (D6)
        nobj = 1 + sum(1 + len(g["chans"]) for g in src["groups"])
        if len(segs) != nobj:
            bad = True
            run.violation("segment-count", "destination has %d segments for %d objects" % (len(segs), nobj), case,
                          expected=nobj, actual=len(segs))
        if indexb is not None and W.py_strip(destb) != indexb:
            bad = True
            run.violation("index-twin", "destination index file is not the strip of the destination", case)
    except W.StrictError as e:
        bad = True
        run.violation(e.key, "destination is not structurally valid: " + e.what, case, actual=e.what)
    try:
        coq_cases.append("(%s, %s, (%s, %s))" % (H.cz(version), c_content(src), W.c_bytes(destb),
                                                 H.copt(indexb, W.c_bytes)))
        coq_meta.append((case, bad))
    except W.Unsupported:
        run.count("outside_model")


def process(run, cases):
    work = H.workdir(run.pid)
    coq_cases, coq_meta = [], []
    for k, case in enumerate(cases):
        run_case(run, case, work, k, coq_cases, coq_meta)
    bad, errors = H.run_sharded(run.pid, IMPORTS, "Z * dcontent * (bytes * option bytes)", "check_defrag",
                                coq_cases, shard=40, tag="defrag")
    run.corr_errors(errors)
    run.cov["traces_validated_against_impl"] += len(coq_cases) - len(bad)
    for i in bad[:3]:
        case, oracle_bad = coq_meta[i]
        if oracle_bad:
            run.count("model_mismatch_on_a_case_the_oracle_already_reported")
            continue
        run.violation("corr-defrag", "Model/Defrag.v and TdmsWriter.defragment disagree on the destination bytes [%s]"
                      % ", ".join(case["shapes"]), case, kind="correspondence-broken",
                      theorem="Model.Defrag.defrag vs TdmsWriter.defragment", no_input=True)



# ---------------------------------------------------------------------------
# Proofs/DefragFull.v retype_prop (the round trip of a property value through Python:
# TdmsFile.properties -> _to_tdms_value) against the real code

RETYPE_IMPORTS = IMPORTS + "From NpTdms Require Import Proofs.DefragFull.\n"


def retype_pool():
    """(TDMS type, canonical little-endian value bytes): every readable property type, boundary values"""
    pool = list(PROP_POOL)
    for ty, fmt, bits, signed in [(1, "<b", 8, True), (2, "<h", 16, True), (3, "<l", 32, True), (4, "<q", 64, True),
                                  (5, "<B", 8, False), (6, "<H", 16, False), (7, "<L", 32, False),
                                  (8, "<Q", 64, False)]:
        lo, hi = (-2 ** (bits - 1), 2 ** (bits - 1) - 1) if signed else (0, 2 ** bits - 1)
        for v in sorted(set([lo, hi, 0, 1, -1, 127, 128, 255, 256, 2 ** 31 - 1, 2 ** 31, -2 ** 31, -2 ** 31 - 1,
                             2 ** 32, 2 ** 63 - 1, 2 ** 63, 2 ** 63 + 1])):
            if lo <= v <= hi:
                pool.append((ty, struct.pack(fmt, v)))
    for ty in (9, 0x19):
        for x in (0.0, -0.0, 1.25, -3.5, 3.4028234663852886e38, 1e-45, float("inf"), float("-inf")):
            pool.append((ty, struct.pack("<f", x)))
    for ty in (10, 0x1A):
        for x in (0.0, -0.0, 2.5, 1e308, 5e-324, float("inf"), float("-inf")):
            pool.append((ty, struct.pack("<d", x)))
        pool.append((ty, bytes.fromhex("010000000000f87f")))      # a NaN with a payload
    for b in (0, 1, 2, 0x7f, 0x80, 0xff):
        pool.append((0x21, bytes([b])))
    return pool


def retype_tie(run):
    from nptdms import TdmsWriter
    cases, meta = [], []
    for k, (ty, le_value) in enumerate(retype_pool()):
        for e in ("<", ">"):
            name = PROP_NAMES[k % len(PROP_NAMES)]
            src = enc_seg([enc_obj("/", None, [(name, ty, le_value)], e)], b"", 2 | 4 | (64 if e == ">" else 0), e, 4713)
            out = io.BytesIO()
            try:
                TdmsWriter.defragment(io.BytesIO(src), out, version=4712)
                segs = W.pystrict_lenient(out.getvalue(), [])
                (pn, pt, pv), = segs[0]["entries"][0]["props"]
            except Exception as ex:
                run.violation("retype-raises", "defragment of a one-property source raised %r (type 0x%x, value %s)"
                              % (ex, ty, le_value.hex()), {"hex": src.hex(), "shapes": ["one_property"],
                                                           "built_by": "encoder", "version": 4712, "index": "off",
                                                           "dest": "stream", "source_as": "stream"},
                              actual=repr(ex))
                continue
            run.count("retype_0x%x_to_0x%x" % (ty, pt))
            cases.append("(mkProp %s %d %s, (%s, %d, %s))" % (W.c_str(name), ty, W.c_bytes(le_value),
                                                             W.c_str(pn), pt, W.c_bytes(pv)))
            meta.append((ty, le_value.hex(), e, pt, pv.hex()))
    bad, errors = H.run_sharded(run.pid, RETYPE_IMPORTS, "prop * (bytes * Z * bytes)", "check_retype", cases,
                                shard=200, tag="retype")
    run.corr_errors(errors)
    run.cov["traces_validated_against_impl"] += len(cases) - len(bad)
    run.cov["evaluations"] += len(cases)
    for i in bad[:3]:
        ty, hv, e, pt, pv = meta[i]
        run.violation("corr-retype", "Proofs/DefragFull.v retype_prop and the real code disagree: property type 0x%x "
                      "value %s (source byte order %s) was written as type 0x%x value %s" % (ty, hv, e, pt, pv),
                      {"type": ty, "value": hv, "endian": e}, kind="correspondence-broken",
                      theorem="DefragFull.retype_prop vs _to_tdms_value", no_input=True)


def make_cases(run, rng, n):
    work = H.workdir(run.pid)
    cases = []
    for k in range(n):
        c = gen_writer_source(rng, work, k) if rng.random() < 0.3 else gen_source(rng)
        if c is None:
            continue
        c.update({"version": rng.choice([4712, 4713]), "index": rng.choice(["off", "on"]),
                  "dest": rng.choice(["stream", "path"]), "source_as": rng.choice(["stream", "path"])})
        cases.append(c)
    return cases


def main():
    run = H.Run("C10")
    run.prove()
    if run.replay:
        process(run, [json.load(open(run.replay))["case"]])
        run.finish()
    rng = random.Random(run.seed)
    cases = make_cases(run, rng, run.pick(300, 6000))
    for c in cases[:3]:
        run.sample({"shapes": c["shapes"], "bytes": len(c["hex"]) // 2, "built_by": c["built_by"],
                    "dest": c["dest"], "index": c["index"]})
    step = 1500
    for k in range(0, len(cases), step):
        process(run, cases[k:k + step])
    retype_tie(run)
    run.cov["rule"] = ("generated non-DAQmx source files: 70% from an independent encoder (1-6 segments; big-endian, "
                       "interleaved, multi-chunk, metadata-less and matches-previous segments; untyped, property-only, "
                       "empty string / timestamp / numeric channels; strings, raw timestamps, all numeric types incl. "
                       "complex; Linear / Polynomial scaling properties), 30% written by TdmsWriter from C07's call "
                       "generator; source as stream or path, destination as stream or path, index on/off, versions "
                       "4712/4713. Non-trivial = a source with at least one channel.")
    run.assumptions = ["the reader's view of the source is taken as the source content (reader correctness: C01-C03)",
                       "property TDMS types are not part of the comparison (the reader API does not expose them; "
                       "defragment re-types ints by magnitude and floats as double); values and raw timestamps are",
                       "DAQmx sources are outside the property",
                       "retype_tie: one-property sources, every readable property type with boundary values, both "
                       "byte orders; single-precision NaN properties are not in the pool (the reader model keeps a "
                       "signalling NaN's payload unquieted, CPython quiets it)"]
    run.finish()


if __name__ == "__main__":
    main()
