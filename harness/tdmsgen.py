"""Independent TDMS encoder, random generator of well-formed file syntax with its
reference meaning, and the observer that flattens what npTDMS's public API shows
into the token list Model/Reader.v's [observe] produces.

Nothing here imports nptdms except the observer functions at the bottom.
"""
import io
import random
import struct

# ---------------------------------------------------------------------------
# type table: enum -> (size or None, struct letter or None)

T_STRING, T_BOOL, T_TIME, T_C64, T_C128, T_DAQMX = 0x20, 0x21, 0x44, 0x08000C, 0x10000D, 0xFFFFFFFF
SIZES = {1: 1, 2: 2, 3: 4, 4: 8, 5: 1, 6: 2, 7: 4, 8: 8, 9: 4, 10: 8, 0x19: 4, 0x1A: 8,
         T_BOOL: 1, T_TIME: 16, T_C64: 8, T_C128: 16}
FIXED_TYPES = sorted(SIZES)
READABLE_TYPES = FIXED_TYPES + [T_STRING]       # the 17 readable channel data types
PROP_TYPES = [1, 2, 3, 4, 5, 6, 7, 8, 9, 10, 0x19, 0x1A, T_STRING, T_BOOL, T_TIME]

TOC_META, TOC_NEWLIST, TOC_RAW, TOC_INTERLEAVED, TOC_BIG, TOC_DAQMX = 2, 4, 8, 32, 64, 128
UNKNOWN = 0xFFFFFFFFFFFFFFFF


def canon_to_stored(e, ty, v):
    """canonical little-endian value bytes -> bytes as stored in byte order e"""
    if e == "<":
        return v
    if ty in (T_C64, T_C128):
        h = len(v) // 2
        return v[:h][::-1] + v[h:][::-1]
    return v[::-1]


def put_str(e, b):
    return struct.pack(e + "L", len(b)) + b


class Prop:
    def __init__(self, name, ty, val):
        self.name, self.ty, self.val = name, ty, val   # name: bytes, val: canonical bytes


class Entry:
    """One object listed in a segment's metadata.
    idx: None (no data) | 'prev' | ('full', len_field, dt, dim, n, total_or_None)
         | ('daqmx', kind, dt, dim, n, scalers, widths)"""
    def __init__(self, path, idx, props=()):
        self.path, self.idx, self.props = path, idx, list(props)


class Seg:
    def __init__(self, e="<", toc=TOC_META | TOC_NEWLIST | TOC_RAW, version=4713, entries=None, data=b"",
                 next_mode="exact", next_val=None):
        self.e, self.toc, self.version = e, toc, version
        self.entries = entries            # None when the metadata flag is unset
        self.data = data
        self.next_mode = next_mode        # 'exact' | 'unknown' | 'value'
        self.next_val = next_val


def ser_entry(e, x):
    out = put_str(e, x.path)
    if x.idx is None:
        out += struct.pack(e + "L", 0xFFFFFFFF)
    elif x.idx == "prev":
        out += struct.pack(e + "L", 0)
    elif x.idx[0] == "full":
        _, lf, dt, dim, n, total = x.idx
        out += struct.pack(e + "LLLQ", lf, dt, dim, n)
        if total is not None:
            out += struct.pack(e + "Q", total)
    else:
        _, kind, dt, dim, n, scalers, widths = x.idx
        out += struct.pack(e + "LLLQL", kind, dt, dim, n, len(scalers))
        for (sty, buf, off, fmt, sid) in scalers:
            if kind == 0x126A:
                out += struct.pack(e + "LLLBL", sty, buf, off, fmt, sid)
            else:
                out += struct.pack(e + "LLLLL", sty, buf, off, fmt, sid)
        out += struct.pack(e + "L", len(widths))
        for w in widths:
            out += struct.pack(e + "L", w)
    out += struct.pack(e + "L", len(x.props))
    for p in x.props:
        out += put_str(e, p.name) + struct.pack(e + "L", p.ty)
        out += put_str(e, p.val) if p.ty == T_STRING else canon_to_stored(e, p.ty, p.val)
    return out


def ser_metadata(e, entries):
    return struct.pack(e + "L", len(entries)) + b"".join(ser_entry(e, x) for x in entries)


def ser_seg(s, tag=b"TDSm", with_data=True):
    e = s.e
    toc = s.toc | (TOC_BIG if e == ">" else 0)
    meta = b"" if s.entries is None else ser_metadata(e, s.entries)
    if s.next_mode == "exact":
        nxt = len(meta) + len(s.data)
    elif s.next_mode == "unknown":
        nxt = UNKNOWN
    else:
        nxt = s.next_val
    lead = tag + struct.pack("<L", toc) + struct.pack(e + "lQQ", s.version, nxt, len(meta))
    return lead + meta + (s.data if with_data else b"")


def ser_file(segs):
    return b"".join(ser_seg(s) for s in segs)


def ser_index(segs):
    return b"".join(ser_seg(s, tag=b"TDSh", with_data=False) for s in segs)


# ---------------------------------------------------------------------------
# paths

def quote_path(*comps):
    return ("/" + "/".join("'" + c.replace("'", "''") + "'" for c in comps)).encode("utf-8")


# ---------------------------------------------------------------------------
# random values

NAME_POOL = ["a", "b", "g", "ch", "Group", "x y", "it's", "a/b", "é", "中文", "", "'", "/", "n1", "n2", "ü'/"]


def rand_value(rng, ty):
    """canonical little-endian bytes of a random value of fixed-size type ty"""
    sz = SIZES[ty]
    r = rng.random()
    if ty == T_BOOL:
        return bytes([rng.choice([0, 1])])
    if ty == T_TIME:
        secs = rng.choice([0, 1, -1, 3600000000, -2 ** 40, 2 ** 33, rng.randrange(-2 ** 35, 2 ** 35)])
        fr = rng.choice([0, 1, 2 ** 63, 2 ** 64 - 1, rng.randrange(0, 2 ** 64)])
        return struct.pack("<Qq", fr, secs)
    if r < 0.15:
        return rng.choice([b"\x00" * sz, b"\xff" * sz, b"\x00" * (sz - 1) + b"\x80", b"\xff" * (sz - 1) + b"\x7f"])
    return bytes(rng.randrange(256) for _ in range(sz))


def rand_string(rng):
    n = rng.choice([0, 0, 1, 2, 3, 5, 9])
    pool = ["a", "b", " ", "é", "中", "\U0001f600", "'", "/", "\x00", "Z"]
    return "".join(rng.choice(pool) for _ in range(n)).encode("utf-8")


def rand_prop(rng, name=None):
    ty = rng.choice(PROP_TYPES)
    nm = (name if name is not None else rng.choice(["p", "q", "unit", "NI_x", "é", "", "wf_increment"])).encode("utf-8")
    if ty == T_STRING:
        return Prop(nm, ty, rand_string(rng))
    v = rand_value(rng, ty)
    if ty in (9, 0x19) and rng.random() < 0.15:
        # float32 property: NaNs, signalling ones included (widening to double quiets them and keeps the payload;
        # Model/Reader.v f32_to_f64_bits says so), infinities, denormals
        v = bytes.fromhex(rng.choice(["0100807f", "0000c07f", "0000a0ff", "ffffbf7f", "0000807f", "000080ff",
                                      "01000000", "ffff7f00", "00000080"]))
    return Prop(nm, ty, v)


# ---------------------------------------------------------------------------
# reference semantics ("meaning"): a direct statement of the TDMS rules

class Content:
    def __init__(self):
        self.order = []          # object paths in order of first appearance
        self.props = {}          # path -> ordered dict name -> Prop
        self.dtype = {}          # path -> enum or None
        self.values = {}         # path -> list of canonical value bytes (strings: utf-8 bytes)
        self.version = None

    def touch(self, path):
        if path not in self.props:
            self.order.append(path)
            self.props[path] = {}
            self.dtype[path] = None
            self.values[path] = []


class SpecError(Exception):
    pass


class SpecState:
    """The textbook rules: active object list per segment, most recent index per path."""
    def __init__(self):
        self.active = []         # list of [path, has_data]
        self.last_index = {}     # path -> (dt, n, total)
        self.nsegs = 0

    def apply_metadata(self, seg):
        if seg.entries is None:
            if self.nsegs == 0:
                raise SpecError("first segment without metadata")
            return
        if seg.toc & TOC_NEWLIST or self.nsegs == 0:
            self.active = []
        pos = {a[0]: i for i, a in enumerate(self.active)}
        for x in seg.entries:
            if x.idx is None:
                hd = False
            elif x.idx == "prev":
                if x.path not in self.last_index:
                    raise SpecError("matches-previous for an object never defined")
                hd = True
            else:
                _, lf, dt, dim, n, total = x.idx
                if x.path in self.last_index and self.last_index[x.path][0] != dt:
                    raise SpecError("type change")
                self.last_index[x.path] = (dt, n, total)
                hd = True
            if x.path in pos:
                self.active[pos[x.path]][1] = hd
            else:
                pos[x.path] = len(self.active)
                self.active.append([x.path, hd])

    def data_objects(self):
        return [(p, self.last_index[p]) for (p, hd) in self.active if hd]


def split_chunk_contig(e, dobjs, data, pos, content):
    for (p, (dt, n, total)) in dobjs:
        if dt == T_STRING:
            offs = struct.unpack(e + "%dL" % n, data[pos:pos + 4 * n])
            pos += 4 * n
            prev = 0
            for o in offs:
                content.values[p].append(data[pos:pos + o - prev])
                pos += o - prev
                prev = o
        else:
            sz = SIZES[dt]
            for k in range(n):
                stored = data[pos:pos + sz]
                content.values[p].append(canon_to_stored(e, dt, stored))   # involution
                pos += sz
    return pos


def meaning(segs):
    """Reference content of a well-formed file syntax (complete chunks only)."""
    c = Content()
    st = SpecState()
    for s in segs:
        if c.version is None:
            c.version = s.version
        st.apply_metadata(s)
        st.nsegs += 1
        for (p, hd) in st.active:
            c.touch(p)
            if p in st.last_index:
                c.dtype[p] = st.last_index[p][0]
        if s.entries is not None:
            for x in s.entries:
                for pr in x.props:
                    c.props[x.path][pr.name] = pr
        dobjs = st.data_objects()
        e = s.e
        data = s.data
        if not dobjs or not data:
            continue
        if s.toc & TOC_INTERLEAVED and all(dt != T_STRING for (_, (dt, _, _)) in dobjs):
            width = sum(SIZES[dt] for (_, (dt, _, _)) in dobjs)
            nrows = len(data) // width
            for r in range(nrows):
                pos = r * width
                for (p, (dt, n, total)) in dobjs:
                    sz = SIZES[dt]
                    c.values[p].append(canon_to_stored(e, dt, data[pos:pos + sz]))
                    pos += sz
        else:
            csize = sum((total if dt == T_STRING else n * SIZES[dt]) for (_, (dt, n, total)) in dobjs)
            pos = 0
            while csize > 0 and pos + csize <= len(data):
                pos = split_chunk_contig(e, dobjs, data, pos, c)
    return c


# ---------------------------------------------------------------------------
# generator of well-formed syntax

class GenParams:
    def __init__(self, **kw):
        self.max_segs = 5
        self.max_groups = 3
        self.max_chans = 4
        self.max_vals = 4
        self.max_chunks = 3
        self.types = READABLE_TYPES
        self.p_interleaved = 0.3
        self.p_big = 0.35
        self.p_nometa = 0.15
        self.p_keep_list = 0.5
        self.p_props = 0.5
        self.mixed_endian = True
        self.p_unknown_last = 0.0
        self.names = NAME_POOL
        self.min_vals = 0
        self.p_permute = 0.12       # a new object list naming the previous list's objects in another order
        self.__dict__.update(kw)


def gen_file(rng, P=None):
    """Returns list of Seg (well-formed by construction)."""
    P = P or GenParams()
    ngroups = rng.randint(0, P.max_groups)
    gnames = rng.sample(P.names, ngroups) if ngroups else []
    chans = []                 # (path bytes, dtype)
    group_paths = []
    for g in gnames:
        if rng.random() < 0.8:
            group_paths.append(quote_path(g))
        for cn in rng.sample(P.names, rng.randint(0, min(P.max_chans, len(P.names)))):
            chans.append((quote_path(g, cn), rng.choice(P.types)))
    chans = chans[:max(1, P.max_chans * 2)]
    file_big = rng.random() < P.p_big
    segs = []
    st = SpecState()
    prev_entries = None
    nsegs = rng.randint(1, P.max_segs)
    for si in range(nsegs):
        e = (">" if rng.random() < P.p_big else "<") if P.mixed_endian else (">" if file_big else "<")
        version = 4713 if rng.random() < 0.7 else 4712
        toc = TOC_META | TOC_RAW
        entries = None
        if si > 0 and rng.random() < P.p_nometa:
            toc = TOC_RAW          # metadata-less segment: everything carries over
        elif si > 0 and prev_entries and len(prev_entries) > 1 and rng.random() < P.p_permute:
            # the same objects as the previous metadata block, listed in another order in a NEW object list
            # (same set of paths, different positions: what an order-insensitive cache key would confuse)
            toc |= TOC_NEWLIST
            entries = []
            for x in prev_entries:
                if isinstance(x.idx, tuple):
                    dt = x.idx[2]
                    n = rng.randint(P.min_vals, P.max_vals)
                    entries.append(Entry(x.path, ("full", 28 if dt == T_STRING else 20, dt, 1, n, None), []))
                elif x.idx == "prev" and x.path in st.last_index:
                    entries.append(Entry(x.path, "prev", []))
                else:
                    entries.append(Entry(x.path, None, []))
            order = entries[:]
            while len(entries) > 1 and [y.path for y in entries] == [y.path for y in order]:
                rng.shuffle(entries)
        else:
            if si == 0 or rng.random() > P.p_keep_list:
                toc |= TOC_NEWLIST
            entries = []
            active_now = {a[0]: a[1] for a in st.active} if not (toc & TOC_NEWLIST) else {}
            # root / groups (property carriers, sometimes listed)
            if si == 0 and rng.random() < 0.8 or rng.random() < 0.2:
                entries.append(Entry(b"/", None, [rand_prop(rng) for _ in range(rng.randint(0, 2))]))
            for gp in group_paths:
                if rng.random() < (0.7 if si == 0 else 0.2):
                    entries.append(Entry(gp, None, [rand_prop(rng) for _ in range(rng.randint(0, 2))]))
            listed = set(x.path for x in entries)
            for (p, dt) in rng.sample(chans, len(chans)):
                if p in listed:
                    continue
                r = rng.random()
                props = [rand_prop(rng) for _ in range(rng.randint(0, 2))] if rng.random() < P.p_props else []
                if r < 0.25 and not (p in active_now):
                    continue                                    # unlisted and not carried over
                if r < 0.25:
                    continue                                    # unlisted: carries over unchanged
                if r < 0.40:
                    entries.append(Entry(p, None, props))       # no data
                elif r < 0.60 and p in st.last_index:
                    entries.append(Entry(p, "prev", props))     # same as before
                else:
                    n = rng.randint(P.min_vals, P.max_vals)
                    entries.append(Entry(p, ("full", 28 if dt == T_STRING else 20, dt, 1, n, None), props))
                listed.add(p)
            rng.shuffle(entries)
        if entries is not None:
            prev_entries = entries
        seg = Seg(e=e, toc=toc, version=version, entries=entries)
        # decide layout before fixing string totals: apply metadata on a copy of the state
        st.apply_metadata(seg)
        st.nsegs += 1
        dobjs = st.data_objects()
        interleaved = False
        if dobjs and rng.random() < P.p_interleaved:
            sized = all(dt != T_STRING for (_, (dt, _, _)) in dobjs)
            if sized:
                # interleaved needs equal lengths: rewrite the counts of the objects listed with a
                # full index in this segment; only possible if every data object is so listed
                full_listed = {x.path for x in (entries or []) if isinstance(x.idx, tuple)}
                if all(p in full_listed for (p, _) in dobjs):
                    n = rng.randint(P.min_vals, P.max_vals)
                    for x in entries:
                        if isinstance(x.idx, tuple):
                            x.idx = ("full", 20, x.idx[2], 1, n, None)
                            st.last_index[x.path] = (x.idx[2], n, None)
                    interleaved = True
                elif len(set(n for (_, (_, n, _)) in dobjs)) == 1:
                    interleaved = True
        if interleaved:
            seg.toc |= TOC_INTERLEAVED
        dobjs = st.data_objects()
        nchunks = rng.randint(0 if rng.random() < 0.15 else 1, P.max_chunks)
        data = b""
        if interleaved:
            n = dobjs[0][1][1]
            for _ in range(n * nchunks):
                for (p, (dt, _, _)) in dobjs:
                    data += canon_to_stored(e, dt, rand_value(rng, dt))
        else:
            # string channels: the total size is part of the index, so it is fixed for all
            # chunks of this segment and for later matches-previous reuse
            str_shapes = {}
            for (p, (dt, n, total)) in dobjs:
                if dt == T_STRING:
                    if total is None:
                        lens = [len(rand_string(rng)) for _ in range(n)]
                        total = 4 * n + sum(lens)
                        st.last_index[p] = (dt, n, total)
                        for x in entries:
                            if x.path == p and isinstance(x.idx, tuple):
                                x.idx = ("full", 28, dt, 1, n, total)
                    str_shapes[p] = total
            dobjs = st.data_objects()
            for _ in range(nchunks):
                for (p, (dt, n, total)) in dobjs:
                    if dt == T_STRING:
                        # n strings whose lengths add up to total - 4n
                        rest = total - 4 * n
                        strs = []
                        for k in range(n):
                            if k == n - 1:
                                ln = rest
                            else:
                                ln = rng.randint(0, rest)
                            s = fit_utf8(rng, ln)
                            strs.append(s)
                            rest -= len(s)
                        if n > 0 and rest:
                            strs[-1] += b"a" * rest
                        acc = 0
                        for s in strs:
                            acc += len(s)
                            data += struct.pack(e + "L", acc)
                        data += b"".join(strs)
                    else:
                        for _k in range(n):
                            data += canon_to_stored(e, dt, rand_value(rng, dt))
            if dobjs and all((total if dt == T_STRING else n * SIZES[dt]) == 0 for (_, (dt, n, total)) in dobjs):
                data = b""
        # fix string totals that stayed None because the object had no data this segment
        for x in (entries or []):
            if isinstance(x.idx, tuple) and x.idx[2] == T_STRING and x.idx[5] is None:
                n = x.idx[4]
                x.idx = ("full", 28, T_STRING, 1, n, 4 * n)
                st.last_index[x.path] = (T_STRING, n, 4 * n)
        seg.data = data
        segs.append(seg)
    if rng.random() < P.p_unknown_last:
        segs[-1].next_mode = "unknown"
    return segs


def fit_utf8(rng, nbytes):
    """random valid UTF-8 of at most nbytes bytes (exactly nbytes when it can)"""
    out = b""
    pool = [b"a", b"Z", b" ", "é".encode(), "中".encode(), "\U0001f600".encode(), b"'", b"/"]
    while len(out) < nbytes:
        c = rng.choice(pool)
        if len(out) + len(c) <= nbytes:
            out += c
        else:
            out += b"x"
    return out


# ---------------------------------------------------------------------------
# token observation (mirrors Model/Reader.v: obs_*)

def TZ(z):
    return ("Z", int(z))


def TB(b):
    return ("B", bytes(b))


def toks_to_coq(toks):
    out = []
    for k, v in toks:
        out.append("TZ (%d)" % v if k == "Z" else 'TB (hex "%s")' % v.hex())
    return "[" + "; ".join(out) + "]"


def f32_bytes_to_f64_bytes(b4):
    return struct.pack("<d", struct.unpack("<f", b4)[0])


def obs_prop_expected(p):
    ty, v = p.ty, p.val
    if 1 <= ty <= 4:
        return [TZ(0), TZ(int.from_bytes(v, "little", signed=True))]
    if 5 <= ty <= 8:
        return [TZ(0), TZ(int.from_bytes(v, "little"))]
    if ty in (9, 0x19):
        return [TZ(1), TB(f32_bytes_to_f64_bytes(v))]
    if ty in (10, 0x1A):
        return [TZ(1), TB(v)]
    if ty == T_BOOL:
        return [TZ(2), TZ(0 if v == b"\x00" else 1)]
    if ty == T_STRING:
        return [TZ(3), TB(v)]
    if ty == T_TIME:
        fr, secs = struct.unpack("<Qq", v)
        return [TZ(4), TZ(secs), TZ(fr)]
    raise ValueError(ty)


def parse_path(pb):
    """canonical path bytes -> list of component strings (generator paths are canonical)"""
    s = pb.decode("utf-8")
    comps, i = [], 1
    while i < len(s):
        assert s[i] == "'"
        i += 1
        cur = ""
        while True:
            if s[i] == "'" and i + 1 < len(s) and s[i + 1] == "'":
                cur += "'"
                i += 2
            elif s[i] == "'":
                i += 1
                break
            else:
                cur += s[i]
                i += 1
        comps.append(cur)
        i += 1      # skip '/'
    return comps


def expected_tokens(c, status=None, with_data=True):
    """Token list of the reference content, laid out as TdmsFile shows it."""
    def props(path):
        ps = c.props.get(path, {})
        out = [TZ(len(ps))]
        for nm, p in ps.items():
            out += [TB(nm)] + obs_prop_expected(p)
        return out
    toks = [TZ(c.version if c.version is not None else 0)]
    toks += props(b"/")
    declared, gchans = [], {}
    for p in c.order:
        comps = parse_path(p)
        if len(comps) == 1 and comps[0] not in declared:
            declared.append(comps[0])
        if len(comps) == 2:
            gchans.setdefault(comps[0], []).append(p)
    groups = declared + [g for g in gchans if g not in declared]
    toks.append(TZ(len(groups)))
    for g in groups:
        gp = quote_path(g)
        toks.append(TB(g.encode("utf-8")))
        toks += props(gp) if gp in c.props else [TZ(0)]
        chs = gchans.get(g, [])
        toks.append(TZ(len(chs)))
        for p in chs:
            comps = parse_path(p)
            dt = c.dtype[p]
            toks += [TB(comps[1].encode("utf-8")), TB(g.encode("utf-8")), TB(p),
                     TZ(dt if dt is not None else -1), TZ(len(c.values[p]))]
            toks += props(p)
            if with_data:
                if dt is None:
                    toks.append(TZ(2))
                else:
                    toks += [TZ(0), TZ(len(c.values[p]))] + [TB(v) for v in c.values[p]]
    toks += status if status is not None else [TZ(0), TZ(0)]
    return toks


# ---- observer of the implementation ------------------------------------------------

def obs_prop_impl(v):
    import numpy as np
    from nptdms.timestamp import TdmsTimestamp
    if isinstance(v, (bool, np.bool_)):
        return [TZ(2), TZ(1 if v else 0)]
    if isinstance(v, (int, np.integer)):
        return [TZ(0), TZ(int(v))]
    if isinstance(v, (float, np.floating)):
        return [TZ(1), TB(struct.pack("<d", float(v)))]
    if isinstance(v, str):
        return [TZ(3), TB(v.encode("utf-8", errors="surrogatepass"))]
    if isinstance(v, TdmsTimestamp):
        return [TZ(4), TZ(int(v.seconds)), TZ(int(v.second_fractions))]
    return [TZ(9)]


def canon_array_values(arr):
    """numpy array / list -> list of canonical little-endian value bytes"""
    import numpy as np
    from nptdms.timestamp import TimestampArray
    if isinstance(arr, TimestampArray):
        secs = np.asarray(arr.seconds).astype("<i8")
        fr = np.asarray(arr.second_fractions).astype("<u8")
        return [struct.pack("<Qq", int(f), int(s)) for f, s in zip(fr, secs)]
    arr = np.asarray(arr)
    if arr.dtype == object:
        return [x.encode("utf-8", errors="surrogatepass") if isinstance(x, str) else bytes(x) for x in arr]
    le = arr.astype(arr.dtype.newbyteorder("<"), copy=False)
    raw = le.tobytes()
    sz = le.dtype.itemsize
    return [raw[i:i + sz] for i in range(0, len(raw), sz)]


def obs_props_impl(d):
    out = [TZ(len(d))]
    for k, v in d.items():
        out += [TB(k.encode("utf-8", errors="surrogatepass"))] + obs_prop_impl(v)
    return out


def obs_status_impl(f):
    st = f.file_status
    out = [TZ(1 if st.incomplete_final_segment else 0)]
    if st.channel_statuses is None:
        out.append(TZ(0))
    else:
        out += [TZ(1), TZ(len(st.channel_statuses))]
        for p, cs in st.channel_statuses.items():
            out += [TB(p.encode("utf-8", errors="surrogatepass")), TZ(int(cs.expected_length)), TZ(int(cs.read_length))]
    return out


def obs_channel_data_impl(ch):
    """what an eager read left in the channel (raw, unscaled)"""
    if ch.data_type is None:
        # no receiver; public API: raw_data of an untyped channel
        return [TZ(2)]
    sd = ch.raw_scaler_data if ch.data_type.enum_value == T_DAQMX else None
    if sd is not None and ch.data_type.enum_value == T_DAQMX:
        out = [TZ(1), TZ(len(sd))]
        for sid in sorted(sd):
            vals = canon_array_values(sd[sid])
            out += [TZ(int(sid)), TZ(len(vals))] + [TB(v) for v in vals]
        return out
    vals = canon_array_values(ch.raw_data)
    return [TZ(0), TZ(len(vals))] + [TB(v) for v in vals]


def observe_file(f, with_data=True):
    """TdmsFile -> token list (same layout as Model/Reader.v obs_hierarchy ++ obs_status)"""
    toks = [TZ(int(f.tdms_version) if f.tdms_version is not None else 0)]
    toks += obs_props_impl(f.properties)
    groups = f.groups()
    toks.append(TZ(len(groups)))
    for g in groups:
        toks.append(TB(g.name.encode("utf-8", errors="surrogatepass")))
        toks += obs_props_impl(g.properties)
        chs = g.channels()
        toks.append(TZ(len(chs)))
        for ch in chs:
            toks += [TB(ch.name.encode("utf-8", errors="surrogatepass")),
                     TB(ch.group_name.encode("utf-8", errors="surrogatepass")),
                     TB(ch.path.encode("utf-8", errors="surrogatepass")),
                     TZ(ch.data_type.enum_value if ch.data_type is not None else -1), TZ(len(ch))]
            toks += obs_props_impl(ch.properties)
            if with_data:
                toks += obs_channel_data_impl(ch)
    toks += obs_status_impl(f)
    return toks


def read_eager(data, **kw):
    """-> (tokens or None, exception or None)"""
    from nptdms import TdmsFile
    import warnings
    try:
        with warnings.catch_warnings():
            warnings.simplefilter("ignore")
            f = TdmsFile.read(io.BytesIO(data), raw_timestamps=True, **kw)
            return observe_file(f), None
    except Exception as ex:      # noqa: BLE001 - every exception class is an observation
        return None, ex


class ShortReadintoStream(io.RawIOBase):
    """A seekable caller-supplied stream whose read(n) is complete but whose readinto delivers at most `limit` bytes
    per call - allowed by the io contract; the reader has to loop until the buffer is full or the stream ends."""

    def __init__(self, data, limit):
        super().__init__()
        self._data, self._pos, self._limit = bytes(data), 0, limit

    def readable(self):
        return True

    def seekable(self):
        return True

    def tell(self):
        return self._pos

    def seek(self, offset, whence=io.SEEK_SET):
        base = {io.SEEK_SET: 0, io.SEEK_CUR: self._pos, io.SEEK_END: len(self._data)}[whence]
        self._pos = base + offset
        return self._pos

    def read(self, n=-1):
        if n is None or n < 0:
            n = max(0, len(self._data) - self._pos)
        out = self._data[self._pos:self._pos + n]
        self._pos += len(out)
        return out

    def readinto(self, b):
        n = min(len(b), self._limit, max(0, len(self._data) - self._pos))
        memoryview(b).cast("B")[:n] = self._data[self._pos:self._pos + n]
        self._pos += n
        return n


def read_eager_from(make_stream, **kw):
    """TdmsFile.read on the stream make_stream() returns -> (tokens or None, exception or None)"""
    from nptdms import TdmsFile
    import warnings
    try:
        with warnings.catch_warnings():
            warnings.simplefilter("ignore")
            st = make_stream()
            try:
                f = TdmsFile.read(st, raw_timestamps=True, **kw)
                return observe_file(f), None
            finally:
                try:
                    st.close()
                except Exception:
                    pass
    except Exception as ex:      # noqa: BLE001
        return None, ex


def silence_logs():
    import logging
    logging.getLogger("nptdms").setLevel(logging.CRITICAL)
    try:
        from nptdms.log import log_manager
        log_manager.set_level(logging.CRITICAL)
    except Exception:
        pass


# ---------------------------------------------------------------------------
# transformations of file syntax that must not change the meaning

def _walk_values(e, dobjs, data, interleaved, fn):
    """Re-emit the raw data of one segment value by value.  fn(dt, stored, e) -> new stored bytes;
    for strings fn is given the raw bytes unchanged and offsets are re-packed by the caller."""
    out = b""
    if interleaved:
        width = sum(SIZES[dt] for (_, (dt, _, _)) in dobjs)
        nrows = len(data) // width if width else 0
        pos = 0
        for _ in range(nrows):
            for (p, (dt, n, total)) in dobjs:
                sz = SIZES[dt]
                out += fn(dt, data[pos:pos + sz])
                pos += sz
        return out + data[pos:]
    csize = sum((total if dt == T_STRING else n * SIZES[dt]) for (_, (dt, n, total)) in dobjs)
    pos = 0
    while csize > 0 and pos + csize <= len(data):
        for (p, (dt, n, total)) in dobjs:
            if dt == T_STRING:
                offs = struct.unpack(e + "%dL" % n, data[pos:pos + 4 * n])
                out += fn("offsets", offs)
                pos += 4 * n
                ln = offs[-1] if n else 0
                out += data[pos:pos + ln]
                pos += ln
            else:
                sz = SIZES[dt]
                for _k in range(n):
                    out += fn(dt, data[pos:pos + sz])
                    pos += sz
    return out + data[pos:]


def transcode(segs, endians):
    """Same content, segment i stored in byte order endians[i]."""
    st = SpecState()
    out = []
    for s, e2 in zip(segs, endians):
        st.apply_metadata(s)
        st.nsegs += 1
        dobjs = st.data_objects()
        interleaved = bool(s.toc & TOC_INTERLEAVED) and all(dt != T_STRING for (_, (dt, _, _)) in dobjs)
        e1 = s.e

        def fn(dt, stored):
            if dt == "offsets":
                return struct.pack(e2 + "%dL" % len(stored), *stored)
            return canon_to_stored(e2, dt, canon_to_stored(e1, dt, stored))
        data = _walk_values(e1, dobjs, s.data, interleaved, fn) if dobjs else s.data
        out.append(Seg(e=e2, toc=s.toc, version=s.version, entries=s.entries, data=data,
                       next_mode=s.next_mode, next_val=s.next_val))
    return out


def explicit_form(segs):
    """The fully explicit encoding of the same content: every segment starts a new object list
    and restates every active object with its full index (or 'no data')."""
    st = SpecState()
    out = []
    for s in segs:
        st.apply_metadata(s)
        st.nsegs += 1
        props = {}
        order_props = []
        if s.entries is not None:
            for x in s.entries:
                if x.props:
                    props[x.path] = x.props      # a path is listed at most once per segment
        entries = []
        for (p, hd) in st.active:
            if hd:
                dt, n, total = st.last_index[p]
                idx = ("full", 28 if dt == T_STRING else 20, dt, 1, n, total)
            else:
                idx = None
            entries.append(Entry(p, idx, props.get(p, [])))
        out.append(Seg(e=s.e, toc=(s.toc | TOC_META | TOC_NEWLIST), version=s.version, entries=entries,
                       data=s.data, next_mode=s.next_mode, next_val=s.next_val))
    return out


def read_lazy(data, raw_timestamps=True):
    """TdmsFile.open + read_data(scaled=False) per channel -> tokens laid out as read_eager's"""
    from nptdms import TdmsFile
    import warnings
    try:
        with warnings.catch_warnings():
            warnings.simplefilter("ignore")
            with TdmsFile.open(io.BytesIO(data), raw_timestamps=raw_timestamps) as f:
                toks = [TZ(int(f.tdms_version) if f.tdms_version is not None else 0)]
                toks += obs_props_impl(f.properties)
                groups = f.groups()
                toks.append(TZ(len(groups)))
                for g in groups:
                    toks.append(TB(g.name.encode("utf-8", errors="surrogatepass")))
                    toks += obs_props_impl(g.properties)
                    chs = g.channels()
                    toks.append(TZ(len(chs)))
                    for ch in chs:
                        toks += [TB(ch.name.encode("utf-8", errors="surrogatepass")),
                                 TB(ch.group_name.encode("utf-8", errors="surrogatepass")),
                                 TB(ch.path.encode("utf-8", errors="surrogatepass")),
                                 TZ(ch.data_type.enum_value if ch.data_type is not None else -1), TZ(len(ch))]
                        toks += obs_props_impl(ch.properties)
                        if ch.data_type is None:
                            toks.append(TZ(2))
                            continue
                        d = ch.read_data(scaled=False)
                        if isinstance(d, dict):
                            toks += [TZ(1), TZ(len(d))]
                            for sid in sorted(d):
                                vals = canon_array_values(d[sid])
                                toks += [TZ(int(sid)), TZ(len(vals))] + [TB(v) for v in vals]
                        else:
                            vals = canon_array_values(d)
                            toks += [TZ(0), TZ(len(vals))] + [TB(v) for v in vals]
                toks += obs_status_impl(f)
                return toks, None
    except Exception as ex:      # noqa: BLE001
        return None, ex
