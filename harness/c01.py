"""C01 — Reading returns exactly the content the file encodes.

Direct oracle: TdmsFile.read of independently encoded well-formed files equals the
reference meaning (tdmsgen.meaning).  Correspondence: the Coq reader model
(Model/Reader.v rd_all) evaluated on the same bytes equals what the implementation
shows, on well-formed files and on a malformed stream (accept/reject + content).
"""
import os
import random
import sys

sys.path.insert(0, os.path.dirname(os.path.abspath(__file__)))
import common as H

H.ensure_env()
import tdmsgen as G          # noqa: E402
import readerlib as R        # noqa: E402

G.silence_logs()


def type_focus_params(rng):
    """parameter sets that force particular type x layout x chunking combinations"""
    k = rng.random()
    if k < 0.25:
        return G.GenParams(p_interleaved=0.9, types=G.FIXED_TYPES, max_chunks=3, min_vals=1)
    if k < 0.40:
        return G.GenParams(p_interleaved=0.0, types=[G.T_STRING, 3, G.T_TIME], max_chunks=3)
    if k < 0.55:
        return G.GenParams(types=[G.T_C64, G.T_C128, 4, 8, 10, G.T_TIME], p_interleaved=0.6, min_vals=1)
    if k < 0.65:
        return G.GenParams(max_segs=8, max_vals=2, p_nometa=0.3, p_keep_list=0.8)
    return G.GenParams()


def check_file(run, segs, label):
    data = G.ser_file(segs)
    content = G.meaning(segs)
    expected = G.expected_tokens(content)
    impl, ex = G.read_eager(data)
    run.cov["evaluations"] += 1
    run.count(label)
    nontrivial = len(segs) >= 2 and sum(len(v) for v in content.values.values()) > 0
    for s in segs:
        run.count("seg_" + ("interleaved" if s.toc & G.TOC_INTERLEAVED else "contiguous"))
        run.count("seg_" + ("BE" if s.e == ">" else "LE"))
        if s.entries is None:
            run.count("seg_nometa")
    for p in content.order:
        if content.dtype.get(p) is not None and content.values[p]:
            run.count("type_%#x" % content.dtype[p])
    failed = impl != expected
    if failed:
        types = sorted({content.dtype[p] for p in content.order if content.dtype.get(p) is not None})
        inter = any(s.toc & G.TOC_INTERLEAVED for s in segs)
        key = "eager-%s" % (R.exc_kind(ex) or "content")
        if ex is not None and "from_bytes" in str(ex) and inter:
            key = "d1-interleaved-complex"
        run.violation(key, "TdmsFile.read differs from the encoded content (%s; types %s; interleaved=%s): %s"
                      % (R.exc_kind(ex) or "wrong content", [hex(t) for t in types], inter,
                         str(ex)[:200] if ex else R.first_diff(impl, expected)),
                      {"op": "read", "hex": data.hex(), "desc": R.describe_segs(segs)},
                      expected="reference meaning of the file syntax",
                      actual=repr(ex)[:300] if ex else R.first_diff(impl, expected))
    if not failed:
        stream_kinds(run, segs, data, expected)
    return data, impl, failed, nontrivial


_GZ_DIR = None


def stream_kinds(run, segs, data, expected):
    """the content read must not depend on the kind of stream the bytes come from: a caller-supplied stream that
    delivers short readinto results, a gzip stream (whose fileno() is that of the compressed file), a path"""
    global _GZ_DIR
    import gzip, os, tempfile
    k = run.cov["evaluations"]
    kinds = [("short_readinto", lambda: G.ShortReadintoStream(data, 1 + k % 7))]
    if k % 3 == 0:
        if _GZ_DIR is None:
            _GZ_DIR = tempfile.mkdtemp(prefix="streams_", dir=str(H.workdir("C01")))
        gz = os.path.join(_GZ_DIR, "f.tdms.gz")
        with gzip.open(gz, "wb") as fh:
            fh.write(data)
        kinds.append(("gzip", lambda: gzip.open(gz, "rb")))
        plain = os.path.join(_GZ_DIR, "f.tdms")
        with open(plain, "wb") as fh:
            fh.write(data)
        kinds.append(("binary_file", lambda: open(plain, "rb")))
    for name, make in kinds:
        got, ex = G.read_eager_from(make)
        run.cov["evaluations"] += 0
        run.count("stream_" + name)
        if got != expected:
            run.violation("stream-%s-%s" % (name, R.exc_kind(ex) or "content"),
                          "TdmsFile.read of the same bytes through a %s stream differs from the encoded content: %s"
                          % (name, str(ex)[:200] if ex else R.first_diff(got, expected)),
                          {"op": "read_stream", "stream": name, "limit": 1 + k % 7, "hex": data.hex(),
                           "desc": R.describe_segs(segs)},
                          expected="reference meaning of the file syntax",
                          actual=repr(ex)[:300] if ex else R.first_diff(got, expected))


def mutate(rng, data):
    """one malformed variant of a well-formed file"""
    b = bytearray(data)
    k = rng.random()
    if k < 0.35 and len(b) > 8:
        i = rng.randrange(4, len(b))
        b[i] = rng.randrange(256)
    elif k < 0.55 and len(b) > 30:
        i = rng.randrange(4, len(b))
        del b[i:i + rng.choice([1, 2, 4, 8])]
    elif k < 0.7:
        i = rng.randrange(4, len(b) + 1)
        b[i:i] = bytes(rng.randrange(256) for _ in range(rng.choice([1, 4, 8])))
    elif k < 0.85 and len(b) > 40:
        # corrupt a 32-bit field to a boundary value
        i = rng.randrange(4, len(b) - 4)
        b[i:i + 4] = rng.choice([b"\x00\x00\x00\x00", b"\xff\xff\xff\xff", b"\x01\x00\x00\x00", b"\x00\x00\x00\x80"])
    else:
        b = b[:rng.randrange(4, len(b) + 1)]
    return bytes(b)


def spec_tie(run, files):
    """The SPEC of Props/C01_spec.v (Model/Spec.v: spec_meaning, spec_tokens - what reader_refines_spec says the
    reader returns) is evaluated inside Coq on the generated file SYNTAX and compared with the Python reference
    rules (tdmsgen.meaning / expected_tokens) that the implementation is compared with above; FileSyn.ser_file is
    compared with the independent encoder on the same syntax.  So the specification is exercised, not trusted."""
    import spec_tie as T
    files = files[:run.pick(240, 3000)]
    cases, keep = [], []
    for segs in files:
        try:
            expected = G.expected_tokens(G.meaning(segs))
        except G.SpecError:
            continue
        keep.append(segs)
        cases.append("((%s, %s), %s)" % (T.c_segs(segs), G.toks_to_coq(expected), H.chex(G.ser_file(segs))))
    for fn, what in (("tie_tok", "spec_tokens (spec_meaning syntax) differs from the Python reference meaning"),
                     ("tie_ser", "FileSyn.ser_file differs from the independent encoder")):
        bad, errors = H.run_sharded("C01", T.IMPORTS, "tie_case", fn, cases, shard=max(1, -(-len(cases) // H.NCPU)),
                                    extra_defs=T.EXTRA_DEFS, tag="spec_" + fn, timeout=900)
        for name, out in errors:
            run.violation("spec-tie-coq-error", "Coq failed on the specification tie (%s): %s" % (name, out[-400:]),
                          {"op": "spec_tie", "fn": fn}, kind="correspondence-broken", no_input=True)
        for i in sorted(bad)[:5]:
            run.violation("spec-tie-" + fn, "Model/Spec.v vs harness/tdmsgen.py: %s" % what,
                          {"op": "read", "hex": G.ser_file(keep[i]).hex(), "desc": R.describe_segs(keep[i])},
                          kind="correspondence-broken", no_input=True)
        run.count("spec_tie_%s_cases" % fn, len(cases))
        run.count("spec_tie_%s_disagreements" % fn, len(bad))
    run.cov["traces_validated_against_impl"] = run.cov.get("traces_validated_against_impl", 0)


def main():
    run = H.Run("C01")
    run.prove()
    rng = random.Random(run.seed)
    if run.replay:
        import json
        case = json.load(open(run.replay))["case"]
        data = bytes.fromhex(case["hex"])
        if case.get("op") == "read_stream":
            # the same bytes through the recorded kind of stream against the BytesIO read
            import gzip, os
            base, bex = G.read_eager(data)
            kind = case.get("stream")
            if kind == "short_readinto":
                make = lambda: G.ShortReadintoStream(data, int(case.get("limit", 3)))
            else:
                path = os.path.join(str(H.workdir("C01")), "replay.tdms" + (".gz" if kind == "gzip" else ""))
                with (gzip.open(path, "wb") if kind == "gzip" else open(path, "wb")) as fh:
                    fh.write(data)
                make = (lambda: gzip.open(path, "rb")) if kind == "gzip" else (lambda: open(path, "rb"))
            got, ex = G.read_eager_from(make)
            run.cov["evaluations"] += 1
            if got != base:
                run.violation("replay-stream-%s" % kind, "the %s stream still reads differently from BytesIO: %s"
                              % (kind, str(ex)[:200] if ex else R.first_diff(got, base)), case,
                              actual=repr(ex)[:300] if ex else R.first_diff(got, base))
            run.finish()
        impl, ex = G.read_eager(data)
        exp = case.get("expected_tokens")
        R.run_agree_all(run, [R.case_all(data, impl)], [{"data": data, "impl": R.exc_kind(ex)}], "replay", "replay")
        if ex is not None and case.get("desc"):
            run.violation("replay", "still raises %r" % ex, case, actual=repr(ex))
        run.finish()
    n = run.pick(320, 12000)
    cases, meta = [], []
    spec_files = []
    for i in range(n):
        segs = G.gen_file(rng, type_focus_params(rng))
        spec_files.append(segs)
        data, impl, failed, nontrivial = check_file(run, segs, "wellformed")
        if nontrivial:
            run.cov["distinct_nontrivial"] += 1
        cases.append(R.case_all(data, impl))
        meta.append({"data": data, "impl": "tokens" if impl is not None else "raised",
                     "desc": R.describe_segs(segs), "oracle_failed": failed})
        if i < 2:
            run.sample({"segments": R.describe_segs(segs), "bytes": len(data)})
    R.run_agree_all(run, cases, meta, "wf", "well-formed file")
    spec_tie(run, spec_files)
    # Model/FileParse.v parse_file (the two-sided inverse of ser_file, Props/C01_bytes.v) evaluated in Coq on the
    # independent encoder's bytes and compared with the generator's syntax; single-fault mutants that still parse must
    # re-serialise to themselves and read alike in model and implementation
    import parse_tie
    parse_tie.parse_tie(run, spec_files[:run.pick(200, 2500)])
    # malformed stream: accept/reject agreement, and equal content when both accept
    m = run.pick(200, 6000)
    cases, meta = [], []
    accepted = 0
    for i in range(m):
        segs = G.gen_file(rng, G.GenParams(max_segs=3, max_chans=2, max_vals=3))
        data = mutate(rng, G.ser_file(segs))
        impl, ex = G.read_eager(data)
        # invalid UTF-8 is decoded with replacement characters: not comparable byte for byte
        if impl is not None and any(k == "B" and b"\xef\xbf\xbd" in v for k, v in impl):
            run.count("malformed_skipped_utf8")
            continue
        if isinstance(ex, MemoryError) or (ex is not None and any(
                s in str(ex) for s in ("Maximum allowed dimension", "array is too big", "negative dimensions",
                                       "too large", "cannot fit"))):
            # a corrupted count asks NumPy for an impossible allocation: resource behaviour, not logic
            run.count("malformed_skipped_memoryerror")
            continue
        run.cov["evaluations"] += 1
        run.count("malformed_" + (R.exc_kind(ex) or "accepted"))
        accepted += impl is not None
        cases.append(R.case_all(data, impl))
        meta.append({"data": data, "impl": R.exc_kind(ex) or "tokens"})
    R.run_agree_all(run, cases, meta, "malformed", "malformed file")
    run.cov["rule"] = ("random well-formed file syntax (1-8 segments, 0-3 groups, up to 8 channels over the 17 readable "
                       "types, 0-4 values, 0-3 chunks, contiguous/interleaved, per-segment byte order, full / "
                       "matches-previous / no-data / unlisted / metadata-less encodings, properties of all 15 "
                       "property types) encoded by an independent encoder; plus single-fault mutations of such files. "
                       "Non-trivial = at least 2 segments and at least one channel value.")
    run.assumptions = ["NumPy's reinterpretation of bytes as typed arrays is observed as bytes (canonical little endian)",
                      "UTF-8 decoding trusted; files whose strings are not valid UTF-8 are not compared",
                      "the composed theorem rd_all (ser f) = meaning f is partial (see Props/C01.v)"]
    run.finish()


if __name__ == "__main__":
    main()
