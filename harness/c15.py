"""C15 — Byte order of a segment does not change its meaning.

Oracle: each generated content serialised (a) with the generated per-segment byte orders,
(b) all little-endian, (c) all big-endian, (d) a fresh random assignment: identical observations
(objects, properties, values in canonical form, lengths, dtypes), eagerly and lazily, raw and
converted timestamps.  Correspondence: Model/Reader.v on each variant.
"""
import io
import os
import random
import sys
import warnings

sys.path.insert(0, os.path.dirname(os.path.abspath(__file__)))
import common as H

H.ensure_env()
import tdmsgen as G          # noqa: E402
import readerlib as R        # noqa: E402

G.silence_logs()


def converted_timestamps(data):
    """timestamp channel data and properties as datetime64 (raw_timestamps=False)"""
    from nptdms import TdmsFile
    import numpy as np
    out = []
    try:
        with warnings.catch_warnings():
            warnings.simplefilter("ignore")
            f = TdmsFile.read(io.BytesIO(data))
        for g in f.groups():
            for ch in g.channels():
                if ch.data_type is not None and ch.data_type.enum_value == G.T_TIME:
                    out.append((ch.path, [int(x) for x in np.asarray(ch[:]).astype("int64")]))
                for k, v in ch.properties.items():
                    if isinstance(v, np.datetime64):
                        out.append((ch.path, k, int(v.astype("int64"))))
        return out, None
    except Exception as ex:   # noqa: BLE001
        return None, ex


def check_content(run, rng, segs, cases, meta):
    n = len(segs)
    variants = {"as_generated": segs,
                "all_LE": G.transcode(segs, ["<"] * n),
                "all_BE": G.transcode(segs, [">"] * n),
                "random": G.transcode(segs, [rng.choice("<>") for _ in range(n)])}
    base = None
    base_ts = None
    content = G.meaning(segs)
    expected = G.expected_tokens(content)
    for name, v in variants.items():
        data = G.ser_file(v)
        impl, ex = G.read_eager(data)
        run.cov["evaluations"] += 1
        run.count("variant_" + name)
        failed = False
        if impl != expected:
            failed = True
            run.violation("endian-meaning", "variant %s reads differently from the encoded content: %s"
                          % (name, repr(ex)[:200] if ex else R.first_diff(impl, expected)),
                          {"op": "read", "hex": data.hex(), "desc": R.describe_segs(v)},
                          expected="reference meaning", actual=repr(ex)[:300] if ex else R.first_diff(impl, expected))
        if base is None:
            base = impl
        elif impl != base and not failed:
            failed = True
            run.violation("endian-differs", "variant %s differs from the generated encoding: %s"
                          % (name, R.first_diff(impl, base)),
                          {"op": "read", "hex": data.hex(), "desc": R.describe_segs(v)}, actual=R.first_diff(impl, base))
        if name in ("all_BE", "random"):
            lz, ex3 = G.read_lazy(data)
            if lz != impl and not failed:
                failed = True
                run.violation("endian-lazy", "lazy read of variant %s differs from eager: %s"
                              % (name, repr(ex3)[:200] if ex3 else R.first_diff(lz, impl)),
                              {"op": "lazy", "hex": data.hex(), "desc": R.describe_segs(v)},
                              actual=repr(ex3)[:300] if ex3 else R.first_diff(lz, impl))
            ts, ex4 = converted_timestamps(data)
            if base_ts is None:
                base_ts = converted_timestamps(G.ser_file(variants["all_LE"]))[0]
            if ts != base_ts and not failed:
                failed = True
                run.violation("endian-datetime", "converted timestamps of variant %s differ from the LE encoding" % name,
                              {"op": "datetime", "hex": data.hex(), "desc": R.describe_segs(v)},
                              expected=str(base_ts)[:300], actual=repr(ex4)[:200] if ex4 else str(ts)[:300])
        cases.append(R.case_all(data, impl))
        meta.append({"data": data, "impl": R.exc_kind(ex) or "tokens", "desc": R.describe_segs(v),
                     "oracle_failed": failed})


def main():
    run = H.Run("C15")
    run.prove()
    rng = random.Random(run.seed)
    if run.replay:
        import json
        case = json.load(open(run.replay))["case"]
        data = bytes.fromhex(case["hex"])
        impl, ex = G.read_eager(data)
        R.run_agree_all(run, [R.case_all(data, impl)], [{"data": data, "impl": R.exc_kind(ex)}], "replay", "replay")
        lz, _ = G.read_lazy(data)
        if lz != impl:
            run.violation("endian-lazy", "lazy still differs from eager", case)
        run.finish()
    cases, meta = [], []
    for i in range(run.pick(90, 4000)):
        k = rng.random()
        if k < 0.3:
            P = G.GenParams(types=[G.T_TIME, G.T_STRING, G.T_C64, G.T_C128, 4, 10], p_interleaved=0.5, min_vals=1)
        elif k < 0.5:
            P = G.GenParams(p_interleaved=0.9, types=G.FIXED_TYPES, min_vals=1, max_chunks=3)
        else:
            P = G.GenParams()
        segs = G.gen_file(rng, P)
        check_content(run, rng, segs, cases, meta)
        if len(segs) >= 2:
            run.cov["distinct_nontrivial"] += 1
        if i < 2:
            run.sample({"segments": R.describe_segs(segs)})
    R.run_agree_all(run, cases, meta, "variants", "byte-order variant")
    run.cov["rule"] = ("random contents (as C01) each serialised in 4 byte-order assignments (generated, all LE, all BE, "
                       "fresh random per segment); non-trivial = content with at least 2 segments")
    run.assumptions = ["values are compared in canonical little-endian form (NumPy's byte-order conversion trusted)"]
    run.finish()


if __name__ == "__main__":
    main()
