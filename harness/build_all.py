"""setup: regenerate Gen/*.v from /repo, then a full .vo build of everything."""
import os, sys, time
sys.path.insert(0, os.path.dirname(os.path.abspath(__file__)))
import common as H
H.ensure_env()
t0 = time.time()
hits = H.gate()
if hits:
    print("gate:", hits)
    sys.exit(1)
try:
    H.regen()
    H.project_sync()
    if "--clean" in sys.argv:
        H.sh(["make", "clean"], 300, cwd=str(H.COQ))
        H.project_sync()
    with H.Lock():
        H.project_sync()
        # per-file time limit so that one runaway file cannot stall the whole setup
        rc, out = H.sh(["make", "-k", "-j%d" % H.NCPU, "TIMED=1", "COQC=timeout 1200 coqc"], 3300, cwd=str(H.COQ))
except H.BuildError as e:
    print(e.what)
    print((e.log or "")[-6000:])
    sys.exit(1)
if rc != 0:
    # every check rebuilds its own cone and reports a broken obligation itself; setup only warms the build
    print("setup: some files did not build (each check reports its own cone):")
    print("\n".join(l for l in out.split("\n") if "Error" in l or "File \"" in l or "***" in l)[-3000:])
import re
times = sorted(((float(m.group(2)), m.group(1)) for m in re.finditer(r"^(\S+)\s+\(real: ([0-9.]+)", out, flags=re.M)),
               reverse=True)
print("setup: slowest files: " + ", ".join("%s %.0fs" % (f, s) for s, f in times[:8]))
print("setup: build finished in %.0fs (rc=%d)" % (time.time() - t0, rc))
