"""setup: regenerate Gen/*.v from /repo, then a full .vo build of everything."""
import os, sys, time
sys.path.insert(0, os.path.dirname(os.path.abspath(__file__)))
import common as H
H.ensure_env()
t0 = time.time()
hits = H.gate()
if hits:
    print("gate:", hits)
    sys.exit(1)
try:
    H.regen()
    H.project_sync()
    if "--clean" in sys.argv:
        H.sh(["make", "clean"], 300, cwd=str(H.COQ))
        H.project_sync()
    out = H.make([], timeout=3000)
except H.BuildError as e:
    print(e.what)
    print((e.log or "")[-6000:])
    sys.exit(1)
print("setup: full build ok in %.0fs" % (time.time() - t0))
