"""C07 - What TdmsWriter writes is what TdmsFile reads.

Proof: Props/C07.v - on the translated to_int_property_value / _infer_dtype (regenerated from
/repo on every run) and on Model/Writer.v: the written bytes strict-parse to exactly the
objects, properties, types and values passed in (write_read_partial; the composition with the
reader model is stated there as write_read).
Tie: byte-exact correspondence of Model/Writer.v with nptdms.TdmsWriter on generated call
sequences, and the direct oracle: TdmsFile.read of the written bytes returns per channel the
concatenation of what was written (dtype, bit-identical values), per object the last value of
every property with its TDMS type (seen by an independent parser of the written bytes).
"""
import json
import os
import random
import sys

sys.path.insert(0, os.path.dirname(os.path.abspath(__file__)))
import common as H

H.ensure_env()

import writer_cases as W  # noqa: E402

CFG = {"rejects": True, "d11": True, "d12": True}


def dtype_change_witness(run):
    """The recorded finding (KNOWN_FINDINGS.txt key channel-dtype-change; hypothesis dtypes_consistent of
    Props/C07_read.v write_read, shown necessary there by write_read_needs_one_dtype): the writer accepts a
    channel written as int32 in one segment and as float64 in the next and emits a file that the format
    forbids (a channel changing data type); TdmsFile.read then refuses the file."""
    import io
    import numpy as np
    from nptdms import TdmsWriter, TdmsFile, ChannelObject
    run.count("dtype_change_witness")
    buf = io.BytesIO()
    try:
        with TdmsWriter(buf) as w:
            w.write_segment([ChannelObject("g", "c", np.array([1, 2], dtype="int32"))])
            w.write_segment([ChannelObject("g", "c", np.array([0.5], dtype="float64"))])
    except Exception:       # noqa: BLE001  (a writer that refuses the second call satisfies the property)
        run.count("dtype_change_witness_refused_by_writer")
        return
    case = {"witness": "dtype-change", "hex": buf.getvalue().hex()}
    try:
        got = TdmsFile.read(io.BytesIO(buf.getvalue()))["g"]["c"][:]
        ok = [float(x) for x in got] == [1.0, 2.0, 0.5]
        actual = repr(got)
    except Exception as ex:     # noqa: BLE001
        ok, actual = False, repr(ex)
    if not ok:
        run.violation("channel-dtype-change",
                      "write_segment accepted channel /'g'/'c' as int32 [1, 2] and then as float64 [0.5]; reading the "
                      "written file gives %s instead of the concatenation of what was written" % actual, case,
                      expected="[1, 2] ++ [0.5] or a ValueError from the second write_segment", actual=actual)


def main():
    run = H.Run("C07")
    run.prove()
    if run.replay:
        case = json.load(open(run.replay))["case"]
        if case.get("witness") == "dtype-change":
            dtype_change_witness(run)
        else:
            W.process(run, [case], "C07")
        run.finish()
    dtype_change_witness(run)
    rng = random.Random(run.seed)
    cases = [W.gen_case(rng, CFG) for _ in range(run.pick(400, 12000))]
    for c in cases[:3]:
        run.sample({"case": W.describe(c), "first_call": c["sessions"][0][0][:2]})
    step = 2000
    for k in range(0, len(cases), step):
        W.process(run, cases[k:k + step], "C07")
    run.cov["rule"] = ("random write_segment sequences (1-5 calls x 0-6 objects over 1-3 groups x 0-3 channels, 1-3 "
                       "sessions 'w' then 'a', versions 4712/4713, index off/on, BytesIO/path); data: arrays of all 13 "
                       "NumPy dtypes (extremes, NaN payloads, strided, non-native byte order), int lists at every "
                       "_infer_dtype boundary incl. the holes NumPy refuses, bool/float lists, strings (multi-byte, "
                       "empty), datetimes (lists, datetime64[us/ms/s], whole milliseconds), empty arrays; property "
                       "values of every supported kind incl. 2^31 / 2^63 boundaries. Non-trivial = an accepted case with "
                       ">= 2 segments or a channel with typed data. Calls the writer refuses are counted "
                       "(not_accepted_*) and, where the model has a term for them, the model must refuse too.")
    run.assumptions = ["array -> bytes is NumPy's tobytes of the little-endian array (supplied to the model)",
                       "timestamp second fractions are read from the written bytes and only checked to be within one "
                       "microsecond of the datetime; datetimes are whole milliseconds (all microseconds: C12)",
                       "strings in Python lists do not end in NUL (NumPy's fixed-width unicode arrays drop trailing "
                       "NULs before the writer sees them); object arrays of strings are unrestricted",
                       "the reader half of write_read is the reader checks' (C01)"]
    run.finish()


if __name__ == "__main__":
    main()
