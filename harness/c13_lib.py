"""Shared by harness/c13.py and harness/c14.py: TDMS file builders (TdmsWriter for ordinary
channels, a small binary builder for DAQmx / untyped channels), scale-graph generators,
an independent Python evaluation of scale graphs (the direct oracle), and printers of
Coq terms for Model/ScaleGraph.v and Model/ScaleDtype.v.

Nothing here reads private attributes of nptdms."""
import io
import math
import re
import struct

import numpy as np

RAW = 0xFFFFFFFF

NUMERIC = ["bool", "int8", "int16", "int32", "int64", "uint8", "uint16", "uint32", "uint64",
           "float32", "float64", "complex64", "complex128"]
COQ_DTYPE = {"bool": "Bool", "int8": "Int8", "int16": "Int16", "int32": "Int32", "int64": "Int64",
             "uint8": "UInt8", "uint16": "UInt16", "uint32": "UInt32", "uint64": "UInt64",
             "float32": "Float32", "float64": "Float64", "complex64": "Complex64",
             "complex128": "Complex128"}
COQ_IKIND = {"int8": "I8", "int16": "I16", "int32": "I32", "int64": "I64",
             "uint8": "U8", "uint16": "U16", "uint32": "U32", "uint64": "U64"}
DAQMX_TYPE_ID = {"uint8": 0, "int8": 1, "uint16": 2, "int16": 3, "uint32": 4, "int32": 5,
                 "uint64": 6, "int64": 7, "float32": 8, "float64": 9}


# ---------------------------------------------------------------------------------------
# Coq term printers

def cfloat(x):
    x = float(x)
    if x != x:
        return "nan"
    if x == math.inf:
        return "infinity"
    if x == -math.inf:
        return "neg_infinity"
    return "(%s)%%float" % x.hex()


def cstring(s):
    assert all(32 <= ord(ch) < 127 for ch in s), s
    return '"%s"' % s.replace('"', '""')


def clist(items):
    return "[" + "; ".join(items) + "]"


def cvalue(arr):
    """numpy array (bool / int / float32 / float64) -> Coq term of type ScaleGraph.value"""
    dt = arr.dtype
    if dt == np.bool_:
        return "(VB %s)" % clist("true" if v else "false" for v in arr.tolist())
    if dt.kind in "iu":
        return "(VI %s %s)" % (COQ_IKIND[dt.name], clist("(%d)%%Z" % int(v) for v in arr.tolist()))
    if dt == np.float32:
        return "(VS %s)" % clist(cfloat(float(v)) for v in arr)
    if dt == np.float64:
        return "(VD %s)" % clist(cfloat(float(v)) for v in arr)
    raise ValueError("no Coq value for dtype %r" % dt)


def cpval(v):
    if isinstance(v, str):
        return "(PStr %s)" % cstring(v)
    if isinstance(v, bool):
        raise ValueError("bool property")
    if isinstance(v, float):
        return "(PFloat %s)" % cfloat(v)
    if isinstance(v, int):
        return "(PInt (%d)%%Z)" % v
    raise ValueError("property value %r" % (v,))


def cprops(props):
    return clist("(%s, %s)" % (cstring(k), cpval(v)) for k, v in props.items())


def copt(x, f=lambda v: v):
    return "None" if x is None else "(Some %s)" % f(x)


def crawdata(data, scalers):
    """data: numpy array or None; scalers: dict id -> numpy array"""
    return "{| rdata := %s; rscalers := %s |}" % (
        copt(data, cvalue), clist("(%d, %s)" % (k, cvalue(v)) for k, v in sorted(scalers.items())))


def csrc(s):
    return "Raw" if s == RAW else "(Idx (%d)%%Z)" % s


def cgraph(graph):
    out = []
    for sc in graph:
        t = sc["t"]
        if t == "Linear":
            out.append("(Linear %s %s %s)" % (cfloat(sc["slope"]), cfloat(sc["intercept"]), csrc(sc["src"])))
        elif t == "Polynomial":
            out.append("(Polynomial %s %s)" % (clist(cfloat(c) for c in sc["coeffs"]), csrc(sc["src"])))
        elif t == "Table":
            out.append("(Table %s %s %s)" % (clist(cfloat(c) for c in sc["xs"]),
                                             clist(cfloat(c) for c in sc["ys"]), csrc(sc["src"])))
        elif t in ("Add", "Subtract"):
            out.append("(%s %s %s)" % (t, csrc(sc["l"]), csrc(sc["r"])))
        elif t == "AdvancedAPI":
            out.append("(NoOp %s)" % csrc(sc["src"]))
        elif t == "Daqmx":
            out.append("(DaqmxScaler %d)" % sc["id"])
        elif t in ("RTD", "Strain", "Thermistor", "Thermocouple"):
            k = {"RTD": "SRtd", "Strain": "SStrain", "Thermistor": "SThermistor",
                 "Thermocouple": "SThermocouple"}[t]
            out.append("(Sensor %s %s)" % (k, csrc(sc["src"])))
        else:
            raise ValueError(t)
    return clist(out)


# ---------------------------------------------------------------------------------------
# scale definitions -> TDMS properties (as NI writes them)

SENSOR_DEFAULTS = {
    "RTD": [("RTD_Current_Excitation", 1e-3), ("RTD_R0_Nominal_Resistance", 100.0), ("RTD_A", 3.9083e-3),
            ("RTD_B", -5.775e-7), ("RTD_C", -4.183e-12), ("RTD_Lead_Wire_Resistance", 0.0),
            ("RTD_Resistance_Configuration", 2)],
    "Strain": [("Strain_Configuration", 10183), ("Strain_Poisson_Ratio", 0.3), ("Strain_Gage_Resistance", 350.0),
               ("Strain_Lead_Wire_Resistance", 0.0), ("Strain_Initial_Bridge_Voltage", 0.0),
               ("Strain_Gage_Factor", 2.0), ("Strain_Bridge_Shunt_Calibration_Gain_Adjustment", 1.0),
               ("Strain_Voltage_Excitation", 2.5)],
    "Thermistor": [("Thermistor_Excitation_Type", 10134), ("Thermistor_Excitation_Value", 1e-3),
                   ("Thermistor_Resistance_Configuration", 2), ("Thermistor_R1_Reference_Resistance", 0.0),
                   ("Thermistor_Lead_Wire_Resistance", 0.0), ("Thermistor_A", 1e-3), ("Thermistor_B", 2e-4),
                   ("Thermistor_C", 1e-7), ("Thermistor_Temperature_Offset", 0.0)],
}


def scale_props(i, sc, explicit_raw_source=True):
    """Properties defining scale number i.  explicit_raw_source=False omits the optional
    Input_Source property when it would name the raw data (the code then defaults to raw)."""
    p = {}
    pre = "NI_Scale[%d]_" % i
    t = sc["t"]
    if t == "Daqmx":
        return p                       # DAQmx scalers have no properties
    p[pre + "Scale_Type"] = t

    def put_src(name, s, optional):
        if optional and s == RAW and not explicit_raw_source:
            return
        p[pre + name] = s
    if t == "Linear":
        p[pre + "Linear_Slope"] = float(sc["slope"])
        p[pre + "Linear_Y_Intercept"] = float(sc["intercept"])
        put_src("Linear_Input_Source", sc["src"], True)
    elif t == "Polynomial":
        cs = sc["coeffs"]
        if not (len(cs) == 4 and sc.get("omit_size")):
            p[pre + "Polynomial_Coefficients_Size"] = len(cs)
        for j, c in enumerate(cs):
            p[pre + "Polynomial_Coefficients[%d]" % j] = float(c)
        put_src("Polynomial_Input_Source", sc["src"], True)
    elif t == "Table":
        # file order: pre-scaled = outputs, scaled = inputs; possibly stored decreasing
        xs, ys = list(sc["xs"]), list(sc["ys"])
        if sc.get("stored_reversed"):
            xs, ys = xs[::-1], ys[::-1]
        p[pre + "Table_Pre_Scaled_Values_Size"] = len(ys)
        p[pre + "Table_Scaled_Values_Size"] = len(xs)
        for j, v in enumerate(ys):
            p[pre + "Table_Pre_Scaled_Values[%d]" % j] = float(v)
        for j, v in enumerate(xs):
            p[pre + "Table_Scaled_Values[%d]" % j] = float(v)
        put_src("Table_Input_Source", sc["src"], True)
    elif t in ("Add", "Subtract"):
        p[pre + t + "_Left_Operand_Input_Source"] = sc["l"]
        p[pre + t + "_Right_Operand_Input_Source"] = sc["r"]
    elif t == "AdvancedAPI":
        put_src("AdvancedAPI_Input_Source", sc["src"], True)
    elif t in SENSOR_DEFAULTS:
        for k, v in SENSOR_DEFAULTS[t]:
            p[pre + k] = sc.get("params", {}).get(k, v)
        p[pre + t + "_Input_Source"] = sc["src"]
    elif t == "Thermocouple":
        p[pre + "Thermocouple_Thermocouple_Type"] = sc.get("tc_type", 10073)
        p[pre + "Thermocouple_Scaling_Direction"] = sc.get("direction", 0)
        put_src("Thermocouple_Input_Source", sc["src"], True)
    else:
        raise ValueError(t)
    return p


def graph_props(graph, with_count=True, explicit_raw_source=True):
    p = {}
    if with_count:
        p["NI_Number_Of_Scales"] = len(graph)
    for i, sc in enumerate(graph):
        p.update(scale_props(i, sc, explicit_raw_source))
    return p


# ---------------------------------------------------------------------------------------
# TDMS files

def _tdms_props(props):
    """python values -> values TdmsWriter stores as string / double / uint32 (ints)."""
    from nptdms import types
    out = {}
    for k, v in props.items():
        if isinstance(v, int) and not isinstance(v, bool):
            out[k] = types.Uint32(v) if 0 <= v < 2 ** 32 else types.Int64(v)
        else:
            out[k] = v
    return out


def gpath(group, chan=None):
    """TDMS object path of a group / channel (quotes doubled)"""
    p = "/'%s'" % group.replace("'", "''")
    return p if chan is None else p + "/'%s'" % chan.replace("'", "''")


def writer_file(root_props, group_props, chan_props, segments, group="g"):
    """segments: list of data arrays (numpy array, or list of str) for channel /'<group>'/'c'."""
    from nptdms import TdmsWriter, RootObject, GroupObject, ChannelObject
    buf = io.BytesIO()
    with TdmsWriter(buf) as w:
        first = True
        for data in segments:
            objs = []
            if first:
                objs = [RootObject(_tdms_props(root_props)), GroupObject(group, _tdms_props(group_props))]
            objs.append(ChannelObject(group, "c", data, _tdms_props(chan_props) if first else {}))
            w.write_segment(objs)
            first = False
    return buf.getvalue()


def raw_order_file(root_props, group_props, chan_props, segments, order, group="g"):
    """The same content as writer_file, encoded by hand with the objects in an order TdmsWriter never produces
    (it always writes root, group, channel).  order:
      "chan_first"  one object list: channel, group, root;
      "late_group"  the channel alone in the first segment(s); group and root objects (with their properties)
                    first appear in a final metadata-only segment.
    Only numeric NumPy arrays (None for other data: the caller falls back to writer_file)."""
    import numpy as np
    if not all(isinstance(d, np.ndarray) and d.dtype.name in TDS_TYPE and d.dtype.kind in "iuf" for d in segments):
        return None
    out = b""
    for si, data in enumerate(segments):
        idx = struct.pack("<IIIQ", 20, TDS_TYPE[data.dtype.name], 1, len(data))
        first = si == 0
        ch = _raw_object(gpath(group, "c"), idx, chan_props if first else {})
        if order == "chan_first":
            objs = [ch] + ([_raw_object(gpath(group), NO_DATA, group_props), _raw_object("/", NO_DATA, root_props)]
                           if first else [])
        else:
            objs = [ch]
        raw = data.astype(data.dtype.newbyteorder("<")).tobytes()
        out += _segment(objs, raw, TOC_META | TOC_NEWOBJ | TOC_RAW)
    if order == "late_group":
        out += _segment([_raw_object(gpath(group), NO_DATA, group_props), _raw_object("/", NO_DATA, root_props)], b"", TOC_META)
    return out


def _s(x):
    b = x.encode("utf-8")
    return struct.pack("<I", len(b)) + b


def _raw_prop(name, v):
    if isinstance(v, str):
        return _s(name) + struct.pack("<I", 0x20) + _s(v)
    if isinstance(v, float):
        return _s(name) + struct.pack("<I", 10) + struct.pack("<d", v)
    if isinstance(v, int):
        if 0 <= v < 2 ** 32:
            return _s(name) + struct.pack("<I", 7) + struct.pack("<I", v)
        return _s(name) + struct.pack("<I", 4) + struct.pack("<q", v)
    raise ValueError(v)


def _raw_object(path, index, props):
    return _s(path) + index + struct.pack("<I", len(props)) + b"".join(_raw_prop(k, v) for k, v in props.items())


def _segment(objs, data, toc):
    meta = struct.pack("<I", len(objs)) + b"".join(objs)
    return b"TDSm" + struct.pack("<i", toc) + struct.pack("<iQQ", 4713, len(meta) + len(data), len(meta)) + meta + data


NO_DATA = struct.pack("<I", 0xFFFFFFFF)
TOC_META, TOC_NEWOBJ, TOC_RAW, TOC_DAQMX = 1 << 1, 1 << 2, 1 << 3, 1 << 7


def daqmx_file(root_props, group_props, chan_props, scalers, nsegments=1):
    """scalers: list of (scale_id, numpy array); all arrays have the same length.
    One DAQmx channel /'g'/'c' with one raw buffer holding all scalers side by side."""
    n = len(scalers[0][1])
    width = sum(a.dtype.itemsize for _, a in scalers)
    out = b""
    bounds = [0, n] if nsegments == 1 else [0, n // 2, n]
    for si in range(len(bounds) - 1):
        lo, hi = bounds[si], bounds[si + 1]
        sc_meta = b""
        off = 0
        for sid, a in scalers:
            sc_meta += struct.pack("<IIIII", DAQMX_TYPE_ID[a.dtype.name], 0, off, 0, sid)
            off += a.dtype.itemsize
        index = (struct.pack("<I", 0x1269) + struct.pack("<I", 0xFFFFFFFF) + struct.pack("<I", 1) +
                 struct.pack("<Q", hi - lo) + struct.pack("<I", len(scalers)) + sc_meta +
                 struct.pack("<I", 1) + struct.pack("<I", width))
        rows = b"".join(b"".join(a[r:r + 1].astype(a.dtype.newbyteorder("<")).tobytes() for _, a in scalers)
                        for r in range(lo, hi))
        first = si == 0
        objs = [_raw_object("/", NO_DATA, root_props if first else {}),
                _raw_object("/'g'", NO_DATA, group_props if first else {}),
                _raw_object("/'g'/'c'", index, chan_props if first else {})]
        out += _segment(objs, rows, TOC_META | TOC_NEWOBJ | TOC_RAW | TOC_DAQMX)
    return out


TDS_TYPE = {"int8": 1, "int16": 2, "int32": 3, "int64": 4, "uint8": 5, "uint16": 6, "uint32": 7, "uint64": 8,
            "float32": 9, "float64": 10, "string": 0x20, "bool": 0x21, "timestamp": 0x44,
            "complex64": 0x08000c, "complex128": 0x10000d}


def empty_typed_file(root_props, group_props, chan_props, kind):
    """channel /'g'/'c' has the data type of `kind` and zero values (TdmsWriter cannot write an
    empty string / timestamp channel)"""
    t = TDS_TYPE[kind]
    if kind == "string":
        idx = struct.pack("<IIIQQ", 28, t, 1, 0, 0)
    else:
        idx = struct.pack("<IIIQ", 20, t, 1, 0)
    objs = [_raw_object("/", NO_DATA, root_props), _raw_object("/'g'", NO_DATA, group_props),
            _raw_object("/'g'/'c'", idx, chan_props)]
    return _segment(objs, b"", TOC_META | TOC_NEWOBJ | TOC_RAW)


def untyped_file(root_props, group_props, chan_props):
    """channel /'g'/'c' never gets a data type (no raw data index in any segment); a sibling
    int32 channel carries the segment's data."""
    idx = struct.pack("<IIIQ", 20, 3, 1, 2)
    objs = [_raw_object("/", NO_DATA, root_props), _raw_object("/'g'", NO_DATA, group_props),
            _raw_object("/'g'/'other'", idx, {}), _raw_object("/'g'/'c'", NO_DATA, chan_props)]
    return _segment(objs, struct.pack("<ii", 1, 2), TOC_META | TOC_NEWOBJ | TOC_RAW)


# ---------------------------------------------------------------------------------------
# Independent evaluation of the NI_Scale definitions (the direct oracle)
# Pure Python arithmetic for real data (Python floats are IEEE doubles; float32 through
# numpy scalars; integers with explicit wrap-around); NumPy's own arithmetic for complex.

class ScaleError(Exception):
    pass


_SCALE_KEY = re.compile(r"^NI_Scale\[([0-9]+)\]_Scale_Type")   # prefix match


def oracle_number_of_scales(props):
    if "NI_Number_Of_Scales" in props:
        return int(props["NI_Number_Of_Scales"])
    idx = [int(m.group(1)) for m in (_SCALE_KEY.match(k) for k in props) if m]
    return max(idx) + 1 if idx else None


def _need(props, key):
    if key not in props:
        raise ScaleError("missing " + key)
    return props[key]


def oracle_level_scaling(props):
    """The scale definitions of one level (channel / group / root properties) as a list of
    dicts, or None when this level defines no scaling."""
    n = oracle_number_of_scales(props)
    if not n:
        return None
    if props.get("NI_Scaling_Status", "unscaled") == "scaled":
        return None
    graph = []
    for i in range(n):
        pre = "NI_Scale[%d]_" % i
        if pre + "Scale_Type" not in props:
            graph.append({"t": "Daqmx", "id": i})
            continue
        t = props[pre + "Scale_Type"]
        if t == "Linear":
            graph.append({"t": t, "src": props.get(pre + "Linear_Input_Source", RAW),
                          "intercept": _need(props, pre + "Linear_Y_Intercept"),
                          "slope": _need(props, pre + "Linear_Slope")})
        elif t == "Polynomial":
            size = props.get(pre + "Polynomial_Coefficients_Size", 4)
            src = props.get(pre + "Polynomial_Input_Source", RAW)
            graph.append({"t": t, "src": src,
                          "coeffs": [_need(props, pre + "Polynomial_Coefficients[%d]" % j) for j in range(size)]})
        elif t == "Table":
            src = props.get(pre + "Table_Input_Source", RAW)
            n1 = _need(props, pre + "Table_Pre_Scaled_Values_Size")
            n2 = _need(props, pre + "Table_Scaled_Values_Size")
            if n1 != n2:
                raise ScaleError("table sizes differ")
            ys = [_need(props, pre + "Table_Pre_Scaled_Values[%d]" % j) for j in range(n1)]
            xs = [_need(props, pre + "Table_Scaled_Values[%d]" % j) for j in range(n2)]

            def inc(v):
                return all(b - a > 0 for a, b in zip(v, v[1:]))
            if not inc(xs):
                xs, ys = xs[::-1], ys[::-1]
            if not inc(xs):
                raise ScaleError("table not monotonic")
            graph.append({"t": t, "src": src, "xs": xs, "ys": ys})
        elif t in ("Add", "Subtract"):
            graph.append({"t": t, "l": _need(props, pre + t + "_Left_Operand_Input_Source"),
                          "r": _need(props, pre + t + "_Right_Operand_Input_Source")})
        elif t == "AdvancedAPI":
            graph.append({"t": t, "src": props.get(pre + "AdvancedAPI_Input_Source", RAW)})
        elif t in SENSOR_DEFAULTS:
            for k, _ in SENSOR_DEFAULTS[t]:
                _need(props, pre + k)
            graph.append({"t": t, "src": _need(props, pre + t + "_Input_Source")})
        elif t == "Thermocouple":
            graph.append({"t": t, "src": props.get(pre + "Thermocouple_Input_Source", RAW)})
        else:
            return None                  # unsupported type: no scaling from this level
    return graph or None


def oracle_get_scaling(chan, group, root):
    """channel, else group, else file"""
    for level in (chan, group, root):
        g = oracle_level_scaling(level)
        if g is not None:
            return g
    return None


def _wrap(dt, z):
    info = np.iinfo(dt)
    m = 1 << (8 * dt.itemsize)
    r = z % m
    return r - m if (info.min < 0 and r > info.max) else r


def _to_double(arr):
    """list of Python floats: exact conversion of bool / int / float32 / float64 elements
    (ints beyond 2**53 round to nearest even, as a C cast does)."""
    if arr.dtype.kind in "iu":
        return [float(int(v)) for v in arr.tolist()]      # Python int -> float is round-half-even
    if arr.dtype == np.bool_:
        return [1.0 if v else 0.0 for v in arr.tolist()]
    return [float(v) for v in arr]


def _interp_one(xs, ys, x):
    """clamped piecewise-linear interpolation with NumPy's formula"""
    if len(xs) == 1:
        return ys[0]
    if x != x:
        return x
    if x > xs[-1]:
        return ys[-1]
    if x < xs[0]:
        return ys[0]
    j = 0
    while j + 1 < len(xs) and xs[j + 1] <= x:
        j += 1
    if j == len(xs) - 1 or xs[j] == x:
        return ys[j]
    dx = xs[j + 1] - xs[j]
    dy = ys[j + 1] - ys[j]
    slope = _fdiv(dy, dx)
    r = slope * (x - xs[j]) + ys[j]
    if r != r:
        r = slope * (x - xs[j + 1]) + ys[j + 1]
        if r != r and ys[j] == ys[j + 1]:
            r = ys[j]
    return r


def _fdiv(a, b):
    try:
        return a / b
    except ZeroDivisionError:
        return float(np.float64(a) / np.float64(b))


def _fmul(a, b):
    return a * b


def oracle_apply(sc, inputs):
    """one scale applied to its input array(s) (numpy arrays); returns a numpy array"""
    t = sc["t"]
    with np.errstate(all="ignore"):
        if t == "Linear":
            x, = inputs
            if x.dtype.kind == "c":
                return x.astype(np.complex128) * sc["slope"] + sc["intercept"]
            s, b = float(sc["slope"]), float(sc["intercept"])
            return np.array([v * s + b for v in _to_double(x)], dtype=np.float64)
        if t == "Polynomial":
            x, = inputs
            cs = [float(c) for c in sc["coeffs"]]
            if not cs:
                return np.zeros(len(x), dtype=np.float64)
            if x.dtype.kind == "c":
                x = x.real.astype(np.float64)      # the cast to float64 keeps the real part
            out = []
            for v in _to_double(x):
                acc = cs[-1] + v * 0.0
                for c in cs[-2::-1]:
                    acc = c + acc * v
                out.append(acc)
            return np.array(out, dtype=np.float64)
        if t == "Table":
            x, = inputs
            if x.dtype.kind == "c":
                raise ScaleError("interp on complex")
            xs, ys = [float(v) for v in sc["xs"]], [float(v) for v in sc["ys"]]
            if not xs:
                raise ScaleError("empty table")
            return np.array([_interp_one(xs, ys, v) for v in _to_double(x)], dtype=np.float64)
        if t == "AdvancedAPI":
            return inputs[0]
        if t in ("Add", "Subtract"):
            l, r = inputs
            if len(l) != len(r):
                raise ScaleError("length mismatch")
            rt = np.result_type(l.dtype, r.dtype)
            if t == "Subtract" and rt == np.bool_:
                raise ScaleError("bool subtract")
            a, b = (l, r) if t == "Add" else (r, l)      # Subtract is right minus left
            if rt.kind == "c":
                return a.astype(rt) + b.astype(rt) if t == "Add" else a.astype(rt) - b.astype(rt)
            if rt == np.bool_:
                return np.array([bool(p) or bool(q) for p, q in zip(a.tolist(), b.tolist())], dtype=bool)
            if rt.kind in "iu":
                sgn = 1 if t == "Add" else -1
                return np.array([_wrap(rt, int(p) + sgn * int(q)) for p, q in zip(a.tolist(), b.tolist())], dtype=rt)
            pa, pb = _to_double(a), _to_double(b)
            if rt == np.float32:
                f = (lambda p, q: np.float32(p) + np.float32(q)) if t == "Add" else \
                    (lambda p, q: np.float32(p) - np.float32(q))
                return np.array([f(p, q) for p, q in zip(pa, pb)], dtype=np.float32)
            f = (lambda p, q: p + q) if t == "Add" else (lambda p, q: p - q)
            return np.array([f(p, q) for p, q in zip(pa, pb)], dtype=np.float64)
    raise ScaleError("no oracle for " + t)


def oracle_eval(graph, data, scalers):
    """dataflow evaluation: the last scale is the output"""
    memo = {}

    def wire(s, depth):
        if s == RAW:
            if data is None:
                raise ScaleError("raw input for DAQmx")
            return data
        if depth > len(graph) + 1:
            raise ScaleError("cycle")
        if not (0 <= s < len(graph)):
            raise ScaleError("index")
        if s in memo:
            return memo[s]
        sc = graph[s]
        if sc["t"] == "Daqmx":
            if sc["id"] not in scalers:
                raise ScaleError("no scaler %d" % sc["id"])
            v = scalers[sc["id"]]
        elif sc["t"] in ("Add", "Subtract"):
            v = oracle_apply(sc, [wire(sc["l"], depth + 1), wire(sc["r"], depth + 1)])
        else:
            v = oracle_apply(sc, [wire(sc["src"], depth + 1)])
        memo[s] = v
        return v
    return wire(len(graph) - 1, 0)


def oracle_channel(chan, group, root, data, scalers):
    g = oracle_get_scaling(chan, group, root)
    if g is None:
        if scalers:
            raise ScaleError("daqmx without scaling")
        return data
    return oracle_eval(g, data, scalers)


# ---------------------------------------------------------------------------------------
# comparison helpers

def canon_bytes(a):
    """bytes of the native-order array with every NaN canonicalised (payloads/signs of NaN
    are not part of the property)"""
    a = np.ascontiguousarray(a)
    if a.dtype.kind == "f":
        a = a.copy()
        a[np.isnan(a)] = np.nan
    elif a.dtype.kind == "c":
        re_, im_ = a.real.copy(), a.imag.copy()
        re_[np.isnan(re_)] = np.nan
        im_[np.isnan(im_)] = np.nan
        return a.dtype.newbyteorder("=").str.encode() + re_.tobytes() + im_.tobytes()
    return a.dtype.newbyteorder("=").str.encode() + a.astype(a.dtype.newbyteorder("=")).tobytes()


def same_array(a, b):
    return a.dtype.newbyteorder("=") == b.dtype.newbyteorder("=") and a.shape == b.shape and \
        canon_bytes(a) == canon_bytes(b)


def ulp_distance(a, b):
    """max distance in units in the last place between two float64 arrays of equal shape
    (inf if shapes/NaN patterns differ)"""
    if a.shape != b.shape or a.dtype != np.float64 or b.dtype != np.float64:
        return math.inf
    na, nb = np.isnan(a), np.isnan(b)
    if (na != nb).any():
        return math.inf
    ia = a[~na].view(np.int64).astype(object)
    ib = b[~nb].view(np.int64).astype(object)
    d = 0
    for p, q in zip(ia, ib):
        p = p if p >= 0 else -(p & 0x7FFFFFFFFFFFFFFF)
        q = q if q >= 0 else -(q & 0x7FFFFFFFFFFFFFFF)
        d = max(d, abs(p - q))
    return d


def scale_label(sc):
    """canonical short name of one scale for violation keys: type, plus its input sources when
    they are not the raw data: linear, advancedapi[0], add[raw,1]"""
    t = sc["t"].lower()
    if sc["t"] == "Daqmx":
        return "scaler%d" % sc["id"]
    if "src" in sc:
        return t if sc["src"] == RAW else "%s[%d]" % (t, sc["src"])
    l, r = ("raw" if x == RAW else str(x) for x in (sc["l"], sc["r"]))
    return "%s[%s,%s]" % (t, l, r)


def graph_label(graph):
    return "+".join(scale_label(sc) for sc in graph) if graph else "unscaled"
