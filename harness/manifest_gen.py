#!/usr/bin/env python3
"""Regenerates MANIFEST.json from the table below (keeps it schema-valid at all times)."""
import json, os, sys
HERE = os.path.dirname(os.path.abspath(__file__))
VERIF = os.path.dirname(HERE)

BASELINE_OFF = ("cd /repo && env -u NPTDMS_VERIF /venv/bin/python -m pytest -ra -q -p no:cacheprovider "
                "--timeout=900 --continue-on-collection-errors")

# id -> dict(text, note, technique, design_ref)
CHECKS = {}
PENDING = {}


def claim(pid, text, note, technique, design_ref):
    CHECKS[pid] = dict(text=text, note=note, technique=technique, design_ref=design_ref)


exec(open(os.path.join(HERE, "manifest_table.py")).read())

props = [json.loads(l)["id"] for l in open(os.path.join(VERIF, "properties.jsonl"))]
checks = []
for pid in props:
    if pid not in CHECKS:
        continue
    c = CHECKS[pid]
    checks.append({
        "property_id": pid,
        "quick_cmd": "./check %s --tier quick" % pid,
        "thorough_cmd": "./check %s --tier thorough" % pid,
        "evidence_file": "evidence/%s.json" % pid,
        "replay_cmd_template": "./check %s --replay {path}" % pid,
        "engine": "coq-proof+correspondence",
        "level_claimed": {"category": "proof", "text": c["text"], "design_ref": c["design_ref"]},
        "level_note": c["note"],
        "technique": c["technique"],
    })
na = [{"property_id": p, "reason": PENDING.get(p, "check not built yet in this session; the design (DESIGN.md section 7) claims it")}
      for p in props if p not in CHECKS]
man = {
    "version": 1,
    "setup_cmd": "./setup.sh",
    "hooks": {"guard": "NPTDMS_VERIF", "enable": "no hooks in /repo: checks observe the public API only; "
              "the variable is set by ./check but nothing in /repo reads it",
              "baseline_off_cmd": BASELINE_OFF, "source_commits": [], "add_only": True},
    "engines": [{"name": "coq-proof+correspondence", "path": "coq/ + harness/",
                 "serves_properties": [c["property_id"] for c in checks],
                 "kind_free_text": "Coq 8.16 theorems (298 files, all closed proofs; whole-file theorems composed from the "
                 "byte level up to a short specification) about executable Gallina models (coq/theories), "
                 "tied to /repo by translators (harness/gen) and by a correspondence check that evaluates the "
                 "models inside Coq (vm_compute) on the same inputs as the implementation (harness/cXX.py)"}],
    "checks": checks,
    "notes": "See DESIGN.md (section 13 is the build report; 13.6 the extension session). The integer / control logic of "
             "most of /repo is re-derived from the Python AST on every run (harness/gen, Gen/*.v) and proved equal to the "
             "hand models. 23 genuine defects repaired in /repo ('fix:' commits) and 3 recorded findings: "
             "KNOWN_FINDINGS.txt. 140 independently seeded bugs with demonstrations: seeded/ (TABLE.md).",
    "not_applicable": na,
}
json.dump(man, open(os.path.join(VERIF, "MANIFEST.json"), "w"), indent=1)
print("MANIFEST.json: %d checks, %d not claimed" % (len(checks), len(na)))
