"""C12 — Timestamps round-trip exactly and convert to datetime64 within one unit.

Proof: Props/C12.v (integer model of the repaired code, D5; float model of the
unchanged code with the refutation of its round trip; time_track over R).
Tie: the Z model (Model/Timestamp.v: enc_dt, conv_scalar, conv_array, rd_ts,
wr_ts) is evaluated inside Coq on the same inputs as the implementation and
compared with its integers exactly; the direct oracle (identity round trip,
within one unit / monotone / scalar == array, raw bytes, writer -> reader ->
defragment, time_track) runs on the implementation's own outputs.
"""
import datetime
import io
import json
import os
import random
import struct
import sys

sys.path.insert(0, os.path.dirname(os.path.abspath(__file__)))
import common as H

H.ensure_env()

import numpy as np  # noqa: E402
from nptdms import TdmsFile, TdmsWriter, ChannelObject, GroupObject, RootObject  # noqa: E402
from nptdms.types import TimeStamp  # noqa: E402
from nptdms.timestamp import TdmsTimestamp, TimestampArray  # noqa: E402

IMPORTS = ("From Coq Require Import Uint63.\nFrom NpTdms Require Import Base.Bytes Model.Timestamp.\n"
           "Open Scope Z_scope.\n")


def cz(n):
    """An integer as a Coq term built from two primitive-integer literals (Model.Timestamp.zi):
    elaborating 64-bit Z literals is what dominates the evaluation of the case files otherwise."""
    q, r = divmod(int(n), 2 ** 62)
    assert -2 ** 61 <= q < 2 ** 61
    return "(zi %d%%uint63 %d%%uint63)" % (q + 2 ** 61, r)


TDMS_EPOCH_US = -2082844800 * 10 ** 6      # 1904-01-01 as a datetime64[us] integer
EPOCH_S = -2082844800
TWO64 = 2 ** 64
RES = ["s", "ms", "us", "ns"]
STEPS = {"s": 1, "ms": 10 ** 3, "us": 10 ** 6, "ns": 10 ** 9}
# smallest v = d - epoch for which NumPy can form d: as_datetime64 scales the whole seconds (EPOCH + seconds) to
# microseconds before adding the fraction, so the second containing d must start inside int64 too
V_MIN = -((2 ** 63 - 1) // 10 ** 6) * 10 ** 6 - TDMS_EPOCH_US
V_MAX = 2 ** 63 - 1                        # largest v NumPy can form as a timedelta64[us]


_reported = {}


def report(run, key, *a, **k):
    """run.violation, at most 3 per key (the total is put into the notes at the end)"""
    _reported[key] = _reported.get(key, 0) + 1
    if _reported[key] <= 3:
        run.violation(key, *a, **k)


def finish(run):
    for key, n in sorted(_reported.items()):
        if n > 3:
            run.notes.append("%s: %d occurrences, 3 recorded" % (key, n))
    run.finish()


def dt_str(d):
    try:
        return str(np.datetime64(int(d), "us"))
    except Exception:
        return "datetime64[us](%d)" % d


# ---------------------------------------------------------------------------
# A. datetime -> bytes -> datetime

def second_pool(rng):
    """Seconds since 1904 used for the round trip: pre-1904 (negative), 0, +-2^31,
    +-2^33, today, year 9999, beyond 2^59 us, both ends of the datetime64[us] range."""
    pool = [0, -1, 1, 2 ** 31, -2 ** 31, 2 ** 31 - 1, 2 ** 33, -2 ** 33, 3660681616, 3524551547,
            -1703980800, 255485232000, -60000000000, 6 * 10 ** 12, 2 ** 59 // 10 ** 6 + 1,
            V_MAX // 10 ** 6 - 1, -(-V_MIN // 10 ** 6) + 1]
    for _ in range(6):
        pool.append(rng.randrange(-2 ** 33, 2 ** 33))
    for _ in range(4):
        pool.append(rng.randrange(V_MIN // 10 ** 6 + 2, V_MAX // 10 ** 6 - 2))
    return pool


def roundtrip_inputs(run, rng):
    pool = second_pool(rng)
    ds = []
    if run.thorough:
        for us in range(10 ** 6):
            ds.append(pool[us % len(pool)] * 10 ** 6 + us + TDMS_EPOCH_US)
        for _ in range(100000):
            ds.append(rng.choice(pool) * 10 ** 6 + rng.randrange(10 ** 6) + TDMS_EPOCH_US)
    else:
        for i in range(10 ** 5):
            us = i * 10 + rng.randrange(10)
            ds.append(rng.choice(pool) * 10 ** 6 + us + TDMS_EPOCH_US)
    # every pool second with the awkward sub-second parts
    for s in pool:
        for us in (0, 1, 2, 3, 493, 15625, 499999, 500000, 999998, 999999):
            ds.append(s * 10 ** 6 + us + TDMS_EPOCH_US)
    ds += [V_MIN + TDMS_EPOCH_US, V_MIN + 1 + TDMS_EPOCH_US, V_MAX + TDMS_EPOCH_US, V_MAX - 1 + TDMS_EPOCH_US]
    return ds


def run_roundtrip(run, ds, label, n_coq=10 ** 7, tag=None):
    """ds: datetime64[us] integers.  Oracle: identity on both read paths.  Correspondence:
    model enc_dt / conv_scalar / conv_array against the fields and the values read."""
    vals = np.array(ds, dtype="int64").view("datetime64[us]")
    fields = [None] * len(ds)
    o_scalar = [None] * len(ds)
    blobs = []
    ok_idx = []
    nviol = 0
    for i in range(len(ds)):
        d = ds[i]
        run.cov["evaluations"] += 1
        try:
            b = TimeStamp(vals[i]).bytes
            t = TimeStamp.read(io.BytesIO(b))
            fields[i] = (int(t.seconds), int(t.second_fractions))
            o_scalar[i] = int(t.as_datetime64("us").astype("int64"))
        except Exception as e:
            nviol += 1
            report(run, "us-roundtrip", "TimeStamp(%s) -> bytes -> read raised %r" % (dt_str(d), e),
                   {"op": "roundtrip", "d": d, "datetime": dt_str(d)}, expected=dt_str(d), actual=repr(e))
            continue
        blobs.append(b)
        ok_idx.append(i)
        if o_scalar[i] != d:
            nviol += 1
            report(run, "us-roundtrip",
                   "datetime %s written and read back (scalar path) as %s; fields %r"
                   % (dt_str(d), dt_str(o_scalar[i]), fields[i]),
                   {"op": "roundtrip", "d": d, "datetime": dt_str(d)}, expected=dt_str(d), actual=dt_str(o_scalar[i]),
                   model=asis_note(run, d, fields[i], o_scalar[i]) if _reported.get("us-roundtrip", 0) < 3 else None)
    # array path over the same bytes
    o_array = [None] * len(ds)
    if blobs:
        arr = TimeStamp.from_bytes(np.frombuffer(b"".join(blobs), dtype=np.uint8))
        out = arr.as_datetime64("us")
        if out.dtype != np.dtype("datetime64[us]"):
            report(run, "dtype", "TimestampArray.as_datetime64('us') has dtype %s" % out.dtype,
                          {"op": "roundtrip", "d": ds[ok_idx[0]]}, expected="datetime64[us]", actual=str(out.dtype))
        out_i = out.astype("int64")
        secs = arr.seconds
        fracs = arr.second_fractions
        for k, i in enumerate(ok_idx):
            o_array[i] = int(out_i[k])
            if (int(secs[k]), int(fracs[k])) != fields[i]:
                report(run, "raw-fields", "from_bytes and read disagree on the fields of %s: %r vs %r"
                              % (dt_str(ds[i]), (int(secs[k]), int(fracs[k])), fields[i]),
                              {"op": "roundtrip", "d": ds[i], "datetime": dt_str(ds[i])},
                              expected=fields[i], actual=[int(secs[k]), int(fracs[k])])
            if o_array[i] != ds[i]:
                if o_scalar[i] == ds[i]:
                    nviol += 1
                report(run, "us-roundtrip-array" if o_scalar[i] == ds[i] else "us-roundtrip",
                       "datetime %s written and read back (array path) as %s; fields %r"
                       % (dt_str(ds[i]), dt_str(o_array[i]), fields[i]),
                       {"op": "roundtrip", "d": ds[i], "datetime": dt_str(ds[i])},
                       expected=dt_str(ds[i]), actual=dt_str(o_array[i]))
            elif o_scalar[i] == ds[i]:
                run.cov["distinct_nontrivial"] += 1
    run.count(label, len(ds))
    run.count(label + "_scalar_path", len(ok_idx))
    if nviol:
        run.notes.append("%s: %d of %d datetimes did not round-trip" % (label, nviol, len(ds)))
    # correspondence with the Z model on a deterministic subsample (all if small)
    idx = ok_idx
    if len(idx) > n_coq:
        step = len(idx) / float(n_coq)
        idx = sorted(set(idx[int(k * step)] for k in range(n_coq)) | set(idx[-300:]))
    cases = ["(%s, %s, %s, %s, %s)" % (cz(ds[i]), cz(fields[i][0]), cz(fields[i][1]),
                                       cz(o_scalar[i]), cz(o_array[i])) for i in idx]
    bad, errors = H.run_sharded(run.pid, IMPORTS, "Z * Z * Z * Z * Z", "check_roundtrip", cases,
                                shard=5000, tag=tag or label)
    run.corr_errors(errors)
    run.cov["traces_validated_against_impl"] += len(cases) - len(bad)
    run.count(label + "_model_compared", len(cases))
    if bad:
        run.notes.append("%s: model/implementation disagree on %d of %d cases" % (label, len(bad), len(cases)))
    for j in bad[:3]:
        i = idx[j]
        rc, out = H.coq_print_terms(run.pid, IMPORTS,
                                    ["enc_dt %s" % cz(ds[i]),
                                     "conv_scalar Rus %s %s" % (cz(fields[i][0]), cz(fields[i][1])),
                                     "conv_array Rus %s %s" % (cz(fields[i][0]), cz(fields[i][1]))],
                                    tag="show_rt%d" % j)
        holds = (o_scalar[i] == ds[i] and o_array[i] == ds[i])
        report(run, "corr-roundtrip" if holds else "us-roundtrip",
                      "model and implementation disagree on %s: impl fields %r, read back %s / %s"
                      % (dt_str(ds[i]), fields[i], dt_str(o_scalar[i]), dt_str(o_array[i])),
                      {"op": "roundtrip", "d": ds[i], "datetime": dt_str(ds[i])},
                      kind="correspondence-broken" if holds else "property-violation",
                      theorem="Model.Timestamp.enc_dt/conv_scalar/conv_array vs TimeStamp / as_datetime64",
                      expected=dt_str(ds[i]), actual={"fields": fields[i], "scalar": o_scalar[i], "array": o_array[i]},
                      model=out[-1500:], no_input=holds)
    return fields


def asis_note(run, d, fields, o):
    """Does the float model of the unchanged code (AsIs) predict this failure?  Then the
    tree under test is the one without repair D5."""
    try:
        us = (d - TDMS_EPOCH_US) % 10 ** 6
        o_us = o - (d - us)
        term = "AsIs.check_asis (%s, %s, %s)" % (cz(us), cz(fields[1]), cz(o_us))
        rc, out = H.coq_print_terms(run.pid, IMPORTS, [term], tag="asis%d" % (abs(d) % 100000))
        if rc == 0 and "= true" in out:
            return ("matches the float model of the unchanged code (Model.Timestamp.AsIs, lemma roundtrip_refuted): "
                    "repair D5 (dev/patches/D5.patch) is not applied to this tree")
        return "not predicted by the float model of the unchanged code: " + out[-300:]
    except Exception as e:  # diagnostics only
        return "as-is comparison failed: %r" % (e,)


# ---------------------------------------------------------------------------
# B. (seconds, fractions) -> datetime64 at s / ms / us / ns

NS_SAFE = [0, -1, 1, 2 ** 31, -2 ** 31, 2 ** 33, 3660681616, 3524551547, -7 * 10 ** 9, 11 * 10 ** 9]
WIDE = [-2 ** 33, 255485232000, -60000000000, 2 ** 40, -2 ** 40]


def ceil_div(a, b):
    return -((-a) // b)


def conv_fractions(run, rng):
    fs = {0, 1, 2, TWO64 - 1, TWO64 - 2, 2 ** 63, 2 ** 63 - 1, 2 ** 63 + 1, 2 ** 32, 2 ** 32 - 1, 2 ** 32 + 1,
          12345678900000000000}
    for t in range(-3, 4):
        fs.add(TWO64 - 4096 + t)
        fs.add(4096 + t)
    deltas = [-4098, -4097, -4096, -4095, -4094, -2, -1, 0, 1, 2]
    for r, m in STEPS.items():
        if m == 1:
            continue
        if m == 1000:
            ks = range(1, 1000)
        else:
            n = run.pick(1200, 15000)
            ks = set(rng.randrange(1, m) for _ in range(n)) | set(range(1, 40)) | set(range(m - 40, m))
        for k in ks:
            base = ceil_div(k * TWO64, m)
            for dl in deltas:
                fs.add(base + dl)
            fs.add(k * TWO64 // m)
    for _ in range(run.pick(2000, 20000)):
        fs.add(rng.randrange(TWO64))
    return sorted(f for f in fs if 0 <= f < TWO64)


def impl_conv(pairs, res_list):
    """scalar and array conversions of every (s, f) at every resolution -> two dicts res -> list of int"""
    arr_le = np.zeros(len(pairs), dtype=[("second_fractions", "<u8"), ("seconds", "<i8")])
    arr_le["second_fractions"] = np.array([p[1] for p in pairs], dtype=np.uint64)
    arr_le["seconds"] = np.array([p[0] for p in pairs], dtype=np.int64)
    # big-endian storage of the same records, as from_bytes builds it for '>' segments
    arr_be = np.zeros(len(pairs), dtype=[("seconds", ">i8"), ("second_fractions", ">u8")])
    arr_be["seconds"] = arr_le["seconds"]
    arr_be["second_fractions"] = arr_le["second_fractions"]
    ta_le, ta_be = TimestampArray(arr_le), TimestampArray(arr_be)
    scalar, array, array_be, dtypes = {}, {}, {}, {}
    for r in res_list:
        a = ta_le.as_datetime64(r)
        dtypes[r] = (str(a.dtype),)
        array[r] = [int(x) for x in a.astype("int64")]
        array_be[r] = [int(x) for x in ta_be.as_datetime64(r).astype("int64")]
        out = []
        for (s, f) in pairs:
            v = TdmsTimestamp(s, f).as_datetime64(r)
            out.append(int(v.astype("int64")))
        dtypes[r] += (str(v.dtype),) if pairs else ()
        scalar[r] = out
        # a TdmsTimestamp obtained by indexing the array carries NumPy scalars
        for i in range(0, len(pairs), 7):
            vi = int(ta_le[i].as_datetime64(r).astype("int64"))
            if vi != out[i]:
                array[r][i] = vi if array[r][i] == out[i] else array[r][i]
    return scalar, array, array_be, dtypes


def run_conv(run, pairs, res_list, label, n_coq=None):
    """pairs sorted lexicographically.  Oracle: within one unit of the exact rational time,
    monotone, scalar == array (both storage orders), dtype.  Correspondence with the Z model."""
    try:
        scalar, array, array_be, dtypes = impl_conv(pairs, res_list)
    except Exception as e:
        report(run, "conv-raises", "as_datetime64 raised %r" % (e,), {"op": "conv", "pairs": pairs[:50],
                                                                         "res": res_list}, actual=repr(e))
        return
    for r in res_list:
        m = STEPS[r]
        for ty in dtypes[r]:
            if ty != "datetime64[%s]" % r:
                report(run, "dtype", "as_datetime64(%r) has dtype %s" % (r, ty), {"op": "conv", "pairs": pairs[:1],
                                                                                    "res": [r]},
                              expected="datetime64[%s]" % r, actual=ty)
        prev = None
        for i, (s, f) in enumerate(pairs):
            run.cov["evaluations"] += 1
            c = scalar[r][i]
            case = {"op": "conv", "pairs": [[s, f]], "res": [r]}
            # exact time in units: m * (s * 2^64 + f) / 2^64 after the 1904 epoch
            num = m * (s * TWO64 + f)
            c1904 = c - EPOCH_S * m
            if not (num - TWO64 < c1904 * TWO64 < num + TWO64):
                report(run, "conv-within-unit",
                              "TdmsTimestamp(%d, %d).as_datetime64(%r) = %d is not within one unit of the exact time "
                              "%d / 2^64" % (s, f, r, c, num + EPOCH_S * m * TWO64), case,
                              expected="|value - exact| < 1", actual=c)
            if array[r][i] != c or array_be[r][i] != c:
                report(run, "scalar-array", "as_datetime64(%r) of (%d, %d): scalar %d, array %d, big-endian array %d"
                              % (r, s, f, c, array[r][i], array_be[r][i]), case, expected=c,
                              actual=[array[r][i], array_be[r][i]])
            if prev is not None and c < prev[0]:
                report(run, "conv-monotone", "as_datetime64(%r) decreases from %r -> %d to (%d, %d) -> %d"
                              % (r, prev[1], prev[0], s, f, c),
                              {"op": "conv", "pairs": [list(prev[1]), [s, f]], "res": [r]},
                              expected=">= %d" % prev[0], actual=c)
            prev = (c, (s, f))
            run.cov["distinct_nontrivial"] += 1
    run.count(label, len(pairs))
    idx = list(range(len(pairs)))
    if n_coq is not None and len(idx) > n_coq:
        step = len(idx) / float(n_coq)
        idx = sorted(set(int(k * step) for k in range(n_coq)))
    codes = {"s": 0, "ms": 1, "us": 2, "ns": 3}
    cases = []
    for i in idx:
        s, f = pairs[i]
        obs = H.clist(["(%d, %s, %s)" % (codes[r], cz(scalar[r][i]), cz(array[r][i])) for r in res_list])
        cases.append("(%s, %s, %s)" % (cz(s), cz(f), obs))
    bad, errors = H.run_sharded(run.pid, IMPORTS, "Z * Z * list (Z * Z * Z)", "check_conv", cases,
                                shard=2500, tag=label)
    run.corr_errors(errors)
    run.cov["traces_validated_against_impl"] += len(cases) - len(bad)
    run.count(label + "_model_compared", len(cases))
    if bad:
        run.notes.append("%s: model/implementation disagree on %d of %d cases" % (label, len(bad), len(cases)))
    for j in bad[:3]:
        s, f = pairs[idx[j]]
        rc, out = H.coq_print_terms(run.pid, IMPORTS,
                                    ["map (fun r => (conv_scalar r %s %s, conv_array r %s %s)) all_res"
                                     % (cz(s), cz(f), cz(s), cz(f))], tag="show_cv%d" % j)
        report(run, "corr-conv", "model and as_datetime64 disagree on (%d, %d): impl %r"
                      % (s, f, {r: (scalar[r][idx[j]], array[r][idx[j]]) for r in res_list}),
                      {"op": "conv", "pairs": [[s, f]], "res": res_list}, kind="correspondence-broken",
                      theorem="Model.Timestamp.conv_scalar/conv_array vs as_datetime64",
                      actual={r: [scalar[r][idx[j]], array[r][idx[j]]] for r in res_list}, model=out[-1500:],
                      no_input=True)


# ---------------------------------------------------------------------------
# C. raw 16-byte records

def run_raw(run, blobs, label):
    """blobs: list of (big_endian, 16 bytes)."""
    cases = []
    meta = []
    for big, b in blobs:
        run.cov["evaluations"] += 1
        e = ">" if big else "<"
        case = {"op": "raw", "big": big, "hex": b.hex()}
        # the layout, straight from the format description
        if big:
            want = (int.from_bytes(b[:8], "big", signed=True), int.from_bytes(b[8:], "big"))
        else:
            want = (int.from_bytes(b[8:], "little", signed=True), int.from_bytes(b[:8], "little"))
        try:
            t = TimeStamp.read(io.BytesIO(b), e)
            got = (int(t.seconds), int(t.second_fractions))
            arr = TimeStamp.from_bytes(np.frombuffer(b, dtype=np.uint8), e)
            got_arr = (int(arr.seconds[0]), int(arr.second_fractions[0]))
            item = arr[0]
            got_item = (int(item.seconds), int(item.second_fractions))
            wrote = bytes(TdmsTimestamp(got[0], got[1]).bytes)
            wrote_item = bytes(item.bytes)
        except Exception as ex:
            report(run, "raw-raises", "reading raw timestamp %s (%s) raised %r" % (b.hex(), e, ex), case,
                          actual=repr(ex))
            continue
        if got != want or got_arr != want or got_item != want:
            report(run, "raw-fields", "raw timestamp %s (%s): expected (seconds, fractions) %r, read %r, "
                          "from_bytes %r, item %r" % (b.hex(), e, want, got, got_arr, got_item), case,
                          expected=want, actual=[got, got_arr, got_item])
        le = struct.pack("<Qq", want[1], want[0])
        if wrote != le or wrote_item != le:
            report(run, "raw-bytes", "TdmsTimestamp%r.bytes = %s / %s, expected %s"
                          % (got, wrote.hex(), wrote_item.hex(), le.hex()), case, expected=le.hex(),
                          actual=[wrote.hex(), wrote_item.hex()])
        else:
            run.cov["distinct_nontrivial"] += 1
        cases.append("(%s, %s, %s, %s, %s)" % (H.cbool(big), H.chex(b), cz(got[0]), cz(got[1]),
                                               "Some %s" % H.chex(wrote)))
        meta.append((big, b, got))
    run.count(label, len(blobs))
    bad, errors = H.run_sharded(run.pid, IMPORTS, "bool * bytes * Z * Z * option bytes", "check_raw", cases,
                                shard=1000, tag=label)
    run.corr_errors(errors)
    run.cov["traces_validated_against_impl"] += len(cases) - len(bad)
    for j in bad[:3]:
        big, b, got = meta[j]
        rc, out = H.coq_print_terms(run.pid, IMPORTS, ["rd_ts %s %s" % ("BE" if big else "LE", H.chex(b))],
                                    tag="show_raw%d" % j)
        report(run, "corr-raw", "model and TimeStamp.read disagree on %s (%s): impl %r"
                      % (b.hex(), ">" if big else "<", got), {"op": "raw", "big": big, "hex": b.hex()},
                      kind="correspondence-broken", theorem="Model.Timestamp.rd_ts/wr_ts vs TimeStamp.read/bytes",
                      actual=got, model=out[-1000:], no_input=True)


def raw_inputs(run, rng):
    blobs = []
    specials = [0, 1, 2 ** 63 - 1, 2 ** 63, TWO64 - 1, 0x0102030405060708, 0x8070605040302010]
    for a in specials:
        for b in specials:
            for big in (False, True):
                blobs.append((big, struct.pack(">QQ" if big else "<QQ", a, b)))
    for _ in range(run.pick(1500, 20000)):
        blobs.append((rng.random() < 0.5, bytes(rng.randrange(256) for _ in range(16))))
    return blobs


# ---------------------------------------------------------------------------
# D. end to end: TdmsWriter -> TdmsFile (-> defragment)

def random_datetimes(rng, n):
    out = []
    for _ in range(n):
        kind = rng.random()
        if kind < 0.6:      # 1904 .. 2100
            v = rng.randrange(0, 6185289600 * 10 ** 6)
        elif kind < 0.8:    # pre-1904
            v = rng.randrange(-6 * 10 ** 10 * 10 ** 6, 0)
        else:
            v = rng.randrange(0, 255485232000 * 10 ** 6)
        if rng.random() < 0.3:
            v = v - v % 10 ** 6 + rng.choice([0, 1, 2, 3, 493, 999999, 500000])
        out.append(v + TDMS_EPOCH_US)
    return out


def be_timestamp_file(pairs, prop):
    """A file of one big-endian segment (TdmsWriter only writes little-endian): channel /'g'/'r' holding the
    raw timestamps `pairs` = [(seconds, fractions)], with a timestamp property t_raw = prop."""
    def s(x):
        b = x.encode()
        return struct.pack(">I", len(b)) + b
    meta = struct.pack(">I", 1) + s("/'g'/'r'")
    meta += struct.pack(">IIIQ", 0x14, 0x44, 1, len(pairs))
    meta += struct.pack(">I", 1) + s("t_raw") + struct.pack(">I", 0x44) + struct.pack(">qQ", prop[0], prop[1])
    data = b"".join(struct.pack(">qQ", a, b) for a, b in pairs)
    toc = (1 << 1) | (1 << 2) | (1 << 3) | (1 << 6)     # metadata, new object list, raw data, big endian
    lead = b"TDSm" + struct.pack("<l", toc) + struct.pack(">lQQ", 4713, len(meta) + len(data), len(meta))
    return lead + meta + data


def check_be_file(content, pairs, prop):
    rf = TdmsFile.read(io.BytesIO(content), raw_timestamps=True)
    rr = rf["g"]["r"][:]
    got = [(int(a), int(b)) for a, b in zip(rr.seconds, rr.second_fractions)]
    if got != pairs:
        return ("raw channel (big-endian source)", got[:2], pairs[:2])
    rp = rf["g"]["r"].properties.get("t_raw")
    if not isinstance(rp, TdmsTimestamp) or (int(rp.seconds), int(rp.second_fractions)) != tuple(prop):
        return ("raw property (big-endian source)", repr(rp))
    conv = TdmsFile.read(io.BytesIO(content))["g"]["r"][:]
    want = [int(TdmsTimestamp(a, b).as_datetime64("us").astype("int64")) for a, b in pairs]
    if conv.dtype != np.dtype("datetime64[us]") or [int(x) for x in conv.astype("int64")] != want:
        return ("converted channel (big-endian source)", str(conv[:2]))
    return None


def end_to_end(run, rng, nfiles):
    for k in range(nfiles):
        n = rng.choice([1, 2, 3, 7, 50])
        case = {"op": "e2e", "data": random_datetimes(rng, n), "props": random_datetimes(rng, 3),
                "py_us": rng.randrange(0, 4 * 10 ** 9 * 10 ** 6) + TDMS_EPOCH_US,
                # raw timestamps with arbitrary fractions (not on the microsecond grid)
                "raw": [[rng.randrange(-2 ** 40, 2 ** 40), rng.randrange(TWO64)] for _ in range(n)],
                "raw_prop": [rng.randrange(-2 ** 40, 2 ** 40), rng.randrange(TWO64)]}
        run_e2e(run, case)


def run_e2e(run, case):
    run.cov["evaluations"] += 1
    run.count("end_to_end_files")
    ds, pd, py_us = [int(x) for x in case["data"]], [int(x) for x in case["props"]], int(case["py_us"])
    n = len(ds)
    data = np.array(ds, dtype="int64").view("datetime64[us]")
    # properties given as datetime64[us] scalars and as a datetime.datetime
    py_dt = datetime.datetime(1970, 1, 1) + datetime.timedelta(microseconds=py_us)
    props_root = {"t_root": np.datetime64(pd[0], "us")}
    props_chan = {"t_chan": np.datetime64(pd[1], "us"), "t_py": py_dt}
    raw = np.zeros(n, dtype=[("second_fractions", "<u8"), ("seconds", "<i8")])
    raw["second_fractions"] = np.array([int(p[1]) for p in case["raw"]], dtype=np.uint64)
    raw["seconds"] = np.array([int(p[0]) for p in case["raw"]], dtype=np.int64)
    raw_prop = TdmsTimestamp(int(case["raw_prop"][0]), int(case["raw_prop"][1]))
    try:
        buf = io.BytesIO()
        with TdmsWriter(buf) as w:
            w.write_segment([RootObject(props_root), GroupObject("g", {"t_group": np.datetime64(pd[2], "us")}),
                             ChannelObject("g", "c", data, props_chan)])
            w.write_segment([ChannelObject("g", "r", TimestampArray(raw), {"t_raw": raw_prop})])
            w.write_segment([ChannelObject("g", "c", data[::-1].copy())])
        detail = check_file(buf.getvalue(), ds, pd, py_us, raw, raw_prop)
        if detail is None:
            # defragment: raw values preserved bit-exactly
            dst = io.BytesIO()
            buf.seek(0)
            TdmsWriter.defragment(buf, dst)
            detail = check_file(dst.getvalue(), ds, pd, py_us, raw, raw_prop)
            if detail is not None:
                detail = ("after defragment",) + tuple(detail)
        if detail is None:
            # the same raw values stored in a big-endian segment, read and defragmented
            pairs = [(int(p[0]), int(p[1])) for p in case["raw"]]
            prop = [int(x) for x in case["raw_prop"]]
            be = be_timestamp_file(pairs, prop)
            detail = check_be_file(be, pairs, prop)
            if detail is None:
                dst = io.BytesIO()
                TdmsWriter.defragment(io.BytesIO(be), dst)
                detail = check_be_file(dst.getvalue(), pairs, prop)
                if detail is not None:
                    detail = ("after defragment",) + tuple(detail)
        if detail is None:
            # the same raw values handed to the writer in the two other accepted forms: a TimestampArray in
            # big-endian field order (what raw reads of a big-endian segment yield) and a list of TdmsTimestamp
            detail = check_other_raw_inputs(raw)
    except Exception as e:
        detail = ("exception", repr(e))
    if detail is None:
        run.cov["distinct_nontrivial"] += 1
    else:
        key = "us-roundtrip" if "datetime" in detail[0] else "end-to-end"
        report(run, key, "writer -> reader does not preserve timestamps: %r" % (detail,), case, actual=detail)


def check_other_raw_inputs(raw):
    n = len(raw)
    be = np.zeros(n, dtype=[("seconds", ">i8"), ("second_fractions", ">u8")])
    be["seconds"] = raw["seconds"]
    be["second_fractions"] = raw["second_fractions"]
    as_list = [TdmsTimestamp(int(s), int(f)) for s, f in zip(raw["seconds"], raw["second_fractions"])]
    buf = io.BytesIO()
    with TdmsWriter(buf) as w:
        w.write_segment([ChannelObject("g", "be", TimestampArray(be)), ChannelObject("g", "i", np.arange(n, dtype="int32"))])
        if n:
            w.write_segment([ChannelObject("g", "lst", as_list)])
        w.write_segment([ChannelObject("g", "i", np.arange(n, dtype="int32"))])
    rf = TdmsFile.read(io.BytesIO(buf.getvalue()), raw_timestamps=True)
    for name in (["be", "lst"] if n else ["be"]):
        got = rf["g"][name][:]
        if [int(x) for x in got.seconds] != [int(x) for x in raw["seconds"]] or \
                [int(x) for x in got.second_fractions] != [int(x) for x in raw["second_fractions"]]:
            return ("raw channel written from %s" % ("a big-endian TimestampArray" if name == "be" else
                                                     "a list of TdmsTimestamp"),
                    [int(x) for x in got.seconds][:2], [int(x) for x in got.second_fractions][:2])
    if len(rf["g"]["i"]) != 2 * n:
        return ("raw channel written from other forms: following channel", len(rf["g"]["i"]))
    return None


def check_file(content, ds, pd, py_us, raw, raw_prop):
    want = np.array(ds + ds[::-1], dtype="int64").view("datetime64[us]")
    f = TdmsFile.read(io.BytesIO(content))
    got = f["g"]["c"][:]
    if got.dtype != np.dtype("datetime64[us]") or got.shape != want.shape or not (got == want).all():
        i = [j for j in range(min(len(got), len(want))) if got[j] != want[j]][:1]
        return ("channel datetime", str(got.dtype), [str(want[j]) for j in i], [str(got[j]) for j in i])
    props = [(f.properties.get("t_root"), pd[0]), (f["g"].properties.get("t_group"), pd[2]),
             (f["g"]["c"].properties.get("t_chan"), pd[1]), (f["g"]["c"].properties.get("t_py"), py_us)]
    for v, d in props:
        if not isinstance(v, np.datetime64) or v.dtype != np.dtype("datetime64[us]") or int(v.astype("int64")) != d:
            return ("property datetime", dt_str(d), str(v))
    # lazily, and element by element
    with TdmsFile.open(io.BytesIO(content)) as lf:
        lazy = lf["g"]["c"][:]
        one = lf["g"]["c"][0]
    if not (lazy == want).all() or one != want[0]:
        return ("channel datetime (lazy)", str(lazy[:1]), str(one))
    # raw view
    rf = TdmsFile.read(io.BytesIO(content), raw_timestamps=True)
    rc = rf["g"]["c"][:]
    exp = [struct.unpack("<Qq", TimeStamp(np.datetime64(d, "us")).bytes) for d in ds + ds[::-1]]
    if [int(x) for x in rc.seconds] != [e[1] for e in exp] or \
            [int(x) for x in rc.second_fractions] != [e[0] for e in exp]:
        return ("raw channel of datetimes", None)
    rr = rf["g"]["r"][:]
    if [int(x) for x in rr.seconds] != [int(x) for x in raw["seconds"]] or \
            [int(x) for x in rr.second_fractions] != [int(x) for x in raw["second_fractions"]]:
        return ("raw channel", [int(x) for x in rr.seconds][:2], [int(x) for x in rr.second_fractions][:2])
    rp = rf["g"]["r"].properties.get("t_raw")
    if not isinstance(rp, TdmsTimestamp) or (int(rp.seconds), int(rp.second_fractions)) != \
            (raw_prop.seconds, raw_prop.second_fractions):
        return ("raw property", repr(rp))
    rp2 = rf.properties.get("t_root")
    e0 = struct.unpack("<Qq", TimeStamp(np.datetime64(pd[0], "us")).bytes)
    if not isinstance(rp2, TdmsTimestamp) or (int(rp2.second_fractions), int(rp2.seconds)) != e0:
        return ("raw property of a datetime", repr(rp2))
    # metadata-only reads: the same raw / converted properties, and the raw dtype of the timestamp channel
    mf = TdmsFile.read_metadata(io.BytesIO(content), raw_timestamps=True)
    mp = mf["g"]["r"].properties.get("t_raw")
    if not isinstance(mp, TdmsTimestamp) or (int(mp.seconds), int(mp.second_fractions)) != \
            (raw_prop.seconds, raw_prop.second_fractions):
        return ("raw property (metadata-only read, raw_timestamps=True)", repr(mp))
    if mf["g"]["r"].dtype != rf["g"]["r"].dtype:
        return ("raw channel dtype (metadata-only read)", str(mf["g"]["r"].dtype), str(rf["g"]["r"].dtype))
    mc = TdmsFile.read_metadata(io.BytesIO(content))
    v = mc["g"]["c"].properties.get("t_chan")
    if not isinstance(v, np.datetime64) or int(v.astype("int64")) != pd[1]:
        return ("property datetime (metadata-only read)", dt_str(pd[1]), str(v))
    return None


# ---------------------------------------------------------------------------
# E. time_track

def time_track_cases(run, rng, n):
    cases = []
    lengths = [0, 1, 2, 3, 10, 257]
    for k in range(n):
        length = lengths[k % len(lengths)] if k < 4 * len(lengths) else rng.randrange(0, 400)
        mag = rng.choice([1e-6, 1e-3, 1.0, 10.0])
        inc = rng.choice([1, 1, 1, -1]) * rng.random() * mag
        if rng.random() < 0.1:
            inc = rng.choice([0.0, 0.5, 1.0, 1e-3])
        off = rng.choice([0.0, 0.0, rng.uniform(-100, 100), rng.uniform(-1e-3, 1e-3), rng.uniform(-1e4, 1e4)])
        start = rng.randrange(2 * 10 ** 9 * 10 ** 6, 5 * 10 ** 9 * 10 ** 6) + TDMS_EPOCH_US   # 1967 .. 2062
        cases.append({"op": "time_track", "n": length, "increment": inc, "offset": off, "start": start})
    return cases


def run_time_track(run, case):
    n, inc, off, start = case["n"], case["increment"], case["offset"], case["start"]
    run.cov["evaluations"] += 1
    run.count("time_track_len_%s" % (n if n < 3 else "n"))
    start_dt = np.datetime64(start, "us")
    buf = io.BytesIO()
    with TdmsWriter(buf) as w:
        props = {"wf_increment": inc, "wf_start_offset": off, "wf_start_time": start_dt}
        if n >= 2 and (n + int(abs(off))) % 3 == 0:
            # a waveform written in two pieces carrying LabVIEW's per-write wf_samples count: the time track has
            # len(channel) points, not wf_samples
            k = n // 2
            props["wf_samples"] = k
            w.write_segment([ChannelObject("g", "c", np.arange(k, dtype=np.int32), props)])
            w.write_segment([ChannelObject("g", "c", np.arange(k, n, dtype=np.int32), {"wf_samples": n - k})])
        else:
            w.write_segment([ChannelObject("g", "c", np.arange(n, dtype=np.int32), props)])
    problems = []
    for raw_ts in (False, True):
        f = TdmsFile.read(io.BytesIO(buf.getvalue()), raw_timestamps=raw_ts)
        ch = f["g"]["c"]
        rel = ch.time_track()
        if len(ch) != n or len(rel) != n:
            problems.append(("length", len(ch), len(rel)))
            continue
        scale = max(abs(off), abs(off + (n - 1) * inc), 1e-300)
        tol = 8 * np.finfo(float).eps * scale
        if n >= 1 and rel[0] != off:
            problems.append(("first point", float(rel[0]), off))
        for i in range(n):
            if abs(float(rel[i]) - (off + i * inc)) > tol:
                problems.append(("point", i, float(rel[i]), off + i * inc))
                break
        for i in range(n - 1):
            if abs((float(rel[i + 1]) - float(rel[i])) - inc) > 2 * tol:
                problems.append(("spacing", i, float(rel[i + 1]) - float(rel[i]), inc))
                break
        for acc in RES:
            m = STEPS[acc]
            ab = ch.time_track(absolute_time=True, accuracy=acc)
            if len(ab) != n:
                problems.append(("absolute length", acc, len(ab)))
                continue
            # wf_start_time: read as datetime64[us] by default (the sum then has the finer of the two
            # units), as a raw timestamp converted at the requested accuracy with raw_timestamps=True
            if raw_ts:
                start_used = np.datetime64(start * m // 10 ** 6, acc)
                unit = acc
            else:
                start_used = start_dt
                unit = acc if m >= 10 ** 6 else "us"
            if n and ab.dtype != np.dtype("datetime64[%s]" % unit):
                problems.append(("absolute dtype", acc, str(ab.dtype), raw_ts))
            # absolute form = start + truncation of relative * unit
            truncs = [int(float(rel[i]) * float(m)) for i in range(n)]
            want = start_used + np.array(truncs, dtype="int64").astype("timedelta64[%s]" % acc)
            if n and not (ab == want).all():
                i = [j for j in range(n) if ab[j] != want[j]][0]
                problems.append(("absolute", acc, i, str(ab[i]), str(want[i]), raw_ts))
            for i in range(n):
                if abs(truncs[i] - (off + i * inc) * m) > 1 + 16 * np.finfo(float).eps * abs(scale * m):
                    problems.append(("absolute within one unit", acc, i, truncs[i], (off + i * inc) * m))
                    break
    if problems:
        report(run, "time-track", "time_track of a channel of length %d, offset %r, increment %r: %r"
                      % (n, off, inc, problems[:3]), case, actual=problems[:5])
    else:
        run.cov["distinct_nontrivial"] += 1


# ---------------------------------------------------------------------------
# F. linspace_tie: Model/TimeTrackF.v (the binary64 operations of np.linspace in NumPy's order,
# the caller's stop, the truncating cast of the absolute form) against NumPy, bit for bit

IMPORTS_TT = ("From Coq Require Import ZArith List PrimFloat.\nFrom NpTdms Require Import Model.Timestamp "
              "Model.TimeTrackF.\nImport ListNotations.\nOpen Scope Z_scope.\n")
INT64_MIN = -2 ** 63


def cf(x):
    """python float -> Coq PrimFloat term (bit-exact; NaNs identified)"""
    x = float(x)
    if x != x:
        return "nan"
    if x in (float("inf"), float("-inf")):
        return "infinity" if x > 0 else "neg_infinity"
    return "(%s)%%float" % x.hex()


def linspace_cases(run, rng):
    """(offset, increment, len, [indices])"""
    tiny = [5e-324, 1e-320, 3e-310, 2.2250738585072014e-308]
    huge = [1e300, 8.9e307, 1.7976931348623157e308]
    out = []

    def add(o, c, n):
        idx = sorted(set(i for i in (0, 1, n // 3, n // 2, n - 2, n - 1, rng.randrange(n)) if 0 <= i < n))
        out.append((float(o), float(c), n, idx))
    lengths = [1, 2, 3, 257, 10, 1000]
    for n in lengths:
        for c in (0.25, -0.25, 1e-6, -1e-3, 0.0, -0.0, 1.0 / 3, 1e9):
            for o in (0.0, -0.0, 1.5, -7.25e3):
                add(o, c, n)
        for t in tiny:          # step underflows to 0 or is denormal: the gh-5437 branch
            add(0.0, t, n)
            add(-t, t, n)
            add(t * 3, -t, n)
            add(rng.random() * 1e-300, rng.random() * t * 4, n)
        for h in huge:          # products and sums that overflow
            add(0.0, h, n)
            add(h, -h / max(n - 1, 1), n)
            add(-h, h, n)
            add(rng.random() * h, (rng.random() - 0.5) * h / n, n)
    for _ in range(60):
        n = rng.choice(lengths + [rng.randrange(1, 5000)])
        mag = rng.choice([1e-6, 1e-3, 1.0, 10.0, 1e10])
        add(rng.choice([0.0, rng.uniform(-100, 100), rng.uniform(-1e4, 1e4)]),
            rng.choice([1, 1, -1]) * rng.random() * mag, n)
    add(0.0, 1e-6, 10 ** 6)
    add(1.5, 1e-6, 10 ** 6)
    add(-3.0e5, 1.0 / 3, 2 ** 20 + 1)
    return out


def linspace_tie(run, rng, only=None):
    cases, meta = [], []
    for (o, c, n, idx) in (only if only is not None else linspace_cases(run, rng)):
        o64, c64 = np.float64(o), np.float64(c)
        stop = o64 + (n - 1) * c64                       # the expression of tdms.py
        rel = np.linspace(o64, stop, n)
        if n <= 1000:                                    # the same through the public API
            buf = io.BytesIO()
            with TdmsWriter(buf) as w:
                w.write_segment([ChannelObject("g", "c", np.zeros(n, dtype=np.int8),
                                               {"wf_increment": c, "wf_start_offset": o})])
            api = TdmsFile.read(io.BytesIO(buf.getvalue()))["g"]["c"].time_track()
            run.cov["evaluations"] += 1
            if len(api) != n or api.tobytes() != rel.tobytes():
                report(run, "time-track", "time_track() differs from np.linspace(offset, offset + (len-1)*increment, "
                       "len) for offset %r increment %r len %d" % (o, c, n),
                       {"op": "linspace_tie", "offset": o.hex(), "increment": c.hex(), "n": n},
                       expected=[float(v).hex() for v in rel[:4]], actual=[float(v).hex() for v in api[:4]])
        ks = {}
        for acc in RES:
            ks[acc] = (rel * float(STEPS[acc])).astype("timedelta64[%s]" % acc).astype("int64")
        for i in idx:
            kk = [int(ks[acc][i]) for acc in RES]
            cases.append("(%s, %s, %d, %d, %s, %s, [%s])" % (
                cf(o), cf(c), n, i, cf(stop), cf(rel[i]),
                "; ".join("None" if k == INT64_MIN else "Some (%d)" % k for k in kk)))
            meta.append({"op": "linspace_tie", "offset": o.hex(), "increment": c.hex(), "n": n, "i": i,
                         "stop": float(stop).hex(), "linspace": float(rel[i]).hex(), "casts": kk})
            run.count("linspace_tie_len_%s" % (n if n <= 3 else "n"))
            if rel[i] != rel[i] or abs(float(rel[i])) == float("inf"):
                run.count("linspace_tie_nonfinite")
    bad, errors = H.run_sharded(run.pid, IMPORTS_TT, "float * float * Z * Z * float * float * list (option Z)",
                                "check_linspace", cases, shard=400, tag="linspace_tie")
    run.corr_errors(errors)
    run.cov["traces_validated_against_impl"] += len(cases) - len(bad)
    run.count("linspace_tie_model_compared", len(cases))
    for j in bad[:3]:
        m = meta[j]
        fo, fc = cf(float.fromhex(m["offset"])), cf(float.fromhex(m["increment"]))
        rc, out = H.coq_print_terms(run.pid, IMPORTS_TT,
                                    ["time_track_stop %s %s %d" % (fo, fc, m["n"]),
                                     "time_track_f %s %s %d %d" % (fo, fc, m["n"], m["i"]),
                                     "map (fun r => trunc_f (time_track_f %s %s %d %d * uc_f r)%%float) all_res"
                                     % (fo, fc, m["n"], m["i"])],
                                    tag="show_ls%d" % j)
        report(run, "corr-linspace", "Model.TimeTrackF and NumPy disagree on linspace point %d of %d "
               "(offset %s, increment %s)" % (m["i"], m["n"], m["offset"], m["increment"]), m,
               kind="correspondence-broken", theorem="Model.TimeTrackF.time_track_f / trunc_f vs np.linspace / astype",
               expected=m["linspace"], actual=m["casts"], model=out[-1500:], no_input=True)
    if bad:
        run.notes.append("linspace_tie: model/NumPy disagree on %d of %d points" % (len(bad), len(cases)))
    if only is not None:
        return
    # np.linspace on arbitrary endpoints (the gh-5437 branch with a non-zero delta needs endpoints that
    # time_track's own stop never produces)
    ep_cases, ep_meta = [], []
    den = 5e-324
    eps_list = []
    for n in (2, 3, 10, 257, 1000, 4097):
        for k in (1, 2, 3, (n - 1) // 2, n - 2, n - 1, n, 3 * n, 100):
            if k > 0:
                eps_list += [(0.0, k * den, n), (k * den, 0.0, n), (-k * den, k * den, n),
                             (rng.randrange(1, 2 ** 20) * den, (rng.randrange(1, 2 ** 20) + k) * den, n)]
        for _ in range(6):
            a = rng.uniform(-1, 1) * rng.choice([1e-300, 1e-3, 1.0, 1e6, 1e300])
            b = rng.uniform(-1, 1) * rng.choice([1e-300, 1e-3, 1.0, 1e6, 1e300])
            eps_list.append((a, b, n))
        eps_list += [(1.0, 1.0, n), (-0.0, 0.0, n), (0.0, -0.0, n), (1.7e308, -1.7e308, n), (float("inf"), 0.0, n),
                     (0.0, float("nan"), n)]
    for (a, b, n) in eps_list:
        y = np.linspace(np.float64(a), np.float64(b), n)
        for i in sorted(set([0, 1, n // 2, n - 2, n - 1, rng.randrange(n)])):
            if 0 <= i < n:
                ep_cases.append("(%s, %s, %d, %d, %s)" % (cf(a), cf(b), n, i, cf(y[i])))
                ep_meta.append({"op": "linspace_ep", "start": float(a).hex(), "stop": float(b).hex(), "n": n, "i": i,
                                "linspace": float(y[i]).hex()})
        d = np.float64(b) - np.float64(a)
        if d != 0 and d / (n - 1) == 0:
            run.count("linspace_ep_step_zero_delta_nonzero")
    bad, errors = H.run_sharded(run.pid, IMPORTS_TT, "float * float * Z * Z * float", "check_linspace_ep", ep_cases,
                                shard=400, tag="linspace_ep")
    run.corr_errors(errors)
    run.cov["traces_validated_against_impl"] += len(ep_cases) - len(bad)
    run.count("linspace_ep_model_compared", len(ep_cases))
    for j in bad[:3]:
        m = ep_meta[j]
        rc, out = H.coq_print_terms(run.pid, IMPORTS_TT,
                                    ["linspace_f %s %s %d %d" % (cf(float.fromhex(m["start"])),
                                                                 cf(float.fromhex(m["stop"])), m["n"], m["i"])],
                                    tag="show_ep%d" % j)
        report(run, "corr-linspace", "Model.TimeTrackF.linspace_f and np.linspace(%s, %s, %d)[%d] disagree"
               % (m["start"], m["stop"], m["n"], m["i"]), m, kind="correspondence-broken",
               theorem="Model.TimeTrackF.linspace_f vs np.linspace", expected=m["linspace"], model=out[-800:],
               no_input=True)
    if bad:
        run.notes.append("linspace_ep: model/NumPy disagree on %d of %d points" % (len(bad), len(ep_cases)))


# ---------------------------------------------------------------------------

def replay(run, case):
    op = case.get("op")
    if op == "roundtrip":
        run_roundtrip(run, [int(case["d"])], "replay")
    elif op == "conv":
        pairs = sorted((int(s), int(f)) for s, f in case["pairs"])
        run_conv(run, pairs, case["res"], "replay")
    elif op == "raw":
        run_raw(run, [(bool(case["big"]), bytes.fromhex(case["hex"]))], "replay")
    elif op == "time_track":
        run_time_track(run, case)
    elif op == "e2e":
        run_e2e(run, case)
    elif op == "linspace_tie":
        linspace_tie(run, None, only=[(float.fromhex(case["offset"]), float.fromhex(case["increment"]), int(case["n"]),
                                       [int(case["i"])] if "i" in case else [0, int(case["n"]) - 1])])
    else:
        print("replay: nothing to re-run for kind", op)


def tick(run, label, _last=[None]):
    """wall time per phase, recorded in the evidence file"""
    import time
    now = time.time()
    run.cov.setdefault("phase_wall_s", {})[label] = round(now - (_last[0] or run.t0), 1)
    _last[0] = now


def main():
    run = H.Run("C12")
    run.prove()
    tick(run, "prove")
    np.seterr(all="ignore")
    if run.replay:
        replay(run, json.load(open(run.replay))["case"])
        finish(run)
    rng = random.Random(run.seed)

    # A. round trip
    ds = roundtrip_inputs(run, rng)
    fields = []
    for k in range(0, len(ds), 200000):     # in slices, to bound the memory taken by the case files
        fields += run_roundtrip(run, ds[k:k + 200000], "roundtrip_datetimes", tag="rt%d" % (k // 200000))

    tick(run, "roundtrip")
    # B. conversions
    fs = conv_fractions(run, rng)
    pairs_ns = sorted((rng.choice(NS_SAFE), f) for f in fs)
    # every second of the pool at the extreme fractions, so that the order across seconds is exercised
    edge = [0, 1, TWO64 - 4097, TWO64 - 4096, TWO64 - 1]
    pairs_ns = sorted(set(pairs_ns) | set((s, f) for s in NS_SAFE + [x + 1 for x in NS_SAFE] for f in edge))
    run_conv(run, pairs_ns, RES, "conv_boundary_pairs")
    pairs_wide = sorted(set((s, f) for s in WIDE + [x + 1 for x in WIDE]
                            for f in edge + [rng.randrange(TWO64) for _ in range(50)]))
    run_conv(run, pairs_wide, ["s", "ms", "us"], "conv_wide_seconds")
    # the fields produced by the encoder, at all resolutions (ns only where representable)
    enc_pairs = sorted(set(p for p in fields if p is not None and -7 * 10 ** 9 <= p[0] <= 11 * 10 ** 9))
    step = max(1, len(enc_pairs) // run.pick(3000, 30000))
    run_conv(run, enc_pairs[::step], RES, "conv_encoded_fields")

    tick(run, "conversions")
    # C. raw bytes
    run_raw(run, raw_inputs(run, rng), "raw_records")

    tick(run, "raw_records")
    # D. end to end
    end_to_end(run, random.Random(run.seed ^ 0xE2E), run.pick(60, 600))
    tick(run, "end_to_end")

    # E. time_track
    for case in time_track_cases(run, rng, run.pick(150, 2000)):
        try:
            run_time_track(run, case)
        except Exception as e:
            report(run, "time-track", "time_track raised %r" % (e,), case, actual=repr(e))

    tick(run, "time_track")
    # F. the binary64 model of linspace / time_track against NumPy
    linspace_tie(run, random.Random(run.seed ^ 0x715))
    tick(run, "linspace_tie")
    run.cov["exhaustive"] = bool(run.thorough)
    run.cov["rule"] = (
        "round trip: %s microsecond values of the sub-second part, each with a second drawn from a pool "
        "(pre-1904, 0, +-2^31, +-2^33, 2015/2020, year 9999, > 2^59 us, both ends of the datetime64[us] range), "
        "scalar path (TimeStamp.read) and array path (from_bytes) on every value; conversions: fractions adjacent "
        "(+-2, and +-2 around the 2^12 tolerance) to k*2^64/10^r for all k (r=3) / sampled k (r=6,9), 0, 2^64-1, "
        "powers of two, random; raw records: random and special 16-byte strings in both byte orders; end-to-end "
        "files through TdmsWriter / TdmsFile / defragment; time_track on lengths 0,1,2,3,10,257 and random; "
        "linspace_tie: lengths 1,2,3,10,257,1000, random < 5000, 10^6, 2^20+1 x increments +-0.25, 1e-6, 0, -0, 1/3, 1e9, "
        "denormal (step == 0 branch) and overflowing ones x offsets 0, -0, 1.5, -7250, indices 0, 1, n/3, n/2, n-2, n-1, "
        "random. "
        "Non-trivial = a case on which every oracle held (round trip on both paths / a conversion checked at one "
        "resolution / a raw record re-written identically / a file / a time track)."
        % ("all 10^6" if run.thorough else "10^5 stratified (one per decade)"))
    run.sample({"datetime": "2020-01-01T00:00:16.000001", "d": 1577836816000001,
                "fields": list(struct.unpack("<Qq", TimeStamp(np.datetime64(1577836816000001, "us")).bytes))[::-1]})
    run.sample({"seconds": 3524551547, "second_fractions": 12345678900000000000,
                "as_datetime64": {r: str(TdmsTimestamp(3524551547, 12345678900000000000).as_datetime64(r))
                                  for r in RES}})
    run.sample({"raw_be": "fffffffffffffffe7fffef39085f4a13", "seconds": -2, "second_fractions": 9223353590110702099})
    run.assumptions = [
        "datetime64 / timedelta64 arithmetic of NumPy is modelled as integer arithmetic on the int64 counts "
        "(no wrap-around inside the stated ranges); uint64 array arithmetic as arithmetic modulo 2^64",
        "struct.pack/unpack '<Qq' / '>qQ' modelled by Base/Bytes.v u_enc/s_enc",
        "time_track: over the reals in Props/C12.v; the binary64 computation (Model/TimeTrackF.v: NumPy's linspace "
        "operations in order, the caller's stop, the truncating cast) is bounded by theorem in Props/C12_round.v "
        "(|point - (offset + i*increment)| <= (1+3u)(u(2|offset| + 6(n-1)|increment|) + (i+6)eta), u = 2^-53, for finite "
        "float64 properties, 2 <= n <= 2^53, |offset| + (n-1)|increment| <= 2^1023) and compared bit for bit with "
        "np.linspace / time_track() / astype(timedelta64) inside Coq (linspace_tie); the implementation-side oracle "
        "keeps its 8-ulp tolerance; integer-typed wf_* properties are outside the model",
        "'ps' resolution keeps the float path and is not claimed",
        "integer theorems are about the code with repair D5 applied (dev/patches/D5.patch); on a tree without it "
        "the round-trip oracle fails (key us-roundtrip) and Model.Timestamp.AsIs predicts the failure"]
    finish(run)


if __name__ == "__main__":
    main()
