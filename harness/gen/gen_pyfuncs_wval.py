#!/venv/bin/python
"""Fail-closed translator: the VALUE DISPATCH of npTDMS's writer -> coq/theories/Gen/PyFuncsWVal.v

Translated with Python `ast` (harness/gen/py2gallina.py + harness/gen/meta_common.py; nptdms is imported only for
the self-test, harness/gen/wval_selftest.py):

  nptdms/writer.py  _to_tdms_value (the isinstance chain IN ITS ORDER: np.number, TdmsType, bool / np.bool_, int via
                    to_int_property_value, float, datetime, np.datetime64, TdmsTimestamp, str, bytes, TypeError),
                    read_properties_dict, ChannelObject.__init__ (the 1-d check) and ChannelObject.data_type
                    (numpy_data_types[dtype], else the class of _to_tdms_value(data[0]), else Void), _has_raw_data,
                    TdmsSegment._write_data, write_data (TimeStamp / TdmsTimestamp object arrays / String / to_file),
                    write_values, write_string_values, to_file, _to_np_array (byte order conversion, the timestamp
                    field reorder, _infer_dtype for lists) and _infer_dtype (the guard; its chain is
                    Gen/PyFuncsWriter.v infer_dtype_chain)

Semantic domain (fixed text, PRELUDE below).
 * A Python value handed to the writer is a `pyval`: its Python class (np.number with the TDMS class its dtype maps to
   in numpy_data_types, TdmsType instance, bool, np.bool_, int, float, datetime, np.datetime64, TdmsTimestamp, str,
   bytes, anything else) together with the canonical little-endian VALUE BYTES its TDMS representation has.  How
   NumPy / struct / TimeStamp compute those bytes is not translated here (C12, Gen/PyFuncsTime.v, Model/Writer.v):
   the constructors Boolean(v), DoubleFloat(v), TimeStamp(v), String(v), numpy_data_types[dtype](v) are primitives
   that pick the class and keep the bytes; to_int_property_value is Gen/PyFuncsWriter.v's, its struct packing
   Model/Writer.v pack_int.  isinstance follows Python's class hierarchy: bool IS an int, np.float64 IS a float,
   np.bool_ is neither bool nor np.number, TdmsTimestamp is not a TdmsType.
 * A class is `wcls`: a TdmsType subclass (its enum value) or TdmsTimestamp.  A value object (TdmsType instance or
   TdmsTimestamp) is `tval` = (class, value bytes); `.bytes` is the serialised form (length-prefixed for String).
 * An ndarray is a `parray`: whether it is a TimestampArray, what numpy_data_types says for its dtype (None:
   KeyError), whether its dtype is object, its byte order, whether its first field is 'seconds', ndim, its elements
   (what indexing yields).  `astype(dtype.newbyteorder('<'), copy=False)` sets the order; the four statements that
   build the reordered TimestampArray set the field order; tofile / tobytes dump the in-memory layout (pa_raw).
   A list given as channel data is its elements plus, for dtype None, the array np.array(data) makes of it.
 * `file.write(x)` appends x to the output (`yield x`); a call of another writing function yields its chunks.
 * `try: [s.encode('utf-8') for s in strings] except AttributeError: strings` is the primitive py_encode_strings.

Anything unrecognised: message on stderr, exit 1, nothing written.
"""
import ast
import copy as _copy
import os
import sys

HERE = os.path.dirname(os.path.abspath(__file__))
sys.path.insert(0, HERE)
import py2gallina as T                                             # noqa: E402
from py2gallina import Z, B, NONE, BYTES, OPT, LIST, TUP, REC       # noqa: E402
import np_sem as N                                                 # noqa: E402
import meta_common as M                                            # noqa: E402
from meta_common import unp, body_of, comment_of                    # noqa: E402

VERIF = M.VERIF
REPO = M.REPO
OUT = os.path.join(VERIF, "coq", "theories", "Gen", "PyFuncsWVal.v")
ME = "gen_pyfuncs_wval"
D = M.Driver(ME)
die = D.die

PYVAL, TVAL, WCLS, PARRAY, PYDATA, NPDT = REC("pyval"), REC("tval"), REC("wcls"), REC("parray"), REC("pydata"), REC("np_dtype_name")


def ADICT(v):
    return ("adict", v)


ATTR = {
    ("tval", "__class__"): ("fst", WCLS, None),
    ("tval", "bytes"): ("tval_bytes", BYTES, None),
    ("parray", "ndim"): ("pa_ndim", Z, None),
}

# isinstance(<pyval>, <class expression text>)
ISINST = {"np.number": "pv_is_np_number", "TdmsType": "pv_is_tdms_type", "bool": "pv_is_bool", "np.bool_": "pv_is_np_bool",
          "int": "pv_is_int", "float": "pv_is_float", "datetime": "pv_is_datetime", "np.datetime64": "pv_is_datetime64",
          "TdmsTimestamp": "pv_is_tdms_timestamp", "str": "pv_is_str", "bytes": "pv_is_bytes"}

PRELUDE = """\
(* ---- the Python primitives the translation relies on (fixed text) ---- *)
Definition need {A} (e : err) (o : option A) : res A :=
  match o with Some a => Ok a | None => Err e end.
Definition is_none {A} (o : option A) : bool :=
  match o with None => true | Some _ => false end.
Definition err_eqb (a b : err) : bool :=
  match a, b with
  | EEof, EEof | EValue, EValue | EKey, EKey | EStruct, EStruct | ENotImpl, ENotImpl | EIndex, EIndex
  | ERuntime, ERuntime | EType, EType | EOther, EOther | EFuel, EFuel => true
  | _, _ => false
  end.
(* try: r  except E: h   /   except (E1, E2): h *)
Definition py_catch {A} (e : err) (r h : res A) : res A :=
  match r with
  | Err e' => if err_eqb e' e then h else r
  | Ok _ => r
  end.
Definition py_catch2 {A} (e1 e2 : err) (r h : res A) : res A :=
  match r with
  | Err e' => if err_eqb e' e1 || err_eqb e' e2 then h else r
  | Ok _ => r
  end.
""" + M.PRELUDE_OBJECTS + """\

(* ---- classes and value objects ---- *)
(* a TdmsType subclass (its enum_value) or the class TdmsTimestamp *)
Inductive wcls := CTdms (enum : Z) | CTimestampObj.
Definition wcls_eqb (a b : wcls) : bool :=
  match a, b with
  | CTdms x, CTdms y => x =? y
  | CTimestampObj, CTimestampObj => true
  | _, _ => false
  end.
(* cls.enum_value (REFLECTED below: TdmsTimestamp.enum_value) *)
Definition wcls_enum (c : wcls) : Z := match c with CTdms e => e | CTimestampObj => tdms_timestamp_enum_value end.
(* a TdmsType instance or a TdmsTimestamp: its class and its canonical little-endian value bytes (strings: UTF-8) *)
Definition tval := (wcls * bytes)%type.
(* obj.bytes: the value as it is written (String: length prefix + content) *)
Definition tval_bytes (t : tval) : bytes :=
  if wcls_eqb (fst t) (CTdms cls_String) then u_enc LE 4 (blen (snd t)) ++ snd t else snd t.

(* ---- Python values given to the writer ---- *)
Inductive pyval :=
| VNpNumber (cls : option Z) (b : bytes)   (* an np.number scalar; cls: numpy_data_types[value.dtype] (None: KeyError) *)
| VTdms (c : Z) (b : bytes)                (* an instance of the TdmsType subclass with enum value c *)
| VBool (b : bool)                         (* a Python bool *)
| VNpBool (b : bool)                       (* np.bool_ *)
| VInt (z : Z)                             (* a Python int that is not a bool *)
| VFloat (b : bytes)                       (* a Python float: the 8 bytes of the double *)
| VDatetime (b : bytes)                    (* datetime.datetime: the 16 bytes TimeStamp(value) computes *)
| VDatetime64 (b : bytes)                  (* np.datetime64: likewise *)
| VTimestamp (b : bytes)                   (* TdmsTimestamp: second_fractions, seconds *)
| VStr (b : bytes)                         (* str (np.str_ included): its UTF-8 bytes *)
| VBytes (b : bytes)                       (* bytes *)
| VOther.                                  (* None, lists, dates, ... *)

(* isinstance(value, C), following the class hierarchy *)
Definition pv_is_np_number (v : pyval) : bool := match v with VNpNumber _ _ => true | _ => false end.
Definition pv_is_tdms_type (v : pyval) : bool := match v with VTdms _ _ => true | _ => false end.
Definition pv_is_bool (v : pyval) : bool := match v with VBool _ => true | _ => false end.
Definition pv_is_np_bool (v : pyval) : bool := match v with VNpBool _ => true | _ => false end.
Definition pv_is_int (v : pyval) : bool := match v with VInt _ | VBool _ => true | _ => false end.      (* bool is an int *)
Definition pv_is_float (v : pyval) : bool :=
  match v with VFloat _ => true | VNpNumber (Some c) _ => c =? cls_DoubleFloat | _ => false end.      (* np.float64 is a float *)
Definition pv_is_datetime (v : pyval) : bool := match v with VDatetime _ => true | _ => false end.
Definition pv_is_datetime64 (v : pyval) : bool := match v with VDatetime64 _ => true | _ => false end.
Definition pv_is_tdms_timestamp (v : pyval) : bool := match v with VTimestamp _ => true | _ => false end.
Definition pv_is_str (v : pyval) : bool := match v with VStr _ => true | _ => false end.
Definition pv_is_bytes (v : pyval) : bool := match v with VBytes _ => true | _ => false end.
(* the canonical value bytes a value carries (none for ints, bools: computed by the constructors) *)
Definition pv_bytes (v : pyval) : bytes :=
  match v with
  | VNpNumber _ b | VTdms _ b | VFloat b | VDatetime b | VDatetime64 b | VTimestamp b | VStr b | VBytes b => b
  | VBool b | VNpBool b => [if b then x01 else x00]
  | VInt _ | VOther => []
  end.

(* the constructors _to_tdms_value calls: they choose the class; the bytes are the value's *)
(* numpy_data_types[value.dtype](value): KeyError for a dtype not in the table; ComplexType has no __init__(value) *)
Definition np_number_value (v : pyval) : res tval :=
  match v with
  | VNpNumber None _ => Err EKey
  | VNpNumber (Some c) b => if (c =? cls_ComplexSingleFloat) || (c =? cls_ComplexDoubleFloat) then Err EType else Ok (CTdms c, b)
  | _ => Err EOther
  end.
(* `return value` for a TdmsType instance / a TdmsTimestamp *)
Definition as_value_object (v : pyval) : res tval :=
  match v with
  | VTdms c b => Ok (CTdms c, b)
  | VTimestamp b => Ok (CTimestampObj, b)
  | _ => Err EOther
  end.
(* Boolean(value): bool(value), one byte *)
Definition tdms_boolean (v : pyval) : res tval :=
  match v with
  | VBool b | VNpBool b => Ok (CTdms cls_Boolean, [if b then x01 else x00])
  | VInt z => Ok (CTdms cls_Boolean, [if z =? 0 then x00 else x01])
  | _ => Err EOther
  end.
(* to_int_property_value(value): Gen/PyFuncsWriter.v picks Int32 / Int64 / Uint64; StructType.__init__ packs
   (struct.error outside the field: Model/Writer.v pack_int).  A bool is the int 0 / 1. *)
Definition int_value_object (z : Z) : res tval :=
  let '(c, w) := to_int_property_value z in
  let '(ty, width, signed) := ctor_layout c in
  do b <- pack_int width signed w; Ok (CTdms ty, b).
Definition to_int_property_value_py (v : pyval) : res tval :=
  match v with
  | VInt z => int_value_object z
  | VBool b => int_value_object (if b then 1 else 0)
  | _ => Err EType
  end.
(* DoubleFloat(value) *)
Definition tdms_double (v : pyval) : res tval :=
  match v with
  | VFloat b => Ok (CTdms cls_DoubleFloat, b)
  | VNpNumber (Some c) b => if c =? cls_DoubleFloat then Ok (CTdms cls_DoubleFloat, b) else Err EOther
  | _ => Err EOther
  end.
(* TimeStamp(value) for a datetime / np.datetime64 (its arithmetic: Gen/PyFuncsTime.v, C12) *)
Definition tdms_timestamp (v : pyval) : res tval :=
  match v with
  | VDatetime b | VDatetime64 b => Ok (CTdms cls_TimeStamp, b)
  | _ => Err EOther
  end.
(* String(value): value.encode('utf-8') -- bytes have no encode (AttributeError) *)
Definition tdms_string (v : pyval) : res tval :=
  match v with
  | VStr b => Ok (CTdms cls_String, b)
  | _ => Err EOther
  end.

(* ---- arrays ---- *)
Record parray := mkParray {
  pa_tsarray : bool;            (* isinstance(a, TimestampArray) *)
  pa_table : option Z;          (* numpy_data_types[a.dtype.newbyteorder('<')] (None: KeyError) *)
  pa_object : bool;             (* a.dtype == np.dtype('O') *)
  pa_kind_u : bool;             (* a.dtype.kind == 'U' (fixed-width unicode strings) *)
  pa_le : bool;                 (* byte order of the dtype is little-endian / not applicable *)
  pa_seconds_first : bool;      (* a.dtype.names[0] == 'seconds' (structured timestamp dtype in big-endian field order) *)
  pa_ndim : Z;
  pa_elems : list pyval }.      (* a[i] *)
(* numpy_data_types[a.dtype]: the table is keyed by the native (little-endian) dtypes, a big-endian dtype is not in it *)
Definition pa_lookup (a : parray) : option Z := if pa_le a then pa_table a else None.
(* data.astype(data.dtype.newbyteorder('<'), copy=False) *)
Definition pa_astype_le (a : parray) : parray :=
  mkParray (pa_tsarray a) (pa_table a) (pa_object a) (pa_kind_u a) true (pa_seconds_first a) (pa_ndim a) (pa_elems a).
(* the four statements that copy both fields into an array with fields (second_fractions, seconds) and wrap it *)
Definition pa_ts_reorder (a : parray) : parray :=
  mkParray true (pa_table a) (pa_object a) (pa_kind_u a) (pa_le a) false (pa_ndim a) (pa_elems a).
(* array.tofile(file) / array.tobytes(): the in-memory layout.  Big-endian storage reverses every scalar: the two
   fields of a timestamp record and the two components of a complex number separately (as NumPy's newbyteorder does) *)
Definition pa_two_part (a : parray) : bool :=
  pa_tsarray a || match pa_table a with Some c => (c =? cls_ComplexSingleFloat) || (c =? cls_ComplexDoubleFloat) | None => false end.
Definition pa_raw (a : parray) : bytes :=
  concat (map (fun v => let b := pv_bytes v in
                        let h := Nat.div (length b) 2 in
                        let b := if pa_seconds_first a then skipn h b ++ firstn h b else b in
                        if pa_le a then b
                        else if pa_two_part a then rev (firstn h b) ++ rev (skipn h b) else rev b) (pa_elems a)).
(* channel data as given to ChannelObject: an ndarray, or a list with the array np.array(data) makes of it *)
Inductive pydata := PDArray (a : parray) | PDList (elems : list pyval) (as_array : parray).
Definition pd_is_ndarray (d : pydata) : bool := match d with PDArray _ => true | PDList _ _ => false end.
Definition pd_array (d : pydata) : res parray := match d with PDArray a => Ok a | PDList _ _ => Err EOther end.
Definition pd_elems (d : pydata) : list pyval := match d with PDArray a => pa_elems a | PDList l _ => l end.
(* int(value) of an element that passed isinstance(value, int) *)
Definition pv_int (v : pyval) : res Z :=
  match v with VInt z => Ok z | VBool b => Ok (if b then 1 else 0) | _ => Err EType end.
(* max(data) / min(data) of a non-empty list of ints *)
Definition py_max_ints (l : list pyval) : res Z :=
  do zs <- mapM pv_int l; match zs with [] => Err EValue | z :: r => Ok (fold_left Z.max r z) end.
Definition py_min_ints (l : list pyval) : res Z :=
  do zs <- mapM pv_int l; match zs with [] => Err EValue | z :: r => Ok (fold_left Z.min r z) end.
(* np.array(data, dtype=d) for a list: with an integer dtype every element must fit (OverflowError), the
   result is a little-endian 1-d array of that dtype; with dtype None it is the array NumPy infers *)
Definition np_array_of_list (d : pydata) (dt : option np_dtype_name) : res parray :=
  match d, dt with
  | PDList l _, Some n =>
    let '(ty, width, signed) := dtype_layout n in
    do zs <- mapM pv_int l;
    do vals <- mapM (fun z => match pack_int width signed z with Ok b => Ok (VNpNumber (Some ty) b) | Err _ => Err EOther end) zs;
    Ok (mkParray false (Some ty) false false true false 1 vals)
  | PDList _ a, None => Ok a
  | PDArray _, _ => Err EOther
  end.
(* try: [s.encode('utf-8') for s in strings]  except AttributeError: strings -- all str: their UTF-8; else the
   elements as they are (bytes); a str among bytes cannot be written (TypeError) *)
Definition py_encode_strings (l : list pyval) : res (list bytes) :=
  if forallb pv_is_str l then Ok (map pv_bytes l)
  else mapM (fun v => match v with VBytes b => Ok b | _ => Err EType end) l.
(* Uint32(offset).bytes *)
Definition uint32_bytes (z : Z) : res bytes := pack_int 4 false z.
"""


def translate():
    src_w, tree_w = D.parse("writer.py")
    src_t, tree_t = D.parse("types.py")
    src_s, tree_s = D.parse("timestamp.py")

    # ---- reflected class constants: @tds_data_type(enum, nptype) class X
    enums = {}
    for n in tree_t.body:
        if isinstance(n, ast.ClassDef):
            for d in n.decorator_list:
                if isinstance(d, ast.Call) and unp(d.func) == "tds_data_type" and d.args and isinstance(d.args[0], ast.Constant) \
                        and type(d.args[0].value) is int:
                    enums[n.name] = d.args[0].value
    want = ["Void", "Int32", "Int64", "Uint64", "DoubleFloat", "String", "Boolean", "TimeStamp", "ComplexSingleFloat", "ComplexDoubleFloat"]
    for w in want:
        if w not in enums:
            die("class %s with a @tds_data_type(<int>, ..) decorator not found in types.py" % w)
    ts = D.klass(tree_s, "TdmsTimestamp")
    ts_enum = [s.value.value for s in ts.body if isinstance(s, ast.Assign) and unp(s.targets[0]) == "enum_value"
               and isinstance(s.value, ast.Constant) and type(s.value.value) is int]
    if len(ts_enum) != 1:
        die("TdmsTimestamp.enum_value not found")
    if any(unp(b_) != "object" for b_ in ts.bases):
        die("TdmsTimestamp is no longer a plain object subclass")
    imp = [n for n in tree_w.body if isinstance(n, ast.ImportFrom)]
    if not any(n.module == "nptdms.types" and [a.name for a in n.names] == ["*"] for n in imp) \
            or not any(n.module == "nptdms.timestamp" and {"TdmsTimestamp", "TimestampArray"} <= {a.name for a in n.names} for n in imp) \
            or not any(n.module == "datetime" and [a.name for a in n.names] == ["datetime"] for n in imp):
        die("writer.py imports (nptdms.types *, TdmsTimestamp, TimestampArray, datetime.datetime)")
    consts = "".join("Definition cls_%s : Z := %d.\n" % (w, enums[w]) for w in want) + \
        "Definition tdms_timestamp_enum_value : Z := %d.\n" % ts_enum[0]

    cx = T.Cx(dict(ATTR), {}, {}, {})
    cx.kwcalls = True
    cx.genexp_as_list = True
    cx.try_catch = True
    sem = N.NpSem()
    cx.np = sem
    M.Hooks(sem, {}, cls_type=None)
    for w in ("Void", "String", "TimeStamp"):
        cx.globals[w] = ("(CTdms cls_%s)" % w, WCLS)
    cx.globals["TdmsTimestamp"] = ("CTimestampObj", WCLS)
    sigs = {}

    def fun(gen, stmts, params, env0, outputs, comment, **kw):
        rty = T.function(cx, gen, stmts, params, env0, outputs, comment, **kw)
        sigs[gen] = (params, rty)
        return rty

    CTORS = {"Boolean": "tdms_boolean", "DoubleFloat": "tdms_double", "TimeStamp": "tdms_timestamp", "String": "tdms_string",
             "to_int_property_value": "to_int_property_value_py", "as_value_object__": "as_value_object"}

    def arr(e, env, h, cx_):
        t, ty = T.ex(e, env, h, cx_)
        if ty != PARRAY:
            T.fail(e, "array expected, found %r" % (ty,))
        return t

    def calls(e, env, h, cx_):
        fn = unp(e.func)
        if e.keywords and fn not in ("np.array", "data.astype", "np.empty"):
            return None
        if fn == "isinstance" and len(e.args) == 2:
            t, ty = T.ex(e.args[0], env, h, cx_)
            cls = unp(e.args[1])
            if ty == PYVAL and cls in ISINST:
                return "(%s %s)" % (ISINST[cls], t), B
            if ty == PYDATA and cls == "np.ndarray":
                return "(pd_is_ndarray %s)" % t, B
            if ty == PARRAY and cls == "TimestampArray":
                return "(pa_tsarray %s)" % t, B
            T.fail(e, "isinstance test of %r against %s" % (ty, cls))
        if fn == "numpy_data_types[value.dtype]" and len(e.args) == 1 and unp(e.args[0]) == "value":
            v, vty = T.ex(e.args[0], env, h, cx_)
            if vty != PYVAL:
                T.fail(e, "numpy_data_types[..](..) of %r" % (vty,))
            return sem.hoist(e, h, cx_, "np_number_value %s" % v), TVAL
        if fn in CTORS and len(e.args) == 1:
            v, vty = T.ex(e.args[0], env, h, cx_)
            if vty != PYVAL:
                T.fail(e, "%s of %r" % (fn, vty))
            return sem.hoist(e, h, cx_, "%s %s" % (CTORS[fn], v)), TVAL
        if fn == "hasattr" and len(e.args) == 2 and isinstance(e.args[1], ast.Constant) and e.args[1].value == b"data":
            t, ty = T.ex(e.args[0], env, h, cx_)
            if ty != OPT(PARRAY):
                T.fail(e, "hasattr(.., 'data') of %r" % (ty,))
            return "(negb (is_none %s))" % t, B
        if fn == "data.astype" and len(e.args) == 1 and unp(e.args[0]) == "data.dtype.newbyteorder(b'<')" \
                and [(k.arg, unp(k.value)) for k in e.keywords] == [("copy", "False")]:
            return "(pa_astype_le %s)" % arr(e.func.value, env, h, cx_), PARRAY
        if fn == "ts_reorder__" and len(e.args) == 1:
            return "(pa_ts_reorder %s)" % arr(e.args[0], env, h, cx_), PARRAY
        if fn == "as_ndarray__" and len(e.args) == 1:
            d, dty = T.ex(e.args[0], env, h, cx_)
            if dty != PYDATA:
                T.fail(e, "ndarray view of %r" % (dty,))
            return sem.hoist(e, h, cx_, "pd_array %s" % d), PARRAY
        if fn == "np.array" and len(e.args) == 1 and [k.arg for k in e.keywords] == ["dtype"]:
            d, dty = T.ex(e.args[0], env, h, cx_)
            t, ty = T.ex(e.keywords[0].value, env, h, cx_)
            if dty != PYDATA or ty != OPT(NPDT):
                T.fail(e, "np.array(%r, dtype=%r)" % (dty, ty))
            return sem.hoist(e, h, cx_, "np_array_of_list %s %s" % (d, t)), PARRAY
        if fn == "np.dtype" and len(e.args) == 1 and isinstance(e.args[0], ast.Constant) and isinstance(e.args[0].value, bytes):
            nm = e.args[0].value.decode()
            if nm not in ("uint64", "int64", "uint32", "int32", "uint16", "int16", "uint8", "int8"):
                T.fail(e, "np.dtype(%r)" % nm)
            return "D_%s" % nm, NPDT
        if fn in ("max", "min") and len(e.args) == 1:
            d, dty = T.ex(e.args[0], env, h, cx_)
            if dty != PYDATA:
                T.fail(e, "%s of %r" % (fn, dty))
            return sem.hoist(e, h, cx_, "py_%s_ints (pd_elems %s)" % (fn, d)), Z
        if fn == "tobytes__" and len(e.args) == 1:
            return "(pa_raw %s)" % arr(e.args[0], env, h, cx_), BYTES
        if fn == "encode_strings__" and len(e.args) == 1:
            return sem.hoist(e, h, cx_, "py_encode_strings (pa_elems %s)" % arr(e.args[0], env, h, cx_)), LIST(BYTES)
        if fn == "Uint32" and len(e.args) == 1:
            return None
        if fn == "elems__" and len(e.args) == 1:
            return "(pa_elems %s)" % arr(e.args[0], env, h, cx_), LIST(PYVAL)
        if fn == "join_value_bytes__" and len(e.args) == 1:
            l, lty = T.ex(e.args[0], env, h, cx_)
            if lty != LIST(PYVAL):
                T.fail(e, "value bytes of %r" % (lty,))
            v = sem.hoist(e, h, cx_, "mapM (fun val => do t__ <- to_tdms_value_gen val; Ok (tval_bytes t__)) %s" % l)
            return "(concat %s)" % v, BYTES
        if fn == "ordered_dict_of_values__" and len(e.args) == 1:
            d, dty = T.ex(e.args[0], env, h, cx_)
            if dty != ADICT(PYVAL):
                T.fail(e, "properties of type %r" % (dty,))
            v = sem.hoist(e, h, cx_, "mapM (fun kv => do t__ <- to_tdms_value_gen (snd kv); Ok (fst kv, t__)) %s" % d)
            return "(dict_of_pairs %s)" % v, ADICT(TVAL)
        if fn == "OrderedDict" and not e.args:
            return "[]", ADICT(TVAL)
        return None

    def subscripts(e, env, h, cx_):
        txt = unp(e)
        if txt.startswith("numpy_data_types[") and txt.endswith(".dtype]") and isinstance(e.slice, ast.Attribute):
            a = arr(e.slice.value, env, h, cx_)
            return sem.hoist(e, h, cx_, "need EKey (option_map CTdms (pa_lookup %s))" % a), WCLS
        if isinstance(e.slice, ast.Constant) and type(e.slice.value) is int and e.slice.value == 0:
            try:
                a, aty = T.ex(e.value, env, None, cx_)
            except T.Unsupported:
                return None
            if aty == PARRAY:
                return sem.hoist(e, h, cx_, "py_index (pa_elems %s) 0" % a), PYVAL
        return None
    old_sub = sem.subscript

    def subscript(e, env, h, cx_):
        r = subscripts(e, env, h, cx_)
        return r if r is not None else old_sub(e, env, h, cx_)
    sem.subscript = subscript

    def compare(e, env, h, cx_):
        if len(e.ops) != 1:
            return None
        op, right = e.ops[0], e.comparators[0]
        if unp(e) == "data.dtype.names[0] == b'seconds'":
            return "(pa_seconds_first %s)" % arr(ast.Name(id="data", ctx=ast.Load()), env, h, cx_), B
        if isinstance(op, ast.Eq) and unp(right) == "b'U'" and isinstance(e.left, ast.Attribute) and e.left.attr == "kind" \
                and isinstance(e.left.value, ast.Attribute) and e.left.value.attr == "dtype":
            return "(pa_kind_u %s)" % arr(e.left.value.value, env, h, cx_), B
        if isinstance(op, ast.Eq) and unp(right) == "np.dtype(b'O')" and isinstance(e.left, ast.Attribute) and e.left.attr == "dtype":
            return "(pa_object %s)" % arr(e.left.value, env, h, cx_), B
        if isinstance(op, (ast.Eq, ast.NotEq, ast.Is, ast.IsNot)):
            if isinstance(op, (ast.Is, ast.IsNot)) and isinstance(right, ast.Constant) and right.value is None:
                return None
            try:
                a, aty = T.ex(e.left, env, None, cx_)
                b, bty = T.ex(right, env, None, cx_)
            except T.Unsupported:
                return None
            if aty == WCLS and bty == WCLS:
                c = "(wcls_eqb %s %s)" % (a, b)
                return ("(negb %s)" % c if isinstance(op, (ast.NotEq, ast.IsNot)) else c), B
        return None

    def truth_of_pydata(e, env, h, cx_):
        return None

    def term2(stmts):
        if stmts and isinstance(stmts[-1], ast.Try):
            t = stmts[-1]
            return term2(t.body) and all(term2(hd.body) for hd in t.handlers) and not t.orelse and not t.finalbody
        return T.terminates(stmts)

    def statements(s, rest, env, K, sc, cx_):
        # try: <body ending in return>  except (AttributeError, KeyError): <handler ending in return>
        if isinstance(s, ast.Try) and len(s.handlers) == 1 and not s.orelse and not s.finalbody and isinstance(s.handlers[0].type, ast.Tuple) \
                and [unp(x) for x in s.handlers[0].type.elts] == ["AttributeError", "KeyError"] and s.handlers[0].name is None \
                and term2(s.body) and term2(s.handlers[0].body) and not rest:
            return "py_catch2 EOther EKey\n%s\n%s" % (T.ind("(" + T.block(s.body, env, K, sc, cx_) + ")"),
                                                    T.ind("(" + T.block(s.handlers[0].body, env, K, sc, cx_) + ")"))
        return None

    sem.extra_calls.append(calls)
    sem.extra_compare.append(compare)
    sem.extra_statements.append(statements)
    old_static = sem.static_cond

    def static_cond(test, env, cx_):
        # isinstance tests on pyval-typed values are dynamic (np_sem decides isinstance(.., np.datetime64) statically
        # for its own typed operands)
        for n in ast.walk(test):
            if isinstance(n, ast.Call) and unp(n.func) == "isinstance":
                return None
        return old_static(test, env, cx_)
    sem.static_cond = static_cond
    old_truthy = T.truthy

    def truthy2(term, ty, node, depth=0):
        if ty == PYDATA:            # `if data and ..`: a non-empty list
            return "(match pd_elems %s with [] => false | _ :: _ => true end)" % term
        return old_truthy(term, ty, node, depth)
    T.truthy = truthy2

    class Bytes(ast.NodeTransformer):
        """str constants -> UTF-8 bytes (outside raise statements)"""

        def visit_Raise(self, n):
            return n

        def visit_Constant(self, n):
            if type(n.value) is str:
                return ast.copy_location(ast.Constant(value=n.value.encode("utf-8")), n)
            return n

    def prep(stmts):
        out = [Bytes().visit(s) for s in _copy.deepcopy([x for x in stmts if not T.is_skip(x)])]
        ast.fix_missing_locations(ast.Module(body=out, type_ignores=[]))
        return out

    def replace(stmts, table, where):
        """exact-text statement replacement, each entry used exactly once"""
        used = {k: 0 for k in table}

        def go(ss):
            out = []
            for s in ss:
                txt = unp(s)
                if txt in table:
                    used[txt] += 1
                    new = ast.parse(table[txt]).body if table[txt] else []
                    for x in new:
                        for y in ast.walk(x):
                            ast.copy_location(y, s)
                    out.extend(new)
                    continue
                for fld in ("body", "orelse"):
                    if isinstance(getattr(s, fld, None), list):
                        setattr(s, fld, go(getattr(s, fld)))
                if isinstance(s, ast.Try):
                    for hd in s.handlers:
                        hd.body = go(hd.body)
                out.append(s)
            return out
        out = go(stmts)
        for k, n in used.items():
            if n != 1:
                die("%s: expected exactly one statement `%s`, found %d" % (where, k, n))
        ast.fix_missing_locations(ast.Module(body=out, type_ignores=[]))
        return out

    try:
        # ---- _to_tdms_value(value)
        f = D.find(tree_w, "_to_tdms_value")
        D.expect_args(f, ["value"])
        body = prep(f.body)
        n_ret = 0
        for s in body:
            for n in ast.walk(s):
                if isinstance(n, ast.Return) and isinstance(n.value, ast.Name) and n.value.id == "value":
                    n.value = M.call("as_value_object__", M.name("value"))
                    n_ret += 1
        ast.fix_missing_locations(ast.Module(body=body, type_ignores=[]))
        rty = fun("to_tdms_value_gen", body, [("value", PYVAL)], {"value": ("value", PYVAL)}, [],
                  comment_of("writer.py", None, f))
        if rty != TVAL:
            die("_to_tdms_value returns %r" % (rty,))
        cx.callees["_to_tdms_value"] = ("to_tdms_value_gen", [PYVAL], TVAL, [])

        # ---- read_properties_dict(properties_dict)
        f = D.find(tree_w, "read_properties_dict")
        D.expect_args(f, ["properties_dict"])
        body = replace(prep(f.body), {
            "return OrderedDict(((key, _to_tdms_value(val)) for key, val in properties_dict.items()))":
                "return ordered_dict_of_values__(properties_dict)",
            "return {}": "return OrderedDict()"}, "read_properties_dict")
        rty = fun("read_properties_dict_gen", body, [("properties_dict", OPT(ADICT(PYVAL)))],
                  {"properties_dict": ("properties_dict", OPT(ADICT(PYVAL)))}, [], comment_of("writer.py", None, f))
        if rty != ADICT(TVAL):
            die("read_properties_dict returns %r" % (rty,))

        # ---- _infer_dtype(data)
        f = D.find(tree_w, "_infer_dtype")
        D.expect_args(f, ["data"])
        body = prep(f.body)
        ok = (len(body) == 2 and isinstance(body[0], ast.If) and not body[0].orelse and unp(body[1]) == "return None"
              and unp(body[0].test) == "data and all((isinstance(value, int) for value in data))"
              and [unp(s) for s in body[0].body[:2]] == ["max_value = max(data)", "min_value = min(data)"] and len(body[0].body) == 3
              and isinstance(body[0].body[2], ast.If))
        if not ok:
            die("_infer_dtype: expected `if data and all(isinstance(value, int) for value in data):` [max, min, the chain] `return None`")
        body[0].test = ast.parse("data and all((isinstance(value, int) for value in elems_of__(data)))", mode="eval").body
        ast.fix_missing_locations(ast.Module(body=body, type_ignores=[]))

        def calls2(e, env, h, cx_):
            if unp(e.func) == "elems_of__" and len(e.args) == 1:
                d, dty = T.ex(e.args[0], env, h, cx_)
                if dty != PYDATA:
                    T.fail(e, "elements of %r" % (dty,))
                return "(pd_elems %s)" % d, LIST(PYVAL)
            return None
        sem.extra_calls.append(calls2)
        rty = fun("infer_dtype_gen", body, [("data", PYDATA)], {"data": ("data", PYDATA)}, [], comment_of("writer.py", None, f))
        if rty != OPT(NPDT):
            die("_infer_dtype returns %r" % (rty,))
        cx.callees["_infer_dtype"] = ("infer_dtype_gen", [PYDATA], OPT(NPDT), [])

        # ---- _to_np_array(data)
        f = D.find(tree_w, "_to_np_array")
        D.expect_args(f, ["data"])
        body = prep(f.body)
        if not (len(body) == 3 and isinstance(body[0], ast.If) and unp(body[0].test) == "isinstance(data, np.ndarray)" and not body[0].orelse):
            die("_to_np_array: expected `if isinstance(data, np.ndarray):` .. then the list branch")
        # inside the ndarray branch `data` is the array
        inner = replace(body[0].body, {
            "reordered = np.empty(data.shape, dtype=[(b'second_fractions', b'<u8'), (b'seconds', b'<i8')])": "",
            "reordered[b'second_fractions'] = data[b'second_fractions']": "",
            "reordered[b'seconds'] = data[b'seconds']": "",
            "data = TimestampArray(reordered)": "data = ts_reorder__(data)"}, "_to_np_array")
        pre = ast.parse("data = as_ndarray__(data)").body
        body[0].body = pre + inner
        ast.fix_missing_locations(ast.Module(body=body, type_ignores=[]))
        rty = fun("to_np_array_gen", body, [("data", PYDATA)], {"data": ("data", PYDATA)}, [], comment_of("writer.py", None, f))
        if rty != PARRAY:
            die("_to_np_array returns %r" % (rty,))
        cx.callees["_to_np_array"] = ("to_np_array_gen", [PYDATA], PARRAY, [])

        # ---- ChannelObject.__init__(self, group, channel, data, properties=None)
        f = D.find(tree_w, "__init__", "ChannelObject")
        D.expect_args(f, ["self", "group", "channel", "data", "properties"], defaults=["None"])
        params = [("group", BYTES), ("channel", BYTES), ("data", PYDATA), ("properties", OPT(ADICT(PYVAL)))]
        rty = fun("channel_object_init_gen", prep(f.body), params, {n: (n, t) for n, t in params},
                  ["self.group", "self.channel", "self.data", "self.properties"], comment_of("writer.py", "ChannelObject", f))
        if rty != TUP(BYTES, BYTES, PARRAY, OPT(ADICT(PYVAL))):
            die("ChannelObject.__init__ leaves %r" % (rty,))

        # ---- ChannelObject.data_type
        f = D.find(tree_w, "data_type", "ChannelObject", decorators=("property",))
        D.expect_args(f, ["self"])
        rty = fun("channel_data_type_gen", prep(f.body), [("self_data", PARRAY)], {"self.data": ("self_data", PARRAY)}, [],
                  comment_of("writer.py", "ChannelObject", f))
        if rty != WCLS:
            die("ChannelObject.data_type returns %r" % (rty,))
        D.expect_body(D.find(tree_w, "data_type", "TdmsObject", decorators=("property",)), ["return None"], "TdmsObject.data_type")
        for c_ in ("RootObject", "GroupObject"):
            if any(isinstance(n, ast.FunctionDef) and n.name in ("data_type", "__getattr__") for n in D.klass(tree_w, c_).body) or \
                    any(isinstance(n, ast.Assign) and "self.data" in unp(n) for n in ast.walk(D.klass(tree_w, c_))):
                die("%s defines data_type / data" % c_)

        # the property as an attribute of an object that may have data: obj.data_type
        def data_type_of(e, env, h, cx_):
            # <x>.data_type where <x>.data is the array
            return None

        # ---- _has_raw_data(obj): obj is described by its `data` attribute (None: RootObject / GroupObject have none)
        f = D.find(tree_w, "_has_raw_data")
        D.expect_args(f, ["obj"])
        body = prep(f.body)
        if [unp(s) for s in body] != ["return hasattr(obj, b'data') and obj.data_type is not Void"]:
            die("_has_raw_data is no longer `return hasattr(obj, 'data') and obj.data_type is not Void`")
        stmts = ast.parse("if not hasattr(obj_data, b'data'):\n    return False\n"
                          "data_type__v = channel_data_type__(obj_data)\nreturn data_type__v is not Void").body
        ast.fix_missing_locations(ast.Module(body=stmts, type_ignores=[]))

        def calls3(e, env, h, cx_):
            if unp(e.func) == "channel_data_type__" and len(e.args) == 1:
                t, ty = T.ex(e.args[0], env, h, cx_)
                t, ty = T.need(t, ty, "array", "EOther", h, e)
                if ty != PARRAY:
                    T.fail(e, "data_type of %r" % (ty,))
                return sem.hoist(e, h, cx_, "channel_data_type_gen %s" % t), WCLS
            return None
        sem.extra_calls.append(calls3)
        rty = fun("has_raw_data_gen", stmts, [("obj_data", OPT(PARRAY))], {"obj_data": ("obj_data", OPT(PARRAY))}, [],
                  comment_of("writer.py", None, f, note=": `obj_data` is obj.data (None: the object has no such attribute); A and B with a B that may\n"
                             "     raise is written `if not A: return False; return B`"))
        if rty != B:
            die("_has_raw_data returns %r" % (rty,))
        cx.callees["_has_raw_data"] = ("has_raw_data_gen", [OPT(PARRAY)], B, [])

        # ---- write_values / write_string_values / to_file / write_data / TdmsSegment._write_data: file.write(x) = yield x
        f = D.find(tree_w, "write_values")
        D.expect_args(f, ["file", "array"])
        D.expect_body(f, ["file.write(b''.join((_to_tdms_value(val).bytes for val in array)))"], "write_values")
        stmts = ast.parse("yield join_value_bytes__(elems__(array))").body
        ast.fix_missing_locations(ast.Module(body=stmts, type_ignores=[]))
        Y0 = {"<yield>": ("[]", LIST(None))}
        rty = fun("write_values_gen", stmts, [("array", PARRAY)], dict(Y0, array=("array", PARRAY)), ["<yield>"],
                  comment_of("writer.py", None, f))
        cx.callees["write_values__"] = ("write_values_gen", [PARRAY], LIST(BYTES), [])

        f = D.find(tree_w, "write_string_values")
        D.expect_args(f, ["file", "strings"])
        body = prep(f.body)
        if unp(body[0]) != "try:\n    encoded_strings = [s.encode(b'utf-8') for s in strings]\nexcept AttributeError:\n    encoded_strings = strings":
            die("write_string_values: the try / except AttributeError around the encoding")
        body = ast.parse("encoded_strings = encode_strings__(strings)").body + body[1:]

        class Writes(ast.NodeTransformer):
            def visit_Expr(self, n):
                if isinstance(n.value, ast.Call) and unp(n.value.func) == "file.write" and len(n.value.args) == 1 and not n.value.keywords:
                    a = n.value.args[0]
                    if unp(a) == "Uint32(offset).bytes":
                        a = M.call("uint32_bytes__", M.name("offset"))
                    return ast.copy_location(ast.Expr(value=ast.Yield(value=a)), n)
                return self.generic_visit(n)
        body = [Writes().visit(s) for s in body]
        ast.fix_missing_locations(ast.Module(body=body, type_ignores=[]))

        def calls4(e, env, h, cx_):
            if unp(e.func) == "uint32_bytes__" and len(e.args) == 1:
                return sem.hoist(e, h, cx_, "uint32_bytes %s" % T.as_int(e.args[0], env, h, cx_)), BYTES
            return None
        sem.extra_calls.append(calls4)
        rty = fun("write_string_values_gen", body, [("strings", PARRAY)], dict(Y0, strings=("strings", PARRAY)), ["<yield>"],
                  comment_of("writer.py", None, f))
        cx.callees["write_string_values__"] = ("write_string_values_gen", [PARRAY], LIST(BYTES), [])

        f = D.find(tree_w, "to_file")
        D.expect_args(f, ["file", "array"])
        D.expect_body(f, ["try:\n    array.tofile(file)\nexcept (TypeError, IOError, UnsupportedOperation):\n    file.write(array.tobytes())"], "to_file")
        stmts = ast.parse("yield tobytes__(array)").body
        ast.fix_missing_locations(ast.Module(body=stmts, type_ignores=[]))
        fun("to_file_gen", stmts, [("array", PARRAY)], dict(Y0, array=("array", PARRAY)), ["<yield>"],
            comment_of("writer.py", None, f, note=": both routes put the array's memory into the file"))
        cx.callees["to_file__"] = ("to_file_gen", [PARRAY], LIST(BYTES), [])

        f = D.find(tree_w, "write_data")
        D.expect_args(f, ["file", "tdms_object"])
        body = prep(f.body)
        if len(body) != 1 or not isinstance(body[0], ast.If):
            die("write_data: one if / elif / else expected")
        tail = body[0].orelse[0].orelse if body[0].orelse and isinstance(body[0].orelse[0], ast.If) else None
        if tail is None or [unp(s) for s in tail] != ["try:\n    to_file(file, tdms_object.data)\nexcept AttributeError:\n    write_values(file, tdms_object.data)"]:
            die("write_data: the else branch is no longer try: to_file(..) except AttributeError: write_values(..)")
        body[0].orelse[0].orelse = ast.parse("to_file(file, tdms_object.data)").body      # an ndarray always has tofile

        class Obj(ast.NodeTransformer):
            def visit_Attribute(self, n):
                if unp(n) == "tdms_object.data_type":
                    return ast.copy_location(M.name("data_type__v"), n)
                if unp(n) == "tdms_object.data":
                    return ast.copy_location(M.name("tdms_object_data"), n)
                return self.generic_visit(n)

            def visit_Expr(self, n):
                n = self.generic_visit(n)
                if isinstance(n.value, ast.Call) and unp(n.value.func) in ("write_values", "write_string_values", "to_file") \
                        and len(n.value.args) == 2 and unp(n.value.args[0]) == "file" and not n.value.keywords:
                    new = ast.parse("for chunk__v in %s__(X):\n    yield chunk__v" % unp(n.value.func)).body[0]
                    new.iter.args = [n.value.args[1]]
                    return ast.copy_location(new, n)
                return n
        body = ast.parse("data_type__v = channel_data_type__(tdms_object_data)").body + [Obj().visit(s) for s in body]
        ast.fix_missing_locations(ast.Module(body=body, type_ignores=[]))
        for s in body:
            for n in ast.walk(s):
                if isinstance(n, ast.Name) and n.id in ("file", "tdms_object"):
                    die("write_data: unrecognised use of %s" % n.id)
        rty = fun("write_data_gen", body, [("tdms_object_data", PARRAY)], dict(Y0, tdms_object_data=("tdms_object_data", PARRAY)), ["<yield>"],
                  comment_of("writer.py", None, f, note=": `tdms_object_data` is tdms_object.data; tdms_object.data_type is evaluated once, first"))
        cx.callees["write_data__"] = ("write_data_gen", [PARRAY], LIST(BYTES), [])

        f = D.find(tree_w, "_write_data", "TdmsSegment")
        D.expect_args(f, ["self", "file"])
        D.expect_body(f, ["for obj in self.objects:\n    if _has_raw_data(obj):\n        write_data(file, obj)"], "TdmsSegment._write_data")
        stmts = ast.parse("for obj_data in self.objects:\n    if _has_raw_data(obj_data):\n"
                          "        for chunk__v in write_data__(obj_data):\n            yield chunk__v").body
        ast.fix_missing_locations(ast.Module(body=stmts, type_ignores=[]))
        rty = fun("segment_write_data_gen", stmts, [("self_objects", LIST(OPT(PARRAY)))],
                  dict(Y0, **{"self.objects": ("self_objects", LIST(OPT(PARRAY)))}), ["<yield>"],
                  comment_of("writer.py", "TdmsSegment", f, note=": each object is given by its `data` attribute (None: it has none)"))
    finally:
        T.truthy = old_truthy
    return cx, sigs, consts


def header():
    return ("(* GENERATED by harness/gen/gen_pyfuncs_wval.py from nptdms/{writer,types,timestamp}.py -- do not edit.\n"
            "   Shallow monadic translation of the writer's value dispatch; see the script for the semantic domain. *)\n"
            "From Coq Require Import String.\n"
            "From Coq Require Import ZArith List Bool.\n"
            "From Coq Require Import Init.Byte.\n"
            "Import ListNotations.\n"
            "From NpTdms Require Import Base.Bytes Base.Res Base.PySlice Model.Tokens Model.SegState Model.Writer Gen.PyFuncsWriter.\n"
            "Local Open Scope Z_scope.\n\n")


def main():
    try:
        cx, sigs, consts = translate()
    except T.Unsupported as e:
        die(str(e))
    import wval_selftest as S
    st_text, counts = S.selftest(REPO, die)
    text = header() + "(* REFLECTED: enum values of the classes (the @tds_data_type decorators of nptdms/types.py; TdmsTimestamp.enum_value) *)\n" \
        + consts + "\n" + PRELUDE + "\n" + "\n\n".join(cx.defs) + "\n\n" + st_text
    D.write_if_changed(OUT, text)
    print("%s: %d functions translated; self-test cases: %s"
          % (ME, len(sigs), ", ".join("%s %d" % kv for kv in counts.items())))


if __name__ == "__main__":
    main()
