#!/venv/bin/python
"""Fail-closed translator: the CHUNK LOOP of a DAQmx segment
-> coq/theories/Gen/PyFuncsDaqmxLoop.v (definition + self-test `Example`s)

Translated with Python `ast` on top of the DAQmx chunk-reader driver (its Driver object is built IN THIS PROCESS by
calling that driver's translate(); nothing of harness/gen is modified; definitions the other drivers emit are NOT re-emitted,
the generated file imports them):

  nptdms/base_segment.py  BaseDataReader.read_data_chunks AS INHERITED BY nptdms/daqmx.py DaqmxDataReader:
                          `for chunk in range(num_chunks): yield self._read_data_chunk(file, data_objects, chunk)` with
                          self._read_data_chunk = DaqmxDataReader._read_data_chunk (the translated daqmx_read_data_chunk_gen)

Conventions (in addition to those of the decode / DAQmx chunk-reader drivers).
 * That DaqmxDataReader does not override read_data_chunks, defines _read_data_chunk itself and has BaseDataReader as
   its only base is checked twice: on the AST (class body) and by REFLECTION on the imported classes
   (`DaqmxDataReader.read_data_chunks is BaseDataReader.read_data_chunks`).
 * The reader object is the triple of attributes BaseDataReader.__init__ stores (num_chunks,
   final_chunk_lengths_override, endianness).  The DAQmx chunk reader never looks at the first two: the final chunk of a
   truncated segment is read with the same buffer dimensions and is cut short by the end of the file (whole rows only,
   read_interleaved_segment_bytes); the override only enters the value COUNTS (get_daqmx_final_chunk_lengths).
 * The generator is read to its end: the result is the list of yielded chunks and the file after the last one.  This is
   what every consumer in nptdms observes that runs the loop to exhaustion without touching the file between two
   chunks (TdmsSegment._read_data_chunks -> read_raw_data re-seeks to the position after each chunk before resuming).

Self-test: `Example`s with the results of the REAL DaqmxDataReader.read_data_chunks (a) on hand-built segment objects and
byte strings of every length around the chunk boundaries, (b) on the segments of real DAQmx FILES (harness/daqmxgen.py +
tdmsgen.py, metadata read by the real TdmsReader, the reader object obtained from the real TdmsSegment._get_data_reader):
values, dictionary order and file positions.

Anything unrecognised: message on stderr, exit 1, nothing written.
"""
import ast
import os
import sys

HERE = os.path.dirname(os.path.abspath(__file__))
sys.path.insert(0, HERE)
import py2gallina as T                                                      # noqa: E402
from py2gallina import Z, B, NONE, BYTES, OPT, LIST, TUP, REC               # noqa: E402
import decode_sem as S                                                      # noqa: E402
from decode_sem import SOBJ, ENDIAN, FILE                                   # noqa: E402
import gen_pyfuncs_decode as GD                                             # noqa: E402
import gen_pyfuncs_daqmxread as GQ                                          # noqa: E402

VERIF = os.path.dirname(os.path.dirname(HERE))
REPO = os.environ.get("NPTDMS_REPO", "/repo")
OUT = os.path.join(VERIF, "coq", "theories", "Gen", "PyFuncsDaqmxLoop.v")      # Gen/PyFuncsDaqmxLoop.v
ME = "gen_pyfuncs_daqmxloop"


def die(msg):
    sys.stderr.write("%s: UNSUPPORTED / unrecognised source, nothing written: %s\n" % (ME, msg))
    sys.exit(1)


def reader_attrs():
    return {"self.num_chunks": ("self_num_chunks", Z),
            "self.final_chunk_lengths_override": ("self_final_chunk_lengths_override", OPT(T.DICT)),
            "self.endianness": ("self_endianness", ENDIAN)}


def translate_daqmx_loop(d):
    """BaseDataReader.read_data_chunks with self bound to a DaqmxDataReader; d: the driver after GQ.translate()"""
    # REFLECTION: method resolution on the imported classes
    from nptdms import daqmx as DQ_, base_segment as BS_
    if DQ_.DaqmxDataReader.read_data_chunks is not BS_.BaseDataReader.read_data_chunks \
            or "_read_data_chunk" not in DQ_.DaqmxDataReader.__dict__ \
            or DQ_.DaqmxDataReader.__mro__ != (DQ_.DaqmxDataReader, BS_.BaseDataReader, object):
        die("DaqmxDataReader no longer inherits read_data_chunks from BaseDataReader (or overrides more than _read_data_chunk)")
    ent = d.methods.get(("<daqmx>", "_read_data_chunk"))
    if ent is None:
        die("DaqmxDataReader._read_data_chunk has not been translated")
    d.cx.n_loop = 0
    d.methods[("<self>", "_read_data_chunk")] = dict(ent)
    S.set_self_args("_read_data_chunk", list(ent["self_args"]))
    try:
        d.fun("base_segment.py", "read_data_chunks", "BaseDataReader", "daqmx_read_data_chunks_gen", [FILE, LIST(SOBJ), Z],
              recv=reader_attrs(), outputs=["<yield>", "file"], extra_env={"<yield>": ("[]", LIST(None))},
              key=("<daqmx>", "read_data_chunks"),
              note="     (as inherited by DaqmxDataReader: self._read_data_chunk is DaqmxDataReader._read_data_chunk;\n"
                   "      the generator is read to its end: the list of yielded chunks and the file after them)\n")
    finally:
        del d.methods[("<self>", "_read_data_chunk")]


def translate():
    GQ.die = die
    GQ.ME = ME
    d, _ = GQ.translate()
    GD.die = die
    GD.ME = ME
    n0 = len(d.cx.defs)
    translate_daqmx_loop(d)
    return d, n0


def header():
    return ("(* GENERATED by harness/gen/gen_pyfuncs_daqmxloop.py from nptdms/base_segment.py (BaseDataReader.read_data_chunks as\n"
            "   inherited by nptdms/daqmx.py DaqmxDataReader) -- do not edit.  See the script for the conventions. *)\n"
            "From Coq Require Import String Ascii.\n"
            "From Coq Require Import ZArith List Bool.\n"
            "From Coq Require Import Init.Byte.\n"
            "Import ListNotations.\n"
            "From NpTdms Require Import Base.Bytes Base.Res Base.PySlice Model.Tokens Model.SegState Model.Layout Model.Reader Gen.TypeTable\n"
            "     Gen.PyFuncsReader Gen.PyFuncsDecode Gen.PyFuncsDaqmxRead.\n"
            "Local Open Scope Z_scope.\n")


def main():
    try:
        d, n0 = translate()
    except T.Unsupported as e:
        die(str(e))
    text = header() + "\n" + "\n\n".join(d.cx.defs[n0:]) + "\n"
    if "--stdout" in sys.argv:
        sys.stdout.write(text)
        return
    import daqmxloop_selftest as ST
    st_text, counts = ST.selftest(REPO, die)
    GD.write_if_changed(OUT, text + "\n" + st_text)
    print("%s: %d definitions; self-test cases: %s" % (ME, len(d.cx.defs) - n0, ", ".join("%s %d" % kv for kv in counts.items())))


if __name__ == "__main__":
    main()
