#!/usr/bin/env python3
"""Fail-closed translator: nptdms/thermocouples.py -> coq/theories/Gen/Thermo*.v

Reads the source with Python `ast` only (nptdms is never imported).  Recognised:
  * the eight module-level literals
        type_x = Thermocouple(forward_polynomials=[Polynomial(applicable_range=Range(a, b),
                 coefficients=[...]), ...], inverse_polynomials=[...], exponential_term=[a0, a1, a2])
    where every number is a float/int constant, optionally negated, or None (range ends);
  * Range.within_range: the three `return` shapes (start is None / end is None / both), each a
    comparison (or `&` of two comparisons) between `value`, `self.start`, `self.end`;
  * the condition of the exponential term in Thermocouple.celsius_to_mv
        np.piecewise(temperature, [temperature <op> <const>], [lambda ..., 0.0]).
Anything else -> exit 1 (the build is then treated as a broken proof obligation).

Emits (each file written only when its content changes):
  Gen/ThermoTables.v   the comparisons and the tables, every number twice from the same
                       float.hex() text: `h%float` (PrimFloat) and `h%R` (hex real literal)
  Gen/ThermoNist.v     the vendored NIST tables (data/nist_its90.json, data/nist_inverse_spec.json)
  Gen/Thermo_<T>.v     the per-piece `interval` lemmas (thermo_lemmas.py), one file per type
"""
import ast
import json
import os
import sys
from decimal import Decimal
from pathlib import Path

HERE = Path(__file__).resolve().parent
VERIF = HERE.parent.parent
REPO = Path(os.environ.get("NPTDMS_REPO", "/repo"))
GEN = VERIF / "coq" / "theories" / "Gen"
TYPES = ["b", "e", "j", "k", "n", "r", "s", "t"]


class Unrecognised(Exception):
    pass


def fail(node, what):
    raise Unrecognised("thermocouples.py:%s: %s" % (getattr(node, "lineno", "?"), what))


# ---------------------------------------------------------------------------
# parsing

def number(node, allow_none=False):
    """float constant, optionally negated (or None) -> python float / None"""
    if isinstance(node, ast.Constant) and node.value is None and allow_none:
        return None
    neg = False
    if isinstance(node, ast.UnaryOp) and isinstance(node.op, ast.USub):
        neg, node = True, node.operand
    if isinstance(node, ast.Constant) and type(node.value) in (float, int):
        v = float(node.value)
        if v != v or v in (float("inf"), float("-inf")):
            fail(node, "non-finite number")
        return -v if neg else v
    fail(node, "not a number literal: " + ast.dump(node)[:80])


def call_named(node, name, keywords):
    if not (isinstance(node, ast.Call) and isinstance(node.func, ast.Name) and node.func.id == name):
        fail(node, "expected a call of %s" % name)
    if keywords is None:
        if node.keywords:
            fail(node, "%s: unexpected keyword arguments" % name)
        return node.args
    if node.args:
        fail(node, "%s: unexpected positional arguments" % name)
    kw = {}
    for k in node.keywords:
        if k.arg in kw or k.arg not in keywords:
            fail(node, "%s: unexpected keyword %r" % (name, k.arg))
        kw[k.arg] = k.value
    return kw


def number_list(node, minlen):
    if not isinstance(node, ast.List) or len(node.elts) < minlen:
        fail(node, "expected a list literal of at least %d numbers" % minlen)
    return [number(e) for e in node.elts]


def polynomial(node):
    kw = call_named(node, "Polynomial", ("applicable_range", "coefficients"))
    if set(kw) != {"applicable_range", "coefficients"}:
        fail(node, "Polynomial needs applicable_range and coefficients")
    args = call_named(kw["applicable_range"], "Range", None)
    if len(args) != 2:
        fail(node, "Range takes (start, end)")
    start, end = number(args[0], True), number(args[1], True)
    if start is None and end is None:
        fail(node, "Range(None, None)")
    return (start, end, number_list(kw["coefficients"], 1))


def thermocouple(node):
    kw = call_named(node, "Thermocouple", ("forward_polynomials", "inverse_polynomials", "exponential_term"))
    if "forward_polynomials" not in kw or "inverse_polynomials" not in kw:
        fail(node, "Thermocouple needs forward_polynomials and inverse_polynomials")
    res = {}
    for key in ("forward_polynomials", "inverse_polynomials"):
        lst = kw[key]
        if not isinstance(lst, ast.List) or not lst.elts:
            fail(lst, "%s must be a non-empty list literal" % key)
        res[key[:3]] = [polynomial(e) for e in lst.elts]
    res["exp"] = None
    if "exponential_term" in kw and not (isinstance(kw["exponential_term"], ast.Constant)
                                         and kw["exponential_term"].value is None):
        e = number_list(kw["exponential_term"], 3)
        if len(e) != 3:
            fail(kw["exponential_term"], "exponential_term must have three numbers")
        res["exp"] = e
    return res


OPS = {ast.Lt: "lt", ast.LtE: "le", ast.Gt: "gt", ast.GtE: "ge"}


def operand(node, names):
    if isinstance(node, ast.Name) and node.id in names:
        return node.id
    if (isinstance(node, ast.Attribute) and isinstance(node.value, ast.Name) and node.value.id == "self"
            and "self." + node.attr in names):
        return "self." + node.attr
    fail(node, "unexpected comparison operand " + ast.dump(node)[:60])


def comparison(node, names, const_ok=False):
    """-> (left, op, right) with operands from `names` (or a numeric constant)"""
    if not (isinstance(node, ast.Compare) and len(node.ops) == 1 and type(node.ops[0]) in OPS):
        fail(node, "expected a single <, <=, >, >= comparison")

    def side(n):
        if const_ok and not isinstance(n, (ast.Name, ast.Attribute)):
            return ("const", number(n))
        return operand(n, names)
    return (side(node.left), OPS[type(node.ops[0])], side(node.comparators[0]))


def is_none_test(node, attr):
    return (isinstance(node, ast.Compare) and len(node.ops) == 1 and isinstance(node.ops[0], ast.Is)
            and isinstance(node.comparators[0], ast.Constant) and node.comparators[0].value is None
            and isinstance(node.left, ast.Attribute) and isinstance(node.left.value, ast.Name)
            and node.left.value.id == "self" and node.left.attr == attr)


def within_range(fn):
    """Range.within_range -> {'end_only': cmp, 'start_only': cmp, 'both': (cmp, cmp)}"""
    if [a.arg for a in fn.args.args] != ["self", "value"]:
        fail(fn, "within_range(self, value) expected")
    body = [s for s in fn.body if not (isinstance(s, ast.Expr) and isinstance(s.value, ast.Constant))]
    if len(body) != 3:
        fail(fn, "within_range: expected two `if ... is None: return` and a final return")
    names = ("value", "self.start", "self.end")
    out = {}
    for stmt, attr, key in ((body[0], "start", "end_only"), (body[1], "end", "start_only")):
        if not (isinstance(stmt, ast.If) and is_none_test(stmt.test, attr) and not stmt.orelse
                and len(stmt.body) == 1 and isinstance(stmt.body[0], ast.Return)):
            fail(stmt, "within_range: expected `if self.%s is None: return <comparison>`" % attr)
        c = comparison(stmt.body[0].value, names)
        if "self." + attr in (c[0], c[2]):
            fail(stmt, "within_range: comparison uses self.%s which is None here" % attr)
        out[key] = c
    last = body[2]
    if not (isinstance(last, ast.Return) and isinstance(last.value, ast.BinOp)
            and isinstance(last.value.op, ast.BitAnd)):
        fail(last, "within_range: expected `return (<cmp>) & (<cmp>)`")
    out["both"] = (comparison(last.value.left, names), comparison(last.value.right, names))
    return out


def exp_condition(fn):
    """the condition list of the second np.piecewise in celsius_to_mv"""
    found = []
    for node in ast.walk(fn):
        if (isinstance(node, ast.Call) and isinstance(node.func, ast.Attribute) and node.func.attr == "piecewise"
                and len(node.args) == 3 and isinstance(node.args[1], ast.List)
                and isinstance(node.args[2], ast.List)):
            found.append(node)
    if len(found) != 1:
        fail(fn, "celsius_to_mv: expected exactly one np.piecewise with a literal condition list")
    node = found[0]
    if not (isinstance(node.args[0], ast.Name) and node.args[0].id == "temperature" and len(node.args[1].elts) == 1
            and len(node.args[2].elts) == 2 and isinstance(node.args[2].elts[0], ast.Lambda)):
        fail(node, "celsius_to_mv: exponential piecewise has an unexpected shape")
    if number(node.args[2].elts[1]) != 0.0:
        fail(node, "celsius_to_mv: the default of the exponential piecewise is not 0.0")
    return comparison(node.args[1].elts[0], ("temperature",), const_ok=True)


def parse(path):
    tree = ast.parse(path.read_text())
    tables, wr, expc = {}, None, None
    for node in tree.body:
        if isinstance(node, ast.Assign):
            if not (len(node.targets) == 1 and isinstance(node.targets[0], ast.Name)):
                fail(node, "unexpected assignment")
            name = node.targets[0].id
            if not (name.startswith("type_") and name[5:] in TYPES) or name[5:] in tables:
                fail(node, "unexpected module-level assignment %s" % name)
            tables[name[5:]] = thermocouple(node.value)
        elif isinstance(node, ast.ClassDef):
            for f in node.body:
                if isinstance(f, ast.FunctionDef) and node.name == "Range" and f.name == "within_range":
                    wr = within_range(f)
                if isinstance(f, ast.FunctionDef) and node.name == "Thermocouple" and f.name == "celsius_to_mv":
                    expc = exp_condition(f)
    if sorted(tables) != TYPES:
        fail(tree, "expected exactly type_b, type_e, type_j, type_k, type_n, type_r, type_s, type_t")
    if wr is None or expc is None:
        fail(tree, "Range.within_range or Thermocouple.celsius_to_mv not found")
    return {"tables": tables, "within_range": wr, "exp_cond": expc}


# ---------------------------------------------------------------------------
# Coq text

def hx(v):
    """exact hexadecimal text of a binary64, usable with %float and with %R"""
    h = float(v).hex()
    return "(%s)" % h if h.startswith("-") else h


def fl(v):
    return hx(v) + "%float"


def rl(v):
    return hx(v) + "%R"


def opt(v, f):
    return "None" if v is None else "(Some %s)" % f(v)


def cmp_F(c, ren):
    l, op, r = (ren(c[0], fl), c[1], ren(c[2], fl))
    return {"lt": "(%s <? %s)%%float" % (l, r), "le": "(%s <=? %s)%%float" % (l, r),
            "gt": "(%s <? %s)%%float" % (r, l), "ge": "(%s <=? %s)%%float" % (r, l)}[op]


def cmp_R(c, ren):
    l, op, r = (ren(c[0], rl), c[1], ren(c[2], rl))
    return "(%s %s %s)%%R" % (l, {"lt": "<", "le": "<=", "gt": ">", "ge": ">="}[op], r)


def cmp_py(c):
    def s(x):
        return repr(x[1]) if isinstance(x, tuple) else x
    return "%s %s %s" % (s(c[0]), {"lt": "<", "le": "<=", "gt": ">", "ge": ">="}[c[1]], s(c[2]))


def ren(x, lit):
    if isinstance(x, tuple):
        return lit(x[1])
    return {"value": "value", "self.start": "start", "self.end": "end_", "temperature": "temperature"}[x]


def eval_cmp(c, env):
    l, r = (x[1] if isinstance(x, tuple) else env[x] for x in (c[0], c[2]))
    return {"lt": l < r, "le": l <= r, "gt": l > r, "ge": l >= r}[c[1]]


def exp_on(src, k, i):
    """guess (proved in Coq afterwards): the exponential term is on throughout forward piece i"""
    t = src["tables"][k]
    start = t["for"][i][0]
    return t["exp"] is not None and start is not None and eval_cmp(src["exp_cond"], {"temperature": start})


def tables_v(src):
    wr, ec, tabs = src["within_range"], src["exp_cond"], src["tables"]
    L = ["(* GENERATED by harness/gen/gen_thermo.py from nptdms/thermocouples.py -- do not edit. *)",
         "From Coq Require Import PrimFloat Reals List.", "Import ListNotations.", "",
         "(* Range.within_range, translated comparison by comparison:",
         "     start is None:  return %s" % cmp_py(wr["end_only"]),
         "     end is None:    return %s" % cmp_py(wr["start_only"]),
         "     otherwise:      return (%s) & (%s) *)" % (cmp_py(wr["both"][0]), cmp_py(wr["both"][1]))]
    for suffix, ty, res, c, conj in (("F", "float", "bool", cmp_F, "andb %s %s"), ("R", "R", "Prop", cmp_R, "%s /\\ %s")):
        L += ["Definition wr%s_end_only (value end_ : %s) : %s := %s." % (suffix, ty, res, c(wr["end_only"], ren)),
              "Definition wr%s_start_only (start value : %s) : %s := %s." % (suffix, ty, res, c(wr["start_only"], ren)),
              "Definition wr%s_both (start end_ value : %s) : %s := %s."
              % (suffix, ty, res, conj % (c(wr["both"][0], ren), c(wr["both"][1], ren)))]
    L += ["", "(* Thermocouple.celsius_to_mv: the exponential term applies where  %s *)" % cmp_py(ec),
          "Definition exp_condF (temperature : float) : bool := %s." % cmp_F(ec, ren),
          "Definition exp_condR (temperature : R) : Prop := %s." % cmp_R(ec, ren), "",
          "Definition pieceF : Type := (option float * option float * list float)%type.",
          "(* over R the coefficient list c0 :: cs is kept as (c0, cs): it is never empty *)",
          "Definition pieceR : Type := (option R * option R * R * list R)%type.", ""]
    for k in TYPES:
        t = tabs[k]
        for d in ("for", "inv"):
            nm = "fwd" if d == "for" else "inv"
            names = []
            for i, (s, e, cs) in enumerate(t[d]):
                L.append("Definition type_%s_%sF_%d : pieceF := (%s, %s, [%s])."
                         % (k, nm, i, opt(s, fl), opt(e, fl), "; ".join(fl(c) for c in cs)))
                L.append("Definition type_%s_%sR_%d : pieceR := (%s, %s, %s, [%s])."
                         % (k, nm, i, opt(s, rl), opt(e, rl), rl(cs[0]), "; ".join(rl(c) for c in cs[1:])))
                names.append(i)
            for sfx in ("F", "R"):
                L.append("Definition type_%s_%s%s : list piece%s := [%s]."
                         % (k, nm, sfx, sfx, "; ".join("type_%s_%s%s_%d" % (k, nm, sfx, i) for i in names)))
        e = t["exp"]
        L.append("Definition type_%s_expF : option (float * float * float) := %s."
                 % (k, "None" if e is None else "Some (%s, %s, %s)" % tuple(fl(x) for x in e)))
        L.append("Definition type_%s_expR : option (R * R * R) := %s."
                 % (k, "None" if e is None else "Some (%s, %s, %s)" % tuple(rl(x) for x in e)))
        L.append("(* exponential term on throughout the forward piece? (checked: Gen/Thermo_%s.v formulas_valid) *)" % k)
        L.append("Definition type_%s_fwd_expon : list bool := [%s]."
                 % (k, "; ".join("true" if exp_on(src, k, i) else "false" for i in range(len(t["for"])))))
        L.append("")
    L.append("Inductive tctype : Set := %s." % " | ".join("T" + k.upper() for k in TYPES))
    L.append("Definition all_types : list tctype := [%s]." % "; ".join("T" + k.upper() for k in TYPES))
    for nm, ty in (("fwdF", "list pieceF"), ("invF", "list pieceF"), ("expF", "option (float * float * float)"),
                   ("fwdR", "list pieceR"), ("invR", "list pieceR"), ("expR", "option (R * R * R)"),
                   ("fwd_expon", "list bool")):
        L.append("Definition code_%s (T : tctype) : %s := match T with %s end."
                 % (nm, ty, " | ".join("T%s => type_%s_%s" % (k.upper(), k, nm) for k in TYPES)))
    return "\n".join(L) + "\n"


# ---------------------------------------------------------------------------
# vendored NIST data

def load_nist():
    fwd = json.loads((VERIF / "data" / "nist_its90.json").read_text())
    inv = json.loads((VERIF / "data" / "nist_inverse_spec.json").read_text())
    return fwd, inv


def widened(stated):
    """stated error bound (decimal text) widened by one unit of its last stated digit"""
    d = Decimal(stated)
    unit = Decimal(1).scaleb(d.as_tuple().exponent)
    return d - unit if d < 0 else d + unit


def dec_R(d):
    """exact decimal real literal"""
    return "(%s)%%R" % format(Decimal(d), "f")


def nist_v(fwd, inv):
    L = ["(* GENERATED by harness/gen/gen_thermo.py from data/nist_its90.json and data/nist_inverse_spec.json",
         "   (vendored transcription of NIST SRD 60, ITS-90) -- do not edit. *)",
         "From Coq Require Import PrimFloat Reals List.", "Import ListNotations.",
         "From NpTdms Require Import Gen.ThermoTables.", "",
         "(* forward reference functions: (t_min, t_max, coefficients c0..cn) per piece *)"]
    for k in TYPES:
        t = fwd["types"][k.upper()]
        L.append("Definition nist_%s_fwd : list (float * float * list float) := [%s]." % (k, "; ".join(
            "(%s, %s, [%s])" % (fl(float(p["t_min"])), fl(float(p["t_max"])),
                                "; ".join(fl(float(c)) for c in p["coefficients"])) for p in t["pieces"])))
        e = t.get("exponential")
        L.append("Definition nist_%s_exp : option (float * float * float) := %s."
                 % (k, "None" if e is None else "Some (%s, %s, %s)" % tuple(fl(float(x)) for x in e["a"])))
    for k in TYPES:
        t = fwd["types"][k.upper()]
        e = t.get("exponential")
        L.append("Definition nist_%s_expon : list bool := [%s]." % (k, "; ".join(
            "true" if e is not None and e["piece"] == i else "false" for i in range(len(t["pieces"])))))
    L.append("(* pieces to which NIST attaches the exponential term *)")
    L.append("Definition nist_expon (T : tctype) := match T with %s end."
             % " | ".join("T%s => nist_%s_expon" % (k.upper(), k) for k in TYPES))
    L.append("Definition nist_fwd (T : tctype) := match T with %s end."
             % " | ".join("T%s => nist_%s_fwd" % (k.upper(), k) for k in TYPES))
    L.append("Definition nist_exp (T : tctype) := match T with %s end."
             % " | ".join("T%s => nist_%s_exp" % (k.upper(), k) for k in TYPES))
    L += ["", "(* temperature range on which strict monotonicity is claimed (the NIST range; type B from",
          "   its stated lower limit, the reference function has its minimum near 21 degC) *)"]
    for k in TYPES:
        t = fwd["types"][k.upper()]
        L.append("Definition mono_range_%s : R * R := (%s, %s)."
                 % (k, dec_R(t["monotone_from"]), dec_R(t["pieces"][-1]["t_max"])))
    L.append("Definition mono_range (T : tctype) := match T with %s end."
             % " | ".join("T%s => mono_range_%s" % (k.upper(), k) for k in TYPES))
    L += ["", "(* inverse validity ranges: (t_low, t_high, err_low, err_high); the error bounds are the",
          "   NIST-stated ones widened by one unit of their last stated digit *)"]
    for k in TYPES:
        rows = inv["types"][k.upper()]
        L.append("Definition inv_spec_%s : list (R * R * R * R) := [%s]." % (k, "; ".join(
            "(%s, %s, %s, %s)" % (dec_R(r["t_low"]), dec_R(r["t_high"]),
                                  dec_R(widened(r["stated_err_low"])), dec_R(widened(r["stated_err_high"])))
            for r in rows)))
    L.append("Definition inv_spec (T : tctype) := match T with %s end."
             % " | ".join("T%s => inv_spec_%s" % (k.upper(), k) for k in TYPES))
    return "\n".join(L) + "\n"


def write_if_changed(path, text):
    path.parent.mkdir(parents=True, exist_ok=True)
    if not path.exists() or path.read_text() != text:
        path.write_text(text)
        return True
    return False


def main():
    try:
        src = parse(REPO / "nptdms" / "thermocouples.py")
        fwd, inv = load_nist()
        sys.path.insert(0, str(HERE))
        import thermo_lemmas
        files = {"ThermoTables.v": tables_v(src), "ThermoNist.v": nist_v(fwd, inv)}
        files.update(thermo_lemmas.generate(sys.modules[__name__], src, fwd, inv))
    except Unrecognised as e:
        print("gen_thermo: UNRECOGNISED SOURCE SHAPE (fail-closed): %s" % e)
        sys.exit(1)
    changed = [n for n, text in sorted(files.items()) if write_if_changed(GEN / n, text)]
    print("gen_thermo: %d files, changed: %s" % (len(files), ", ".join(changed) or "none"))


if __name__ == "__main__":
    main()
