#!/venv/bin/python
"""Fail-closed translator: nptdms/tdms.py TdmsFile.file_status -> coq/theories/Gen/PyFuncsStatus.v
(+ the self-test coq/theories/Gen/PyFuncsStatusTest.v)

Translated with Python `ast` (py2gallina.py + scale_sem.py for dotted names; nptdms is imported for the self-test
only): the whole property -- the test for "no segments", the LAST segment, segment_incomplete,
final_chunk_lengths_override, which objects get an entry (has_data), expected length = number_values, read length =
the override (0 when the object is not in it) resp. number_values for an incomplete segment whose lengths match,
the dictionary keyed by obj.path (a later object with the same path replaces the entry, position kept).

Representation: self._reader._segments is a list of Model/SegState.v `segment`s (the attribute table of
gen_pyfuncs_reader.py: ordered_objects = sg_objs, segment_incomplete = sg_incomplete,
final_chunk_lengths_override = sg_final; objects: path = so_path, number_values = so_nvals, has_data = so_has_data);
FileStatus(a, b) is the pair (a, b); ChannelSegmentStatus(e, r) is the pair (e, r) (both __init__s are checked to
store their arguments under the documented attribute names).

Anything unrecognised: message on stderr, exit 1, nothing written.
"""
import ast
import os
import sys

HERE = os.path.dirname(os.path.abspath(__file__))
sys.path.insert(0, HERE)
import py2gallina as T                                             # noqa: E402
from py2gallina import Z, B, BYTES, OPT, LIST, TUP, REC, DICT       # noqa: E402
import scale_sem as S                                              # noqa: E402

VERIF = os.path.dirname(os.path.dirname(HERE))
REPO = os.environ.get("NPTDMS_REPO", "/repo")
OUT = os.path.join(VERIF, "coq", "theories", "Gen", "PyFuncsStatus.v")
OUT_TEST = os.path.join(VERIF, "coq", "theories", "Gen", "PyFuncsStatusTest.v")
ME = "gen_pyfuncs_status"

SOBJ, SEGMENT = REC("sobj"), REC("segment")
STATUS = TUP(Z, Z)
ATTR = {
    ("sobj", "number_values"): ("so_nvals", Z, None),
    ("sobj", "has_data"): ("so_has_data", B, None),
    ("sobj", "path"): ("so_path", BYTES, None),
    ("segment", "ordered_objects"): ("sg_objs", LIST(SOBJ), None),
    ("segment", "segment_incomplete"): ("sg_incomplete", B, None),
    ("segment", "final_chunk_lengths_override"): ("sg_final", OPT(DICT), None),
}

PRELUDE = """\
Definition need {A} (e : err) (o : option A) : res A :=
  match o with Some a => Ok a | None => Err e end.
Definition is_none {A} (o : option A) : bool :=
  match o with None => true | Some _ => false end.
(* dict(<pairs>): a later pair with a key already present replaces the value and keeps the position *)
Definition py_dict_of_pairs {V} (l : list (bytes * V)) : alist V :=
  List.fold_left (fun acc kv => aset (fst kv) (snd kv) acc) l [].
"""


def die(msg):
    sys.stderr.write("%s: UNSUPPORTED / unrecognised source, nothing written: %s\n" % (ME, msg))
    sys.exit(1)


def unp(n):
    return ast.unparse(n)


def translate():
    S.install()
    try:
        tree = ast.parse(open(os.path.join(REPO, "nptdms", "tdms.py")).read())
    except (OSError, SyntaxError) as e:
        die("cannot read/parse tdms.py: %s" % e)

    def klass(name):
        cs = [n for n in tree.body if isinstance(n, ast.ClassDef) and n.name == name]
        if len(cs) != 1:
            die("expected exactly one class %s" % name)
        return cs[0]

    def stores(cls, params):
        init = [n for n in klass(cls).body if isinstance(n, ast.FunctionDef) and n.name == "__init__"]
        if len(init) != 1 or [a.arg for a in init[0].args.args] != ["self"] + params:
            die("signature of %s.__init__" % cls)
        body = [unp(s) for s in init[0].body if not T.is_skip(s)]
        if body != ["self.%s = %s" % (p, p) for p in params]:
            die("%s.__init__ no longer stores exactly its arguments %r" % (cls, params))
    stores("FileStatus", ["incomplete_final_segment", "channel_statuses"])
    stores("ChannelSegmentStatus", ["expected_length", "read_length"])
    fs = [n for n in klass("TdmsFile").body if isinstance(n, ast.FunctionDef) and n.name == "file_status"]
    if len(fs) != 1 or [unp(d) for d in fs[0].decorator_list] != ["property"] or [a.arg for a in fs[0].args.args] != ["self"]:
        die("expected exactly one property TdmsFile.file_status")
    f = fs[0]

    cx = T.Cx(dict(ATTR), {}, {}, {})
    cx.kwcalls = False
    sem = S.ScaleSem()
    cx.np = sem

    def calls(e, env, h, cx_):
        fn = unp(e.func)
        if e.keywords:
            return None
        if fn in ("ChannelSegmentStatus", "FileStatus") and len(e.args) == 2:
            a, aty = T.ex(e.args[0], env, h, cx_)
            b, bty = T.ex(e.args[1], env, h, cx_)
            if fn == "ChannelSegmentStatus":
                if aty != Z or bty != Z:
                    T.fail(e, "ChannelSegmentStatus(%r, %r)" % (aty, bty))
                return "(%s, %s)" % (a, b), STATUS
            want = OPT(("adict", STATUS))
            if aty != B or bty not in (want, T.NONE, ("adict", STATUS)):
                T.fail(e, "FileStatus(%r, %r)" % (aty, bty))
            return "(%s, %s)" % (a, T.coerce(b, bty, want)), TUP(B, want)
        if fn == "dict" and len(e.args) == 1 and isinstance(e.args[0], ast.GeneratorExp):
            g = e.args[0]
            it, pat, inner = T.genexp(g, env, h, cx_)
            if not (isinstance(g.elt, ast.Tuple) and len(g.elt.elts) == 2):
                T.fail(e, "dict(generator): the element is not a pair")
            k, kty = T.ex(g.elt.elts[0], inner, None, cx_)
            v, vty = T.ex(g.elt.elts[1], inner, None, cx_)
            if kty != BYTES:
                T.fail(e, "dict(generator): key of type %r" % (kty,))
            return "(py_dict_of_pairs (List.map %s %s))" % (T.lam(pat, "(%s, %s)" % (k, v)), it), ("adict", vty)
        return None
    sem.extra_calls.append(calls)
    env0 = {"self._reader._segments": ("self__reader__segments", LIST(SEGMENT))}
    txt = "\n".join(unp(s) for s in f.body if not T.is_skip(s)).replace("(*", "( *").replace("*)", "* )")
    rty = T.function(cx, "file_status_gen", f.body, [("self__reader__segments", LIST(SEGMENT))], env0, [],
                     "nptdms/tdms.py: TdmsFile.file_status (line %d)\n%s\n" % (f.lineno, "\n".join("     " + l for l in txt.split("\n"))))
    if rty != TUP(B, OPT(("adict", STATUS))):
        die("file_status returns %r" % (rty,))
    return cx


def header():
    return ("(* GENERATED by harness/gen/gen_pyfuncs_status.py from nptdms/tdms.py -- do not edit.\n"
            "   Shallow monadic translation of TdmsFile.file_status; see the script for the conventions. *)\n"
            "From Coq Require Import String.\n"
            "From Coq Require Import ZArith List Bool.\n"
            "Import ListNotations.\n"
            "From NpTdms Require Import Base.Bytes Base.Res Base.PySlice Model.Tokens Model.SegState.\n"
            "Local Open Scope Z_scope.\n\n")


def write_if_changed(path, text):
    old = None
    try:
        old = open(path).read()
    except OSError:
        pass
    if old != text:
        os.makedirs(os.path.dirname(path), exist_ok=True)
        tmp = path + ".tmp.%d" % os.getpid()
        with open(tmp, "w") as fh:
            fh.write(text)
        os.replace(tmp, path)
        print("%s: wrote %s" % (ME, os.path.relpath(path, VERIF)))
    else:
        print("%s: %s up to date" % (ME, os.path.relpath(path, VERIF)))


def selftest():
    """file_status of real TdmsFile objects: hand-encoded files (complete, truncated inside the last segment at
    every byte of its data, a last segment without data, no segment at all), read eagerly and lazily; the segment
    list the translated function receives is read off the real reader's segment objects"""
    sys.path.insert(0, REPO)
    sys.path.insert(0, os.path.join(VERIF, "harness"))
    import io
    import struct
    import numpy as np
    import nptdms
    if os.path.realpath(os.path.dirname(nptdms.__file__)) != os.path.realpath(os.path.join(REPO, "nptdms")):
        die("nptdms imported from %s" % nptdms.__file__)
    import logging
    logging.disable(logging.CRITICAL)
    from nptdms import TdmsFile, TdmsWriter, ChannelObject, GroupObject, RootObject

    def hx(b):
        return '(hex "%s"%%string)' % b.hex()

    def cz(v):
        return "%d" % v if v >= 0 else "(%d)" % v

    def cseg(seg):
        objs = []
        for o in seg.ordered_objects:
            objs.append("(st_obj %s %s %s)" % (hx(o.path.encode("utf-8")), "true" if o.has_data else "false", cz(int(o.number_values))))
        fin = seg.final_chunk_lengths_override
        fin_t = "None" if fin is None else "(Some [%s])" % "; ".join(
            "(%s, %s)" % (hx(p.encode("utf-8")), cz(int(v))) for p, v in fin.items())
        return "(st_seg %s [%s] %s)" % ("true" if seg.segment_incomplete else "false", "; ".join(objs), fin_t)

    def cstatus(st):
        cs = st.channel_statuses
        if cs is None:
            d = "None"
        else:
            d = "(Some [%s])" % "; ".join("(%s, (%s, %s))" % (hx(p.encode("utf-8")), cz(int(s.expected_length)), cz(int(s.read_length)))
                                          for p, s in cs.items())
        return "(%s, %s)" % ("true" if st.incomplete_final_segment else "false", d)
    files = []
    buf = io.BytesIO()
    with TdmsWriter(buf) as w:
        w.write_segment([RootObject({}), GroupObject("g", {}), ChannelObject("g", "a", np.arange(5, dtype="int32")),
                         ChannelObject("g", "b", np.arange(3, dtype="float64"))])
        w.write_segment([ChannelObject("g", "a", np.arange(4, dtype="int32")), ChannelObject("g", "b", np.arange(2, dtype="float64")),
                         ChannelObject("g", "s", ["x", "yz"])])
    whole = buf.getvalue()
    files.append(whole)
    for cut in range(1, 60):
        files.append(whole[:len(whole) - cut])
    buf = io.BytesIO()
    with TdmsWriter(buf) as w:
        w.write_segment([ChannelObject("g", "a", np.arange(6, dtype="int16")), ChannelObject("g", "b", np.arange(6, dtype="int16"))])
        w.write_segment([ChannelObject("g", "a", np.arange(6, dtype="int16")), ChannelObject("g", "b", np.arange(6, dtype="int16"))])
    two = buf.getvalue()
    for cut in range(0, 26):
        files.append(two[:len(two) - cut])
    buf = io.BytesIO()
    with TdmsWriter(buf) as w:
        w.write_segment([RootObject({"p": 1})])
    files.append(buf.getvalue())
    files.append(b"")
    cases = []
    n_obj = 0
    for data in files:
        for opener in (TdmsFile.read, TdmsFile.open):
            try:
                f = opener(io.BytesIO(data))
            except Exception:       # noqa: BLE001
                continue
            segs = "[%s]" % "; ".join(cseg(s) for s in f._reader._segments)
            cases.append("(%s, %s)" % (segs, cstatus(f.file_status)))
            n_obj += 1
            f.close()
    cases = list(dict.fromkeys(cases))
    text = ("(* GENERATED by harness/gen/gen_pyfuncs_status.py -- do not edit.\n"
            "   Self-test of Gen/PyFuncsStatus.v: file_status of real TdmsFile objects. *)\n"
            "From Coq Require Import String.\nFrom Coq Require Import ZArith List Bool.\nImport ListNotations.\n"
            "From NpTdms Require Import Base.Bytes Base.Res Model.Tokens Model.SegState Gen.PyFuncsStatus.\n"
            "Local Open Scope Z_scope.\n\n"
            "Definition st_obj (p : bytes) (has : bool) (n : Z) : sobj := %s.\n"
            "Definition st_seg (inc : bool) (objs : list sobj) (fin : option (alist Z)) : segment :=\n"
            "  mkSeg 0 0 0 0 inc objs [] 0 fin.\n"
            "Fixpoint st_bytes_eqb (a b : bytes) : bool :=\n  match a, b with [] , [] => true | x :: a', y :: b' => (b2z x =? b2z y) && st_bytes_eqb a' b' | _, _ => false end.\n"
            "Fixpoint st_dict_eqb (a b : alist (Z * Z)) : bool :=\n  match a, b with\n  | [], [] => true\n"
            "  | (k, (x, y)) :: a', (k', (x', y')) :: b' => st_bytes_eqb k k' && (x =? x') && (y =? y') && st_dict_eqb a' b'\n  | _, _ => false\n  end.\n"
            "Definition st_status_eqb (r : res (bool * option (alist (Z * Z)))) (e : bool * option (alist (Z * Z))) : bool :=\n"
            "  match r with\n  | Ok (a, d) => Bool.eqb a (fst e) && match d, snd e with Some x, Some y => st_dict_eqb x y | None, None => true | _, _ => false end\n"
            "  | Err _ => false\n  end.\n"
            "Definition st_status_cases : list (list segment * (bool * option (alist (Z * Z)))) :=\n  [%s].\n"
            "Example st_status : forallb (fun c => st_status_eqb (file_status_gen (fst c)) (snd c)) st_status_cases = true.\n"
            "Proof. vm_compute. reflexivity. Qed.\n" % (SOBJ_CTOR, ";\n   ".join(cases)))
    return text, {"objects": n_obj, "distinct": len(cases)}


SOBJ_CTOR = None


def main():
    global SOBJ_CTOR
    try:
        cx = translate()
    except T.Unsupported as e:
        die(str(e))
    # Model/SegState.v sobj: path, has_data, number_values, data_size, data_type, daqmx metadata
    SOBJ_CTOR = "mkSobj p has n 0 None None"
    text = header() + PRELUDE + "\n" + "\n\n".join(cx.defs) + "\n"
    st_text, counts = selftest()
    write_if_changed(OUT, text)
    write_if_changed(OUT_TEST, st_text)
    print("%s: 1 item translated; self-test cases: %s" % (ME, ", ".join("%s %d" % kv for kv in counts.items())))


if __name__ == "__main__":
    main()
