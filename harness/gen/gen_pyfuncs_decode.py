#!/venv/bin/python
"""Fail-closed translator: the DATA DECODING PATH of npTDMS's reader
-> coq/theories/Gen/PyFuncsDecode.v (definitions) and coq/theories/Gen/PyFuncsDecodeTest.v (self-test)

Translated with Python `ast` (harness/gen/py2gallina.py + np_sem.py, extended IN THIS PROCESS by decode_sem.py;
nptdms is imported for the reflected class facts and the self-test):

  nptdms/types.py        StructType.read, StructType.from_bytes, String.read, String.read_values, String._decode,
                         Boolean.read, TimeStamp.read, TimeStamp.from_bytes, ComplexType.from_bytes,
                         TdmsType.read / read_values (raise); the dispatch of `<class>.read / from_bytes /
                         read_values` over types.tds_data_types (method resolution REFLECTED from the classes' MROs)
  nptdms/base_segment.py fromfile, read_interleaved_segment_bytes, data_chunk_to_channel_chunk, the static
                         constructors of RawDataChunk / RawChannelDataChunk, BaseDataReader.read_data_chunks
  nptdms/tdms_segment.py read_property, TdmsSegmentObject.read_values, ContiguousDataReader._read_data_chunk,
                         ContiguousDataReader._read_channel_data_chunk, InterleavedDataReader._read_interleaved_chunks,
                         InterleavedDataReader.read_data_chunks, InterleavedDataReader.read_channel_data_chunks
  nptdms/channel_data.py get_data_receiver, _new_numpy_array, ListDataReceiver / NumpyDataReceiver / DaqmxDataReceiver /
                         TimestampDataReceiver: __init__ and append_data / append_scaler_data

Conventions (decode_prelude.py has the fixed Gallina text of every primitive; each is self-tested against the real one).
 * A file object read sequentially is the byte list from its position to the end; `file.read(n)` returns the
   first n bytes and the rest.  A file object used with tell() / seek() is (content, position).  Every translated
   function that reads returns its value together with the file after it.
 * A TdmsType class is its enum_value; `cls.size`, `cls.struct_declaration`, `cls.nptype`, the enum values of the
   classes named in the source and WHICH class's method a `<class>.method` call runs are REFLECTED from the imported
   classes; the bodies come from the AST.
 * struct formats keep their code characters (`endianness + 'Qq'` is the pair (byte order, "Qq")); the result of a
   format that is literally made of integer codes is a list of ints, any other a list of struct values.
 * A str is its UTF-8 encoding.  bytes.decode('utf-8') / errors='replace' follow CPython's decoder.
 * NumPy arrays are (dtype, raw bytes); view / dtype assignment / reshape / column selection / field access are
   the fixed-text primitives; `fromfile`'s read loop (`while bytes_read != 0: readinto`) is recognised as a whole.
 * Static methods whose body is a single `return <expression>` are inlined at their call sites.
 * Receivers (channel_data.py): an object is the tuple of its attributes (in the order of the generated __init__);
   `obj` (a TdmsChannel) is the model's `channel` record (data_type, path, scaler_data_types); memmap_dir and
   raw_timestamps are their truth values; `np.memmap(<new temporary file>, mode='w+', ..)` is a zero-filled array
   like np.zeros; slice assignment into a preallocated array (`a[lo:hi] = v`, `a['field'][lo:hi] = v`) is the
   fixed-text primitive np_assign_slice / np_assign_field_slice (structured dtypes are assigned field BY POSITION,
   as NumPy does); `x = self.d[k]` followed by `x[a:b] = v` writes back to the dict item (the same array object);
   `new_data.as_datetime64()` is a parameter (the conversion is modelled in Model/Timestamp.v).
 * An empty dict literal takes the value type of the first item stored in it; the empty literals assigned to the
   attributes _data / scaler_data / _scaler_insert_positions have declared types.
 * Arguments of log.* calls are not evaluated.

Self-test: `Example`s with the results of the REAL code on real bytes (decode_selftest.py).

Anything unrecognised: message on stderr, exit 1, nothing written.
"""
import ast
import os
import sys

HERE = os.path.dirname(os.path.abspath(__file__))
sys.path.insert(0, HERE)
import py2gallina as T                                                      # noqa: E402
from py2gallina import Z, B, NONE, BYTES, OPT, LIST, TUP, REC               # noqa: E402
import decode_sem as S                                                      # noqa: E402
from decode_sem import (CLS, SOBJ, NPDT, NPARR, NPARR2, ENDIAN, FILE, PFILE, SVAL, PYVAL, TS, PYSTR, CSTR,   # noqa: E402
                        DYN, RCDC, RDC, unp)
import decode_prelude as P                                                  # noqa: E402

VERIF = os.path.dirname(os.path.dirname(HERE))
REPO = os.environ.get("NPTDMS_REPO", "/repo")
OUT = os.path.join(VERIF, "coq", "theories", "Gen", "PyFuncsDecode.v")
OUT_TEST = os.path.join(VERIF, "coq", "theories", "Gen", "PyFuncsDecodeTest.v")      # Gen/PyFuncsDecodeTest.v
ME = "gen_pyfuncs_decode"


def die(msg):
    sys.stderr.write("%s: UNSUPPORTED / unrecognised source, nothing written: %s\n" % (ME, msg))
    sys.exit(1)


def parse(fn):
    path = os.path.join(REPO, "nptdms", fn)
    try:
        src = open(path).read()
        return ast.parse(src)
    except (OSError, SyntaxError) as e:
        die("cannot read/parse %s: %s" % (path, e))


def find(tree, name, cls=None):
    """-> (FunctionDef, kind) with kind in plain / method / classmethod / staticmethod"""
    body = tree.body
    if cls is not None:
        cs = [n for n in tree.body if isinstance(n, ast.ClassDef) and n.name == cls]
        if len(cs) != 1:
            die("class %s not found" % cls)
        body = cs[0].body
    fs = [n for n in body if isinstance(n, ast.FunctionDef) and n.name == name]
    if len(fs) != 1:
        die("expected exactly one def %s%s" % (cls + "." if cls else "", name))
    f = fs[0]
    decs = [unp(d) for d in f.decorator_list]
    if decs not in ([], ["classmethod"], ["staticmethod"]) or f.args.kwonlyargs or f.args.posonlyargs:
        die("signature / decorators of %s" % name)
    kind = decs[0] if decs else ("method" if cls else "plain")
    return f, kind


def comment_of(fn, f, cls=None, stmts=None):
    stmts = f.body if stmts is None else stmts
    txt = "\n".join(unp(s) for s in stmts if not T.is_skip(s))
    txt = txt.replace("(*", "( *").replace("*)", "* )")
    return "nptdms/%s: %s%s (line %d)\n%s\n" % (fn, cls + "." if cls else "", f.name, f.lineno,
                                                "\n".join("     " + l for l in txt.split("\n")))


class Driver:
    def __init__(self):
        self.load()
        self.trees = {fn: parse(fn) for fn in ("types.py", "base_segment.py", "tdms_segment.py", "channel_data.py",
                                               "timestamp.py")}
        self.sem = S.Sem(self)
        self.cx = T.Cx(dict(ATTR), {}, {}, {})
        self.cx.np = self.sem
        self.cx.str_consts = True
        self.cx.kwcalls = True
        self.cx.checked_div = True
        self.methods = {}           # (defining class name or "" for module functions, name) -> entry
        self.dispatch = {}          # method name -> entry of the generated dispatcher
        self.inline = {}            # (class name, static method) -> (parameter names, expression node)
        self.constructors = {}      # class name -> (Gallina constructor, [(field, type)])
        self.constructor_type = {}
        self.sigs = {}
        self.reflect()

    # ---- reflection -----------------------------------------------------------------------------
    def load(self):
        sys.path.insert(0, REPO)
        import nptdms
        here = os.path.realpath(os.path.dirname(nptdms.__file__))
        if here != os.path.realpath(os.path.join(REPO, "nptdms")):
            die("nptdms imported from %s, expected %s/nptdms" % (here, REPO))
        import logging
        logging.disable(logging.CRITICAL)

    def reflect(self):
        import numpy as np
        from nptdms import types
        self.types = types
        self.classes = {}
        for n in dir(types):
            c = getattr(types, n)
            if isinstance(c, type) and issubclass(c, types.TdmsType) and c.__module__ == types.__name__:
                self.classes[n] = c
        self.table = []             # (enum value, class) in the order of tds_data_types
        for ev, c in types.tds_data_types.items():
            if type(ev) is not int or ev < 0 or c.__name__ not in self.classes or self.classes[c.__name__] is not c \
                    or getattr(c, "enum_value", None) != ev:
                die("tds_data_types[%r]" % (ev,))
            if c.size is not None and type(c.size) is not int:
                die("%s.size" % c.__name__)
            sd = getattr(c, "struct_declaration", None)
            if sd is not None and type(sd) is not str:
                die("%s.struct_declaration" % c.__name__)
            npt = getattr(c, "nptype", None)
            if npt is not None and not isinstance(npt, np.dtype):
                die("%s.nptype" % c.__name__)
            self.table.append((ev, c))
        self.enum_of = {c: ev for ev, c in self.table}
        defs = self.cx.defs
        defs.append("(* REFLECTED: types.tds_data_types[ty] (a class is its enum value; None: KeyError) *)\n"
                    "Definition dec_tds_lookup (ty : Z) : option tdcls :=\n%s  None."
                    % "".join("  if ty =? %d then Some %d else\n" % (ev, ev) for ev, _ in self.table))
        defs.append("(* REFLECTED: <class>.size (None: size is None) *)\n"
                    "Definition dec_cls_size (c : tdcls) : option Z :=\n%s  None."
                    % "".join("  if c =? %d then %s else\n" % (ev, "None" if c.size is None else "Some %d" % c.size)
                              for ev, c in self.table))
        defs.append("(* REFLECTED: <class>.struct_declaration (None: the class has none, or it is None) *)\n"
                    "Definition dec_cls_struct_declaration (c : tdcls) : option string :=\n%s  None."
                    % "".join("  if c =? %d then %s else\n"
                              % (ev, "None" if getattr(c, "struct_declaration", None) is None
                                 else 'Some "%s"%%string' % c.struct_declaration) for ev, c in self.table))
        defs.append("(* REFLECTED: <class>.nptype (None: nptype is None) *)\n"
                    "Definition dec_cls_nptype (c : tdcls) : option npdtype :=\n%s  None."
                    % "".join("  if c =? %d then %s else\n"
                              % (ev, "None" if getattr(c, "nptype", None) is None else "Some " + S.dtype_term(c.nptype))
                              for ev, c in self.table))
        for n, c in sorted(self.classes.items()):
            if c in self.enum_of:
                defs.append("(* REFLECTED: nptdms.types.%s.enum_value *)\nDefinition dec_cls_%s : tdcls := %d."
                            % (n, n, self.enum_of[c]))

    def class_of(self, node):
        """a class named in the source (`Uint32`, `types.String`) -> class object or None"""
        if isinstance(node, ast.Name) and node.id in self.classes:
            return self.classes[node.id]
        if isinstance(node, ast.Attribute) and isinstance(node.value, ast.Name) and node.value.id == "types" \
                and node.attr in self.classes:
            return self.classes[node.attr]
        return None

    def class_const(self, node):
        c = self.class_of(node)
        if c is None or c not in self.enum_of:
            return None
        return "dec_cls_%s" % c.__name__

    def struct_unpack_alias(self, module):
        for n in self.trees[module].body:
            if isinstance(n, ast.Assign) and unp(n) == "_struct_unpack = struct.unpack":
                return True
        return False

    def defining_class(self, c, m, after=None):
        """the class of c's MRO (after `after`, for super()) whose __dict__ has m"""
        mro = list(c.__mro__)
        if after is not None:
            mro = mro[mro.index(after) + 1:]
        for k in mro:
            if m in k.__dict__:
                return k
        return None

    # ---- calls of methods -----------------------------------------------------------------------
    def method_call(self, sem, e, env, h, cx):
        f = e.func
        if isinstance(f, ast.Name) and ("<recvinit>", f.id) in self.methods:
            return sem.call_translated(e, self.methods[("<recvinit>", f.id)], [], list(e.args), env, h, cx)
        if not isinstance(f, ast.Attribute):
            # module-level translated functions
            if isinstance(f, ast.Name) and ("", f.id) in self.methods:
                return sem.call_translated(e, self.methods[("", f.id)], [], list(e.args), env, h, cx)
            return None
        m = f.attr
        # super(C, cls).m(..)
        if isinstance(f.value, ast.Call) and isinstance(f.value.func, ast.Name) and f.value.func.id == "super":
            a = f.value.args
            c = self.class_of(a[0]) if len(a) == 2 else None
            if c is None or not (isinstance(a[1], ast.Name) and a[1].id in env and env[a[1].id][1] == CLS):
                T.fail(e, "super() call")
            d = self.defining_class(c, m, after=c)
            ent = self.methods.get((d.__name__, m)) if d is not None else None
            if ent is None or ent["kind"] != "classmethod":
                T.fail(e, "super().%s resolves to %s, which is not translated" % (m, d))
            return sem.call_translated(e, ent, [env[a[1].id][0]], list(e.args), env, h, cx)
        # <Class>.m(..) of a value class (RawDataChunk, RawChannelDataChunk): inlined or translated static methods
        if isinstance(f.value, ast.Name) and (f.value.id, m) in self.inline:
            names, expr = self.inline[(f.value.id, m)]
            if e.keywords or len(e.args) != len(names):
                T.fail(e, "arity of inlined static method")
            return ex_subst(expr, dict(zip(names, e.args)), env, h, cx)
        if isinstance(f.value, ast.Name) and f.value.id in self.constructors and (f.value.id, m) in self.methods:
            return sem.call_translated(e, self.methods[(f.value.id, m)], [], list(e.args), env, h, cx)
        # <Class>.m(..) with the class named in the source
        c = self.class_of(f.value)
        if c is not None:
            d = self.defining_class(c, m)
            ent = self.methods.get((d.__name__, m)) if d is not None else None
            if ent is None:
                return None
            recv = []
            if ent["kind"] == "classmethod":
                k = self.class_const(f.value)
                if k is None:
                    T.fail(e, "class %s has no enum value" % c.__name__)
                recv = [k]
            ent2 = dict(ent)
            if ent.get("int_if"):               # the result is an int when the receiver's struct code says so
                sd = getattr(c, "struct_declaration", None)
                if sd is not None and set(sd) <= S.INT_CODES and len(sd) == 1:
                    ent2["post"] = ("sval_as_int", Z)
            return sem.call_translated(e, ent2, recv, list(e.args), env, h, cx)
        # <expression of type class>.m(..): the generated dispatcher
        if m in self.dispatch:
            snap = (len(h.pre) if h is not None else 0)
            try:
                t, ty = T.ex(f.value, env, h, cx)
            except T.Unsupported:
                t, ty = None, None
            if ty == OPT(CLS):
                t, ty = T.need(t, ty, "class", "EOther", h, e)      # None.m: AttributeError
            if ty == CLS:
                return sem.call_translated(e, self.dispatch[m], [t], list(e.args), env, h, cx)
            if h is not None:
                del h.pre[snap:]
        # obj.m(..) with obj a segment object / self.m(..)
        k = T.key_of(f.value) if not isinstance(f.value, ast.Name) else f.value.id
        if k in env and env[k][1] == SOBJ and ("<sobj>", m) in self.methods:
            return sem.call_translated(e, self.methods[("<sobj>", m)], [env[k][0]], list(e.args), env, h, cx)
        if isinstance(f.value, ast.Name) and f.value.id == "self" and ("<self>", m) in self.methods:
            ent = self.methods[("<self>", m)]
            recv = []
            for sk in ent["self_args"]:
                if sk not in env:
                    T.fail(e, "receiver state %s not available" % sk)
                recv.append(env[sk][0])
            return sem.call_translated(e, ent, recv, list(e.args), env, h, cx)
        return None

    # ---- translating one function -----------------------------------------------------------------
    def fun(self, module, name, cls, gen, ptys, *, recv=None, filevars=("file",), with_state=(), key=None,
            defaults_ok=(), local_types=None, stmts=None, extra_env=None, outputs=(), int_if=False, note=""):
        f, kind = find(self.trees[module], name, cls)
        args = [a.arg for a in f.args.args]
        if f.args.vararg or f.args.kwarg:
            if (module, name) not in (("base_segment.py", "fromfile"),):
                die("signature of %s" % name)
        first = {"method": ["self"], "classmethod": ["cls"], "staticmethod": [], "plain": []}[kind]
        if args[:len(first)] != first or len(args) - len(first) != len(ptys):
            die("parameters of %s%s: %r" % (cls + "." if cls else "", name, args))
        pnames = args[len(first):]
        dflt_nodes = dict(zip(args[len(args) - len(f.args.defaults):], f.args.defaults))
        defaults = {}
        for pn, dn in dflt_nodes.items():
            if unp(dn) == "'<'" and dict(zip(pnames, ptys)).get(pn) == ENDIAN:
                defaults[pn] = "LE"
            elif unp(dn) in ("None", "False") and dict(zip(pnames, ptys)).get(pn) == B:
                defaults[pn] = "false"          # a flag / an optional directory used only for its truth value
            elif pn in defaults_ok:
                pass
            else:
                die("default value of parameter %s of %s" % (pn, name))
        params, env0 = [], {}
        if kind == "classmethod":
            params.append(("cls", CLS))
            env0["cls"] = ("cls", CLS)
        if recv is not None:
            for k_, (cn, ty) in recv.items():
                params.append((cn, ty))
                env0[k_] = (cn, ty)
        for pn, pty in zip(pnames, ptys):
            params.append((T.cname(pn), pty))
            env0[pn] = (T.cname(pn), pty)
        if extra_env:
            env0.update(extra_env)
        S.set_filevars(filevars)
        self.sem.filevars = set(filevars)
        self.sem.local_types = dict(local_types or {})
        self.sem.module = module
        body = f.body if stmts is None else stmts(f)
        live = [s for s in body if not T.is_skip(s)]
        if len(live) == 1 and isinstance(live[0], ast.Raise):
            # a body that only raises: the exception class comes from the AST
            exc = live[0].exc
            en = exc.func.id if isinstance(exc, ast.Call) and isinstance(exc.func, ast.Name) else None
            if en not in T.EXC:
                die("%s: unknown exception class" % name)
            ps = "".join(" (%s : %s)" % (n, T.coqty(t)) for n, t in params)
            rty = ("never",)
            self.cx.defs.append("(* %s *)\nDefinition %s {A : Type}%s : res A :=\n  Err %s."
                                % (comment_of(module, f, cls), gen, ps, T.EXC[en]))
        else:
            rty = T.function(self.cx, gen, body, params, env0, list(outputs), comment_of(module, f, cls, body) + note,
                             with_state=list(with_state))
        ent = {"fn": gen, "params": list(zip(pnames, ptys)), "rty": rty, "kind": kind, "defaults": defaults,
               "int_if": int_if}
        if with_state:
            ent["rty"] = rty[1] if rty != ("never",) else rty       # the value part; the file is rebound by the call
        if recv is not None:
            ent["self_args"] = list(recv.keys())
            if key is not None and key[0] == "<self>":
                S.set_self_args(name, ent["self_args"])
        self.methods[key if key is not None else (cls or "", name)] = ent
        self.sigs[gen] = (params, rty)
        return ent

    def inline_static(self, module, cls, name):
        f, kind = find(self.trees[module], name, cls)
        live = [s for s in f.body if not T.is_skip(s)]
        if kind != "staticmethod" or len(live) != 1 or not isinstance(live[0], ast.Return) or live[0].value is None \
                or f.args.defaults or f.args.vararg or f.args.kwarg:
            die("%s.%s is not a static method with a single return" % (cls, name))
        self.inline[(cls, name)] = ([a.arg for a in f.args.args], live[0].value)

    def constructor(self, module, cls, cons, fields, ty):
        """<cls>(a, b, ..): __init__ stores its parameters in attributes of the same names"""
        f, kind = find(self.trees[module], "__init__", cls)
        args = [a.arg for a in f.args.args]
        want = ["self.%s = %s" % (n, n) for n, _ in fields]
        got = [unp(s) for s in f.body if not T.is_skip(s)]
        if args != ["self"] + [n for n, _ in fields] or got != want or f.args.defaults:
            die("%s.__init__ does not simply store (%s)" % (cls, ", ".join(n for n, _ in fields)))
        self.constructors[cls] = (cons, fields)
        self.constructor_type[cls] = ty

    # ---- the dispatchers --------------------------------------------------------------------------
    def make_dispatch(self, m, params, rty, wrap, default_err):
        """`<class>.m(args)` for a class taken from tds_data_types: REFLECTED method resolution"""
        arms = []
        for ev, c in self.table:
            d = self.defining_class(c, m)
            if d is None:
                arms.append((ev, c, None, "Err EOther", "no attribute %s: AttributeError" % m))
                continue
            ent = self.methods.get((d.__name__, m))
            if ent is None:
                die("%s.%s resolves to %s.%s, which is not translated" % (c.__name__, m, d.__name__, m))
            args = " ".join(n for n, _ in params)
            call = "%s %s%s" % (ent["fn"], "c " if ent["kind"] == "classmethod" else "", args)
            arms.append((ev, c, d, wrap(d.__name__, ent, call), "%s.%s" % (d.__name__, m)))
        ps = "".join(" (%s : %s)" % (n, T.coqty(t)) for n, t in params)
        gen = "tds_%s_gen" % m
        body = "".join("  if c =? %d then (* %s: %s *) %s else\n" % (ev, c.__name__, why, t) for ev, c, d, t, why in arms)
        self.cx.defs.append("(* <class>.%s(..) for a class of types.tds_data_types: which class's method runs is REFLECTED\n"
                            "   from the method resolution order of the imported classes *)\n"
                            "Definition %s (c : tdcls)%s : res %s :=\n%s  %s."
                            % (m, gen, ps, T.coqty(rty), body, default_err))
        self.dispatch[m] = {"fn": gen, "params": params, "rty": rty[1] if rty[0] == "tup" and rty[-1] == FILE else rty,
                            "kind": "dispatch", "defaults": {"endianness": "LE"}}
        self.sigs[gen] = ([("c", CLS)] + params, rty)


def ex_subst(expr, binding, env, h, cx):
    """the body of an inlined static method with its parameters replaced by the argument expressions"""
    class Sub(ast.NodeTransformer):
        def visit_Name(self, n):
            return binding[n.id] if n.id in binding else n
    import copy
    return T.ex(Sub().visit(copy.deepcopy(expr)), env, h, cx)


ATTR = {
    ("rawchunk", "channel_data"): ("rdc_channel_data", ("adict", RCDC), None),
    ("rcdc", "data"): ("rc_data", OPT(DYN), None),
    ("rcdc", "scaler_data"): ("rc_scaler_data", OPT(S.SCALERS), None),
    ("tdcls", "size"): ("dec_cls_size", OPT(Z), None),
    ("tdcls", "struct_declaration"): ("dec_cls_struct_declaration", OPT(CSTR), None),
    ("tdcls", "nptype"): ("dec_cls_nptype", OPT(NPDT), None),
    ("npdtype", "itemsize"): ("dt_itemsize", Z, None),
    ("sobj", "data_type"): ("so_dtype", OPT(CLS), None),
    ("channel", "data_type"): ("ch_dtype", OPT(CLS), None),
    ("channel", "path"): ("ch_path", BYTES, None),
    ("channel", "scaler_data_types"): ("ch_scalers", OPT(S.ZDICT(CLS)), None),
    ("sobj", "number_values"): ("so_nvals", Z, None),
    ("sobj", "data_size"): ("so_dsize", Z, None),
    ("sobj", "has_data"): ("so_has_data", B, None),
    ("sobj", "path"): ("so_path", BYTES, None),
}


def translate():
    S.install()
    d = Driver()
    cx = d.cx

    # ================= nptdms/types.py
    d.constructor("timestamp.py", "TdmsTimestamp", "mkPyTs", [("seconds", Z), ("second_fractions", Z)], TS)
    d.fun("types.py", "read", "TdmsType", "tdmstype_read_gen", [FILE, ENDIAN], with_state=["file"])
    d.fun("types.py", "read_values", "TdmsType", "tdmstype_read_values_gen", [FILE, Z, ENDIAN], with_state=["file"])
    d.fun("types.py", "read", "StructType", "struct_read_gen", [FILE, ENDIAN], with_state=["file"], int_if=True)
    d.fun("types.py", "from_bytes", "StructType", "struct_from_bytes_gen", [NPARR, ENDIAN])
    d.fun("types.py", "_decode", "String", "string_decode_gen", [BYTES])
    d.fun("types.py", "read", "String", "string_read_gen", [FILE, ENDIAN], with_state=["file"])
    d.fun("types.py", "read_values", "String", "string_read_values_gen", [FILE, Z, ENDIAN], with_state=["file"])
    d.fun("types.py", "read", "Boolean", "boolean_read_gen", [FILE, ENDIAN], with_state=["file"])
    d.fun("types.py", "read", "TimeStamp", "timestamp_read_gen", [FILE, ENDIAN], with_state=["file"])
    d.fun("types.py", "from_bytes", "TimeStamp", "timestamp_from_bytes_gen", [NPARR, ENDIAN])
    d.fun("types.py", "from_bytes", "ComplexType", "complex_from_bytes_gen", [NPARR, ENDIAN])

    def wrap_read(dn, ent, call):
        con = {"StructType": "PVs", "Boolean": "PVb", "String": "PVstr", "TimeStamp": "PVts"}.get(dn)
        if ent["rty"] == ("never",):
            return call
        if con is None:
            die("no value constructor for the result of %s.read" % dn)
        return "do '(v, file) <- %s; Ok (%s v, file)" % (call, con)
    d.make_dispatch("read", [("file", FILE), ("endianness", ENDIAN)], TUP(PYVAL, FILE), wrap_read, "Err EKey")
    d.make_dispatch("from_bytes", [("byte_array", NPARR), ("endianness", ENDIAN)], NPARR, lambda dn, ent, call: call,
                    "Err EKey")
    d.make_dispatch("read_values", [("file", FILE), ("number_values", Z), ("endianness", ENDIAN)], TUP(LIST(PYSTR), FILE),
                    lambda dn, ent, call: call, "Err EKey")

    # ================= nptdms/base_segment.py
    ADY = ("adict", DYN)
    d.constructor("base_segment.py", "RawChannelDataChunk", "mkRcdc", [("data", OPT(DYN)), ("scaler_data", OPT(S.SCALERS))], RCDC)
    d.constructor("base_segment.py", "RawDataChunk", "mkRdc", [("channel_data", ("adict", RCDC))], RDC)
    for m in ("empty", "channel_data", "scaler_data"):
        d.inline_static("base_segment.py", "RawChannelDataChunk", m)
    d.inline_static("base_segment.py", "RawDataChunk", "empty")
    d.fun("base_segment.py", "channel_data", "RawDataChunk", "rawdatachunk_channel_data_gen", [ADY], filevars=())
    d.fun("base_segment.py", "fromfile", None, "fromfile_gen", [FILE, NPDT, Z], with_state=["file"])
    d.fun("base_segment.py", "read_interleaved_segment_bytes", None, "read_interleaved_segment_bytes_gen", [FILE, Z, Z],
          filevars=("f",), with_state=["f"])
    d.fun("base_segment.py", "data_chunk_to_channel_chunk", None, "data_chunk_to_channel_chunk_gen", [RDC, BYTES], filevars=())

    # ================= nptdms/tdms_segment.py
    d.fun("tdms_segment.py", "read_property", None, "read_property_gen", [FILE, ENDIAN], filevars=("f",), with_state=["f"])
    d.fun("tdms_segment.py", "read_values", "TdmsSegmentObject", "segobj_read_values_gen", [FILE, Z, ENDIAN],
          recv={"self": ("self", SOBJ)}, with_state=["file"], key=("<sobj>", "read_values"))
    # BaseDataReader.__init__(num_chunks, final_chunk_lengths_override, endianness) stores its three parameters
    f, _ = find(d.trees["base_segment.py"], "__init__", "BaseDataReader")
    if [a.arg for a in f.args.args] != ["self", "num_chunks", "final_chunk_lengths_override", "endianness"] \
            or [unp(s_) for s_ in f.body if not T.is_skip(s_)] != [
                "self.num_chunks = num_chunks", "self.final_chunk_lengths_override = final_chunk_lengths_override",
                "self.endianness = endianness"]:
        die("BaseDataReader.__init__ does not simply store its parameters")
    for c_ in ("ContiguousDataReader", "InterleavedDataReader"):
        cd = [n for n in d.trees["tdms_segment.py"].body if isinstance(n, ast.ClassDef) and n.name == c_]
        if len(cd) != 1 or [unp(b_) for b_ in cd[0].bases] != ["BaseDataReader"] \
                or any(isinstance(n, ast.FunctionDef) and n.name == "__init__" for n in cd[0].body):
            die("%s is not a plain subclass of BaseDataReader" % c_)
    # ContiguousDataReader._get_channel_number_values is translated by gen_pyfuncs_reader.py (Gen/PyFuncsReader.v)
    d.methods[("<self>", "_get_channel_number_values")] = {
        "fn": "get_channel_number_values_gen", "params": [("obj", SOBJ), ("chunk_index", Z)], "rty": Z, "kind": "method",
        "defaults": {}, "self_args": ["self.num_chunks", "self.final_chunk_lengths_override"]}
    S.set_self_args("_get_channel_number_values", ["self.num_chunks", "self.final_chunk_lengths_override"])
    rd = {"self.num_chunks": ("self_num_chunks", Z),
          "self.final_chunk_lengths_override": ("self_final_chunk_lengths_override", OPT(T.DICT)),
          "self.endianness": ("self_endianness", ENDIAN)}
    d.fun("tdms_segment.py", "_read_data_chunk", "ContiguousDataReader", "contig_read_data_chunk_gen", [FILE, LIST(SOBJ), Z],
          recv=rd, with_state=["file"], key=("<contig>", "_read_data_chunk"))
    d.fun("tdms_segment.py", "_read_channel_data_chunk", "ContiguousDataReader", "contig_read_channel_data_chunk_gen",
          [PFILE, LIST(SOBJ), Z, BYTES], recv=rd, with_state=["file"], key=("<contig>", "_read_channel_data_chunk"))
    # BaseDataReader.read_data_chunks as ContiguousDataReader inherits it (REFLECTED: not overridden; the
    # _read_data_chunk it calls is ContiguousDataReader's)
    from nptdms import tdms_segment as TS_, base_segment as BS_
    if TS_.ContiguousDataReader.read_data_chunks is not BS_.BaseDataReader.read_data_chunks \
            or "_read_data_chunk" not in TS_.ContiguousDataReader.__dict__ \
            or TS_.ContiguousDataReader.__mro__[1] is not BS_.BaseDataReader:
        die("ContiguousDataReader no longer inherits read_data_chunks from BaseDataReader")
    d.methods[("<self>", "_read_data_chunk")] = dict(d.methods[("<contig>", "_read_data_chunk")])
    S.set_self_args("_read_data_chunk", list(rd.keys()))
    d.fun("base_segment.py", "read_data_chunks", "BaseDataReader", "contig_read_data_chunks_gen", [FILE, LIST(SOBJ), Z],
          recv=rd, outputs=["<yield>", "file"], extra_env={"<yield>": ("[]", LIST(None))},
          key=("<contig>", "read_data_chunks"),
          note="     (as inherited by ContiguousDataReader: self._read_data_chunk is ContiguousDataReader._read_data_chunk;\n"
               "      the generator is read to its end: the list of yielded chunks and the file after them)\n")
    del d.methods[("<self>", "_read_data_chunk")]
    ri = {"self.endianness": ("self_endianness", ENDIAN)}
    d.fun("tdms_segment.py", "_read_interleaved_chunks", "InterleavedDataReader", "read_interleaved_chunks_gen",
          [FILE, LIST(SOBJ), Z], recv=ri, with_state=["file"],
          key=("<self>", "_read_interleaved_chunks"))
    d.fun("tdms_segment.py", "read_data_chunks", "InterleavedDataReader", "interleaved_read_data_chunks_gen",
          [FILE, LIST(SOBJ), Z], recv=ri, with_state=["file"], key=("<self>", "read_data_chunks"))
    d.fun("tdms_segment.py", "read_channel_data_chunks", "InterleavedDataReader", "interleaved_read_channel_data_chunks_gen",
          [FILE, LIST(SOBJ), BYTES, Z, Z], recv=ri, with_state=["file"], key=("<interleaved>", "read_channel_data_chunks"))

    # ================= nptdms/channel_data.py
    CHAN, ZD = S.CHAN, S.ZDICT
    sem = d.sem
    sem.attr_types = {"_data": LIST(PYSTR), "scaler_data": ZD(NPARR), "_scaler_insert_positions": ZD(Z)}
    d.fun("channel_data.py", "_new_numpy_array", None, "new_numpy_array_gen", [OPT(NPDT), Z, B], filevars=())
    d.fun("channel_data.py", "__init__", "ListDataReceiver", "list_receiver_init_gen", [CHAN], filevars=(),
          outputs=["self._dtype", "self._data", "self.scaler_data"], key=("<recvinit>", "ListDataReceiver"))
    d.methods[("<recvinit>", "ListDataReceiver")]["rty"] = S.RLIST
    d.fun("channel_data.py", "__init__", "NumpyDataReceiver", "numpy_receiver_init_gen", [CHAN, Z, B], filevars=(),
          outputs=["self.path", "self.data", "self.scaler_data", "self._data_insert_position"],
          key=("<recvinit>", "NumpyDataReceiver"))
    d.methods[("<recvinit>", "NumpyDataReceiver")]["rty"] = S.RNUMPY
    d.fun("channel_data.py", "__init__", "DaqmxDataReceiver", "daqmx_receiver_init_gen", [CHAN, Z, B], filevars=(),
          outputs=["self.path", "self.scaler_data", "self._scaler_insert_positions"],
          key=("<recvinit>", "DaqmxDataReceiver"),
          note="     (self.data = None is not part of the result)\n")
    d.methods[("<recvinit>", "DaqmxDataReceiver")]["rty"] = S.RDAQ
    d.fun("channel_data.py", "__init__", "TimestampDataReceiver", "timestamp_receiver_init_gen", [CHAN, Z, B, B], filevars=(),
          outputs=["self.path", "self._raw_timestamps", "self.data", "self.scaler_data", "self._data_insert_position"],
          key=("<recvinit>", "TimestampDataReceiver"))
    d.methods[("<recvinit>", "TimestampDataReceiver")]["rty"] = S.RTS
    d.fun("channel_data.py", "get_data_receiver", None, "get_data_receiver_gen", [CHAN, Z, B, B], filevars=())
    d.fun("channel_data.py", "append_data", "ListDataReceiver", "list_receiver_append_data_gen", [LIST(PYSTR)], filevars=(),
          recv={"self._data": ("self__data", LIST(PYSTR))}, outputs=["self._data"], key=("<recv>", "list_append"))
    d.fun("channel_data.py", "append_data", "NumpyDataReceiver", "numpy_receiver_append_data_gen", [NPARR], filevars=(),
          recv={"self.path": ("self_path", BYTES), "self.data": ("self_data", NPARR),
                "self._data_insert_position": ("self__data_insert_position", Z)},
          outputs=["self.data", "self._data_insert_position"], key=("<recv>", "numpy_append"))
    sem.aliases = {}
    d.fun("channel_data.py", "append_scaler_data", "DaqmxDataReceiver", "daqmx_receiver_append_scaler_data_gen", [Z, NPARR],
          filevars=(), recv={"self.path": ("self_path", BYTES), "self.scaler_data": ("self_scaler_data", ZD(NPARR)),
                             "self._scaler_insert_positions": ("self__scaler_insert_positions", ZD(Z))},
          outputs=["self.scaler_data", "self._scaler_insert_positions"], key=("<recv>", "daqmx_append"),
          note="     (data_array IS the dict's item: the slice assignment is written back to self.scaler_data[scale_id])\n")
    sem.aliases = {}
    d.fun("channel_data.py", "append_data", "TimestampDataReceiver", "timestamp_receiver_append_data_gen", [NPARR], filevars=(),
          recv={"<as_datetime64>": ("as_datetime64", S.ASDT), "self.path": ("self_path", BYTES),
                "self._raw_timestamps": ("self__raw_timestamps", B), "self.data": ("self_data", NPARR),
                "self._data_insert_position": ("self__data_insert_position", Z)},
          outputs=["self.data", "self._data_insert_position"], key=("<recv>", "timestamp_append"),
          note="     (new_data.as_datetime64() -- the conversion of Model/Timestamp.v -- is the parameter as_datetime64)\n")
    return d


def header():
    return ("(* GENERATED by harness/gen/gen_pyfuncs_decode.py from nptdms/{types,base_segment,tdms_segment,channel_data}.py\n"
            "   -- do not edit.  Shallow monadic translation of the reader's data decoding path; see the script and\n"
            "   decode_prelude.py for the conventions. *)\n"
            "From Coq Require Import String Ascii.\n"
            "From Coq Require Import ZArith List Bool.\n"
            "From Coq Require Import Init.Byte.\n"
            "Import ListNotations.\n"
            "From NpTdms Require Import Base.Bytes Base.Res Base.PySlice Model.Tokens Model.SegState Model.Layout Model.Reader Gen.TypeTable\n"
            "     Gen.PyFuncsReader.\n"
            "Local Open Scope Z_scope.\n")


def write_if_changed(path, text):
    old = None
    try:
        old = open(path).read()
    except OSError:
        pass
    if old != text:
        os.makedirs(os.path.dirname(path), exist_ok=True)
        tmp = path + ".tmp.%d" % os.getpid()
        with open(tmp, "w") as fh:
            fh.write(text)
        os.replace(tmp, path)
        print("%s: wrote %s" % (ME, os.path.relpath(path, VERIF)))
    else:
        print("%s: %s up to date" % (ME, os.path.relpath(path, VERIF)))


def main():
    try:
        d = translate()
    except T.Unsupported as e:
        die(str(e))
    text = header() + P.PRELUDE + "\n" + "\n\n".join(d.cx.defs) + "\n"
    if "--stdout" in sys.argv:
        sys.stdout.write(text)
        return
    import decode_selftest as ST
    st_text, counts = ST.selftest(REPO, die, d)
    write_if_changed(OUT, text)
    write_if_changed(OUT_TEST, st_text)
    print("%s: %d functions translated; self-test cases: %s"
          % (ME, len(d.sigs), ", ".join("%s %d" % kv for kv in counts.items())))


if __name__ == "__main__":
    main()
