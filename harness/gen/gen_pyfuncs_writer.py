#!/venv/bin/python
"""`ast` translator: loop-free integer decision functions of nptdms/writer.py
-> coq/theories/Gen/PyFuncsWriter.v (shallow Gallina over Z).

Translated (source text read from $NPTDMS_REPO/nptdms/writer.py, default /repo):

  to_int_property_value(value)   a sequence of `if <cond>: return Ctor(value)` and a final
                                 `return Ctor(value)`            -> tdms_ctor * Z
  _infer_dtype(data)             `if data and isinstance(data[0], int):` (or the same guard over all
                                 elements) with body
                                 `max_value = max(data); min_value = min(data);`
                                 if/elif/else chain of `return np.dtype('<name>')`, then
                                 `return None`; only the chain is translated, as a function
                                 of (max_value, min_value)       -> np_dtype_name
  _path_ordering_key(path)       a sequence of `if path.<attr>: return <int>` (falling off
                                 the end returns None)           -> option Z

Expressions: the parameter names, int literals, `a ** b`, `a * b`, `a + b`, `a - b`, unary minus,
one-operator comparisons (>=, >, <, <=, ==), and / or.  Anything else: exit 1 (fail closed);
nothing is written in that case.

Self test: the generated file ends with an `Example` whose cases carry the results of the
*Python* functions on a boundary grid; it is checked by `vm_compute` whenever the file is
built, so a translator error is a build failure.
"""
import ast
import os
import sys
import types as pytypes

REPO = os.environ.get("NPTDMS_REPO", "/repo")
SRC = os.path.join(REPO, "nptdms", "writer.py")
OUT = os.path.join(os.path.dirname(os.path.abspath(__file__)), "..", "..", "coq", "theories", "Gen",
                   "PyFuncsWriter.v")


def fail(msg, node=None):
    where = " (line %d)" % node.lineno if node is not None and hasattr(node, "lineno") else ""
    sys.stderr.write("gen_pyfuncs_writer: unrecognised source%s: %s\n" % (where, msg))
    sys.exit(1)


CMP = {ast.GtE: ">=?", ast.Gt: ">?", ast.Lt: "<?", ast.LtE: "<=?", ast.Eq: "=?"}


def zexpr(e, names):
    """integer expression -> Gallina Z term"""
    if isinstance(e, ast.Constant) and type(e.value) is int:
        return "%d" % e.value if e.value >= 0 else "(%d)" % e.value
    if isinstance(e, ast.Name) and e.id in names:
        return e.id
    if isinstance(e, ast.UnaryOp) and isinstance(e.op, ast.USub):
        return "(- %s)" % zexpr(e.operand, names)
    if isinstance(e, ast.BinOp) and isinstance(e.op, ast.Pow):
        if not (isinstance(e.right, ast.Constant) and type(e.right.value) is int and e.right.value >= 0):
            fail("exponent must be a non-negative int literal", e)
        return "(%s ^ %s)" % (zexpr(e.left, names), zexpr(e.right, names))
    if isinstance(e, ast.BinOp) and type(e.op) in (ast.Mult, ast.Add, ast.Sub):
        op = {ast.Mult: "*", ast.Add: "+", ast.Sub: "-"}[type(e.op)]
        return "(%s %s %s)" % (zexpr(e.left, names), op, zexpr(e.right, names))
    fail("integer expression " + ast.dump(e), e)


def bexpr(e, names, bools=()):
    """condition -> Gallina bool term"""
    if isinstance(e, ast.BoolOp):
        op = " && " if isinstance(e.op, ast.And) else " || " if isinstance(e.op, ast.Or) else None
        if op is None:
            fail("boolean operator", e)
        return "(" + op.join(bexpr(v, names, bools) for v in e.values) + ")"
    if isinstance(e, ast.Compare):
        if len(e.ops) != 1 or type(e.ops[0]) not in CMP:
            fail("comparison " + ast.dump(e), e)
        return "(%s %s %s)" % (zexpr(e.left, names), CMP[type(e.ops[0])], zexpr(e.comparators[0], names))
    if isinstance(e, ast.Attribute) and isinstance(e.value, ast.Name) and (e.value.id, e.attr) in bools:
        return e.attr
    fail("condition " + ast.dump(e), e)


def func(tree, name):
    fs = [n for n in tree.body if isinstance(n, ast.FunctionDef) and n.name == name]
    if len(fs) != 1:
        fail("expected exactly one top-level def %s" % name)
    f = fs[0]
    if f.decorator_list or f.args.vararg or f.args.kwarg or f.args.kwonlyargs or f.args.defaults:
        fail("signature of %s" % name, f)
    body = list(f.body)
    if body and isinstance(body[0], ast.Expr) and isinstance(getattr(body[0], "value", None), ast.Constant) \
            and isinstance(body[0].value.value, str):
        body = body[1:]
    return f, [a.arg for a in f.args.args], body


def ctor_call(e, arg):
    """`Ctor(arg)` -> 'Ctor'"""
    if isinstance(e, ast.Call) and isinstance(e.func, ast.Name) and len(e.args) == 1 and not e.keywords \
            and isinstance(e.args[0], ast.Name) and e.args[0].id == arg:
        return e.func.id
    fail("expected Ctor(%s), got %s" % (arg, ast.dump(e)), e)


def np_dtype_call(e):
    """`np.dtype('<name>')` -> name"""
    if isinstance(e, ast.Call) and isinstance(e.func, ast.Attribute) and e.func.attr == "dtype" \
            and isinstance(e.func.value, ast.Name) and e.func.value.id == "np" and len(e.args) == 1 \
            and not e.keywords and isinstance(e.args[0], ast.Constant) and isinstance(e.args[0].value, str) \
            and e.args[0].value.isidentifier():
        return e.args[0].value
    fail("expected np.dtype('<name>'), got %s" % ast.dump(e), e)


def only_return(stmts, node):
    if len(stmts) != 1 or not isinstance(stmts[0], ast.Return) or stmts[0].value is None:
        fail("block must be a single `return <expr>`", node)
    return stmts[0].value


def tr_to_int(tree):
    f, args, body = func(tree, "to_int_property_value")
    if args != ["value"]:
        fail("to_int_property_value parameters", f)
    ctors, arms = [], []
    for st in body[:-1]:
        if not isinstance(st, ast.If) or st.orelse:
            fail("expected `if <cond>: return Ctor(value)`", st)
        c = ctor_call(only_return(st.body, st), "value")
        arms.append((bexpr(st.test, {"value"}), c))
        ctors.append(c)
    if not body or not isinstance(body[-1], ast.Return):
        fail("to_int_property_value must end with return", f)
    last = ctor_call(body[-1].value, "value")
    ctors.append(last)
    names = []
    for c in ctors:
        if c not in names:
            names.append(c)
    term = "(C_%s, value)" % last
    for cond, c in reversed(arms):
        term = "if %s then (C_%s, value)\n  else %s" % (cond, c, term)
    return names, term


def tr_infer(tree):
    f, args, body = func(tree, "_infer_dtype")
    if args != ["data"] or len(body) != 2:
        fail("_infer_dtype shape", f)
    top, ret = body
    if not (isinstance(ret, ast.Return) and isinstance(ret.value, ast.Constant) and ret.value.value is None):
        fail("_infer_dtype must end with `return None`", ret)
    # if data and isinstance(data[0], int):
    t = top.test if isinstance(top, ast.If) and not top.orelse else None
    guards = ["isinstance(data[0], int)", "all(isinstance(value, int) for value in data)"]
    ok = (isinstance(t, ast.BoolOp) and isinstance(t.op, ast.And) and len(t.values) == 2
          and isinstance(t.values[0], ast.Name) and t.values[0].id == "data"
          and ast.dump(t.values[1]) in [ast.dump(ast.parse(g, mode="eval").body) for g in guards])
    if not ok:
        fail("guard of _infer_dtype must be `data and isinstance(data[0], int)` "
             "(or `data and all(isinstance(value, int) for value in data)`)", top)
    if len(top.body) != 3:
        fail("_infer_dtype body must be two assignments and one if-chain", top)
    for st, (var, fn) in zip(top.body[:2], (("max_value", "max"), ("min_value", "min"))):
        want = ast.dump(ast.parse("%s = %s(data)" % (var, fn)).body[0])
        if ast.dump(st) != want:
            fail("expected `%s = %s(data)`" % (var, fn), st)
    names = {"max_value", "min_value"}
    arms, dts = [], []
    node = top.body[2]
    while True:
        if not isinstance(node, ast.If):
            fail("expected if/elif chain", node)
        d = np_dtype_call(only_return(node.body, node))
        arms.append((bexpr(node.test, names), d))
        dts.append(d)
        if len(node.orelse) == 1 and isinstance(node.orelse[0], ast.If):
            node = node.orelse[0]
            continue
        last = np_dtype_call(only_return(node.orelse, node))
        dts.append(last)
        break
    uniq = []
    for d in dts:
        if d not in uniq:
            uniq.append(d)
    term = "D_%s" % last
    for cond, d in reversed(arms):
        term = "if %s then D_%s\n  else %s" % (cond, d, term)
    return uniq, term


def tr_key(tree):
    f, args, body = func(tree, "_path_ordering_key")
    if args != ["path"]:
        fail("_path_ordering_key parameters", f)
    attrs, arms = [], []
    for st in body:
        if not isinstance(st, ast.If) or st.orelse:
            fail("expected `if path.<attr>: return <int>`", st)
        v = only_return(st.body, st)
        if not (isinstance(v, ast.Constant) and type(v.value) is int):
            fail("key must be an int literal", st)
        if not (isinstance(st.test, ast.Attribute) and isinstance(st.test.value, ast.Name)
                and st.test.value.id == "path"):
            fail("condition must be path.<attr>", st)
        attrs.append(st.test.attr)
        arms.append((st.test.attr, v.value))
    if attrs != ["is_root", "is_group", "is_channel"]:
        fail("expected the attributes is_root, is_group, is_channel in this order, got %r" % attrs, f)
    term = "None"
    for a, v in reversed(arms):
        term = "if %s then Some %d\n  else %s" % (a, v, term)
    return attrs, term


GRID_POW = [7, 8, 15, 16, 31, 32, 63, 64]


def grid():
    vals = {0, 1, -1}
    for k in GRID_POW:
        for d in (-1, 0, 1):
            vals.add(2 ** k + d)
            vals.add(-2 ** k + d)
    return sorted(vals)


def selftest_cases(int_names, dt_names):
    """Run the Python functions themselves on the grid."""
    sys.path.insert(0, REPO)
    import nptdms.writer as W
    here = os.path.realpath(os.path.dirname(W.__file__))
    if here != os.path.realpath(os.path.join(REPO, "nptdms")):
        fail("nptdms imported from %s, expected %s" % (here, REPO))
    g = grid()
    int_cases = []
    for v in g:
        # the constructor call raises struct.error outside the packable range: observe the chosen
        # class by running the function's own code object with recording constructors
        ns = dict(W.__dict__)
        for n in int_names:
            ns[n] = (lambda name: (lambda value: (name, value)))(n)
        fn = pytypes.FunctionType(W.to_int_property_value.__code__, ns)
        name, val = fn(v)
        int_cases.append("(%s, (C_%s, %s))" % (z(v), name, z(val)))
    dt_cases = []
    for mx in g:
        for mn in g:
            if mn > mx:
                continue
            d = W._infer_dtype([mx, mn])
            if d is None or d.name not in dt_names:
                fail("_infer_dtype([%d, %d]) returned %r" % (mx, mn, d))
            dt_cases.append("(%s, %s, D_%s)" % (z(mx), z(mn), d.name))
    key_cases = []
    for bits in range(8):
        r, gr, c = bool(bits & 1), bool(bits & 2), bool(bits & 4)
        k = W._path_ordering_key(pytypes.SimpleNamespace(is_root=r, is_group=gr, is_channel=c))
        key_cases.append("(%s, %s, %s, %s)" % (b(r), b(gr), b(c), "None" if k is None else "Some %s" % z(k)))
    return int_cases, dt_cases, key_cases


def z(n):
    return "%d" % n if n >= 0 else "(%d)" % n


def b(x):
    return "true" if x else "false"


def chunks(items, n=4):
    return ";\n   ".join("; ".join(items[i:i + n]) for i in range(0, len(items), n))


def main():
    try:
        src = open(SRC).read()
        tree = ast.parse(src)
    except (OSError, SyntaxError) as e:
        fail("cannot read/parse %s: %s" % (SRC, e))
    int_names, int_term = tr_to_int(tree)
    dt_names, dt_term = tr_infer(tree)
    attrs, key_term = tr_key(tree)
    int_cases, dt_cases, key_cases = selftest_cases(int_names, dt_names)
    out = []
    out.append("(* GENERATED by harness/gen/gen_pyfuncs_writer.py from nptdms/writer.py - do not edit.\n"
               "   Shallow translation of to_int_property_value, the decision chain of _infer_dtype\n"
               "   (as a function of max(data), min(data)) and _path_ordering_key. *)")
    out.append("From Coq Require Import ZArith Bool List.\nImport ListNotations.\nLocal Open Scope Z_scope.\n")
    out.append("Inductive tdms_ctor := %s.\n" % " | ".join("C_" + n for n in int_names))
    out.append("Inductive np_dtype_name := %s.\n" % " | ".join("D_" + n for n in dt_names))
    out.append("(* def to_int_property_value(value) *)\n"
               "Definition to_int_property_value (value : Z) : tdms_ctor * Z :=\n  %s.\n" % int_term)
    out.append("(* def _infer_dtype(data): the if/elif chain under `data and isinstance(data[0], int)` *)\n"
               "Definition infer_dtype_chain (max_value min_value : Z) : np_dtype_name :=\n  %s.\n" % dt_term)
    out.append("(* def _path_ordering_key(path) *)\n"
               "Definition path_ordering_key (%s : bool) : option Z :=\n  %s.\n" % (" ".join(attrs), key_term))
    # decidable equality on the generated enumerations (for the self test and the models)
    out.append("Definition tdms_ctor_eqb (a b : tdms_ctor) : bool :=\n  match a, b with\n%s  | _, _ => false\n  end.\n"
               % "".join("  | C_%s, C_%s => true\n" % (n, n) for n in int_names))
    out.append("Definition np_dtype_name_eqb (a b : np_dtype_name) : bool :=\n  match a, b with\n%s  | _, _ => false\n  end.\n"
               % "".join("  | D_%s, D_%s => true\n" % (n, n) for n in dt_names))
    out.append("(* ---- self test: results of the Python functions on a boundary grid ---- *)")
    out.append("Definition selftest_int : list (Z * (tdms_ctor * Z)) :=\n  [%s].\n" % chunks(int_cases, 3))
    out.append("Definition selftest_dtype : list (Z * Z * np_dtype_name) :=\n  [%s].\n" % chunks(dt_cases, 3))
    out.append("Definition selftest_key : list (bool * bool * bool * option Z) :=\n  [%s].\n" % chunks(key_cases, 2))
    out.append("Definition oz_eqb (a b : option Z) : bool :=\n"
               "  match a, b with Some x, Some y => x =? y | None, None => true | _, _ => false end.\n")
    out.append("Definition selftest_ok : bool :=\n"
               "  forallb (fun c => let '(v, (t, w)) := c in\n"
               "             let '(t', w') := to_int_property_value v in tdms_ctor_eqb t t' && (w =? w')) selftest_int &&\n"
               "  forallb (fun c => let '(mx, mn, d) := c in np_dtype_name_eqb d (infer_dtype_chain mx mn)) selftest_dtype &&\n"
               "  forallb (fun c => let '(r, g, ch, k) := c in oz_eqb k (path_ordering_key r g ch)) selftest_key.\n")
    out.append("Example pyfuncs_writer_selftest : selftest_ok = true.\nProof. vm_compute. reflexivity. Qed.")
    text = "\n".join(out) + "\n"
    old = None
    try:
        old = open(OUT).read()
    except OSError:
        pass
    if old != text:
        os.makedirs(os.path.dirname(OUT), exist_ok=True)
        tmp = OUT + ".tmp.%d" % os.getpid()
        with open(tmp, "w") as fh:
            fh.write(text)
        os.replace(tmp, OUT)
        print("gen_pyfuncs_writer: wrote %s (%d int, %d dtype, %d key self-test cases)"
              % (os.path.relpath(OUT), len(int_cases), len(dt_cases), len(key_cases)))
    else:
        print("gen_pyfuncs_writer: up to date")


if __name__ == "__main__":
    main()
