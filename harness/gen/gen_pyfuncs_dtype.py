#!/venv/bin/python
"""Fail-closed translator: the DTYPE LOGIC of npTDMS (C14) -> coq/theories/Gen/PyFuncsDtype.v
(+ the self-test coq/theories/Gen/PyFuncsDtypeTest.v)

Translated with Python `ast` (harness/gen/py2gallina.py + scale_sem.py + dtype_sem.py); nptdms is imported for the
reflected table of TDMS type classes and for the self-test only.

  nptdms/scaling.py
      _double_precision_dtype                   (on any dtype object, not only the 13 numeric ones)
      MultiScaling._compute_scale_dtype         (RAW_DATA_INPUT_SOURCE test, dtype-or-TDMS-type argument, DAQmx
                                                 scaler types, np.result_type for Add / Subtract, double precision
                                                 for Linear, pass-through for NoOp, float64 for everything else
                                                 -- including a scale of an unsupported type (None entry))
      MultiScaling.get_dtype                    (the last scale)
  nptdms/tdms.py
      TdmsChannel._raw_data_dtype, TdmsChannel.dtype, TdmsChannel.__len__,
      TdmsChannel._scale_data, TdmsChannel.data, TdmsChannel.read_data, ChannelDataChunk._data
          at the level "which value is handed back": np.empty((0,), dtype=D) with which D, the scaled data, the
          raw data, the scaler dictionary (dtype_sem.py: pyres).  self._read_channel_data / slice_raw_data are
          parameters (what they return is the subject of C01 / C04).
      (TdmsChannel._read_slice is translated by gen_pyfuncs_slice.py, which recognises exactly
       np.empty((0,), dtype=self.dtype) and self.read_data(a, b).)

Representation: a scaling object is Gen.PyFuncsScaleEval's scaling_py (its is_X / get_a functions are used); a TDMS
type class is its enum value, the table (class -> enum value, nptype) is reflected from nptdms.types; recursion of
_compute_scale_dtype is open (parameter rec__), the knot tied with fuel by fixed text, the top-level call gets
len(scalings) + 1 levels (more nested calls than scalings = a cyclic definition = RecursionError in Python).

Anything unrecognised: message on stderr, exit 1, nothing written.
"""
import ast
import os
import sys

HERE = os.path.dirname(os.path.abspath(__file__))
sys.path.insert(0, HERE)
import py2gallina as T                                             # noqa: E402
from py2gallina import Z, B, OPT, LIST                              # noqa: E402
import scale_sem as S                                              # noqa: E402
import dtype_sem as D                                              # noqa: E402
from dtype_sem import XDT, TDSTYPE, RAWTY, ABSRAW, PYRES, MULTI, SCALERT   # noqa: E402

VERIF = os.path.dirname(os.path.dirname(HERE))
REPO = os.environ.get("NPTDMS_REPO", "/repo")
OUT = os.path.join(VERIF, "coq", "theories", "Gen", "PyFuncsDtype.v")
OUT_TEST = os.path.join(VERIF, "coq", "theories", "Gen", "PyFuncsDtypeTest.v")
ME = "gen_pyfuncs_dtype"

SCALING_CLASSES = ["NoOpScaling", "LinearScaling", "PolynomialScaling", "RtdScaling", "StrainScaling", "TableScaling",
                   "ThermistorScaling", "ThermocoupleScaling", "AddScaling", "SubtractScaling", "DaqMxScalerScaling"]
DYN_ATTRS = ["input_source", "left_input_source", "right_input_source", "scale_id"]
NP_NAMES = {"bool": "Bool", "int8": "Int8", "int16": "Int16", "int32": "Int32", "int64": "Int64", "uint8": "UInt8",
            "uint16": "UInt16", "uint32": "UInt32", "uint64": "UInt64", "float32": "Float32", "float64": "Float64",
            "complex64": "Complex64", "complex128": "Complex128"}


def die(msg):
    sys.stderr.write("%s: UNSUPPORTED / unrecognised source, nothing written: %s\n" % (ME, msg))
    sys.exit(1)


def unp(n):
    return ast.unparse(n)


def comment_of(fname, cls, f):
    txt = "\n".join(unp(s) for s in f.body if not T.is_skip(s)).replace("(*", "( *").replace("*)", "* )")
    where = "%s.%s" % (cls, f.name) if cls else f.name
    return "nptdms/%s: %s (line %d)\n%s\n" % (fname, where, f.lineno, "\n".join("     " + l for l in txt.split("\n")))


def find_class(tree, name):
    cs = [n for n in tree.body if isinstance(n, ast.ClassDef) and n.name == name]
    if len(cs) != 1:
        die("expected exactly one class %s" % name)
    return cs[0]


def method(cls, name, params, decos=()):
    fs = [n for n in cls.body if isinstance(n, ast.FunctionDef) and n.name == name]
    if len(fs) != 1:
        die("expected exactly one def %s.%s" % (cls.name, name))
    f = fs[0]
    if [unp(d) for d in f.decorator_list] != list(decos):
        die("decorators of %s.%s" % (cls.name, name))
    if f.args.vararg or f.args.kwarg or f.args.kwonlyargs or [a.arg for a in f.args.args] != ["self"] + list(params):
        die("signature of %s.%s" % (cls.name, name))
    return f


def reflect_types():
    """class name -> (enum value, NumpyPromote constructor or None) for every class of nptdms.types + the DAQmx
    raw type; fails closed on an nptype outside the 13 numeric dtypes or on duplicate enum values"""
    sys.path.insert(0, REPO)
    import nptdms
    if os.path.realpath(os.path.dirname(nptdms.__file__)) != os.path.realpath(os.path.join(REPO, "nptdms")):
        die("nptdms imported from %s" % nptdms.__file__)
    import numpy as np
    from nptdms import types
    out = {}
    for name in dir(types):
        c = getattr(types, name)
        if isinstance(c, type) and issubclass(c, types.TdmsType) and getattr(c, "enum_value", None) is not None:
            npt = getattr(c, "nptype", None)
            if npt is None:
                con = None
            else:
                nm = np.dtype(npt).newbyteorder("=").name
                if nm not in NP_NAMES or np.dtype(npt).byteorder == ">":
                    die("types.%s.nptype = %r is outside the table of numeric dtypes" % (name, npt))
                con = NP_NAMES[nm]
            out[name] = (int(c.enum_value), con)
    vals = [v for v, _ in out.values()]
    if len(set(vals)) != len(vals):
        die("two classes of nptdms.types share an enum value")
    for need_ in ("String", "TimeStamp", "DaqMxRawData"):
        if need_ not in out:
            die("types.%s not found" % need_)
    return out


PRELUDE_TAIL = """\
(* d[k] for scaler_data_types (a dict scale id -> TDMS type class) *)
(* (py_zdict_get comes from Gen.PyFuncsScaleEval) *)
"""


def translate():
    D.install()
    tds = reflect_types()
    try:
        tree_s = ast.parse(open(os.path.join(REPO, "nptdms", "scaling.py")).read())
        tree_t = ast.parse(open(os.path.join(REPO, "nptdms", "tdms.py")).read())
    except (OSError, SyntaxError) as e:
        die("cannot read/parse the sources: %s" % e)
    raws = [n for n in tree_s.body if isinstance(n, ast.Assign) and unp(n.targets[0]) == "RAW_DATA_INPUT_SOURCE"]
    if len(raws) != 1 or not isinstance(raws[0].value, ast.Constant) or raws[0].value.value != 0xFFFFFFFF:
        die("RAW_DATA_INPUT_SOURCE is no longer 0xFFFFFFFF")
    cx = T.Cx({}, {}, {}, {})
    cx.kwcalls = True
    cx.str_consts = True
    cx.try_catch = True
    sem = D.DtypeSem({k: v for k, (v, _) in tds.items()})
    cx.np = sem
    cx.globals["RAW_DATA_INPUT_SOURCE"] = ("%d" % 0xFFFFFFFF, Z)
    for c in SCALING_CLASSES:
        find_class(tree_s, c)
        cx.isinst[("scaling_py", c)] = "(is_" + c + " %s)"
    for a in DYN_ATTRS:
        cx.attr[("scaling_py", a)] = ("get_%s" % a, OPT(Z), "EOther")
    cx.attr[("absraw", "data")] = ("ar_has_data", D.ARRD, None)
    cx.attr[("absraw", "scaler_data")] = ("ar_scalers", D.SCD, None)
    defs = cx.defs
    sigs = []

    # ---- the reflected table of TDMS type classes
    lines = ["(* REFLECTED from nptdms.types: <class>.nptype by enum value (XNone: the class has no nptype) *)",
             "Definition tds_nptype (t : Z) : ScaleDtype.xdt :="]
    for name, (v, con) in sorted(tds.items(), key=lambda kv: kv[1][0]):
        if con is not None:
            lines.append("  if t =? %d then ScaleDtype.XNum %s else   (* %s *)" % (v, con, name))
    lines.append("  ScaleDtype.XNone.")
    lines.append("(* the enum values of all classes of nptdms.types *)")
    lines.append("Definition tds_type_values : list Z := [%s]." % "; ".join("%d" % v for v, _ in sorted(tds.values())))
    defs.append("\n".join(lines))

    # ---- scaling.py
    fs = [n for n in tree_s.body if isinstance(n, ast.FunctionDef) and n.name == "_double_precision_dtype"]
    if len(fs) != 1 or [a.arg for a in fs[0].args.args] != ["dtype"] or fs[0].decorator_list:
        die("_double_precision_dtype")
    rty = T.function(cx, "double_precision_xdt_gen", fs[0].body, [("dtype", XDT)], {"dtype": ("dtype", XDT)}, [],
                     comment_of("scaling.py", None, fs[0]))
    if rty != XDT:
        die("_double_precision_dtype returns %r" % (rty,))
    cx.callees["_double_precision_dtype"] = ("double_precision_xdt_gen", [XDT], XDT, [])
    sigs.append("_double_precision_dtype")

    multi = find_class(tree_s, "MultiScaling")
    comp = method(multi, "_compute_scale_dtype", ["scale_index", "raw_data_type", "scaler_data_types"])
    if not any(isinstance(n, ast.Attribute) and unp(n) == "self._compute_scale_dtype" for n in ast.walk(comp)):
        die("_compute_scale_dtype no longer calls itself")
    REC_T = ("fun", (Z, RAWTY, SCALERT), XDT)

    def rec_call(e, env, h, cx_):
        if isinstance(e.func, ast.Attribute) and unp(e.func) == "self._compute_scale_dtype" and "rec__" in env:
            if e.keywords or len(e.args) != 3:
                T.fail(e, "recursive call")
            args = []
            for a, want in zip(e.args, (Z, RAWTY, SCALERT)):
                t, ty = T.ex(a, env, h, cx_)
                if want == RAWTY and ty == XDT:
                    t, ty = "(inl %s)" % t, RAWTY
                if want == RAWTY and ty == TDSTYPE:
                    t, ty = "(inr %s)" % t, RAWTY
                if ty != want:
                    T.fail(a, "argument of type %r where %r is declared" % (ty, want))
                args.append(t)
            return sem.hoist(e, h, cx_, "rec__ %s" % " ".join(args)), XDT
        return None
    sem.extra_calls.append(rec_call)
    params = [("rec__", REC_T), ("self_scalings", MULTI), ("scale_index", Z), ("raw_data_type", RAWTY),
              ("scaler_data_types", SCALERT)]
    env0 = {"rec__": ("rec__", REC_T), "self.scalings": ("self_scalings", MULTI), "scale_index": ("scale_index", Z),
            "raw_data_type": ("raw_data_type", RAWTY), "scaler_data_types": ("scaler_data_types", SCALERT)}
    rty = T.function(cx, "compute_scale_dtype_gen", comp.body, params, env0, [],
                     comment_of("scaling.py", "MultiScaling", comp) + "   (rec__: the recursive call self._compute_scale_dtype)\n")
    if rty != XDT:
        die("_compute_scale_dtype returns %r" % (rty,))
    sigs.append("MultiScaling._compute_scale_dtype")
    gd = method(multi, "get_dtype", ["raw_data_type", "scaler_data_types"])
    params = [("rec__", REC_T), ("self_scalings", MULTI), ("raw_data_type", RAWTY), ("scaler_data_types", SCALERT)]
    env0 = {k: v for k, v in env0.items() if k != "scale_index"}
    rty = T.function(cx, "MultiScaling_get_dtype_gen", gd.body, params, env0, [],
                     comment_of("scaling.py", "MultiScaling", gd) + "   (rec__: self._compute_scale_dtype)\n")
    if rty != XDT:
        die("get_dtype returns %r" % (rty,))
    sigs.append("MultiScaling.get_dtype")
    defs.append("""(* the recursion of _compute_scale_dtype, bounded: a call nested deeper than `fuel` is Err EFuel (fixed text) *)
Fixpoint compute_scale_dtype_fuel (fuel : nat) (self_scalings : list (option scaling_py)) (scale_index : Z)
         (raw_data_type : ScaleDtype.xdt + Z) (scaler_data_types : option (list (Z * Z))) {struct fuel} : res ScaleDtype.xdt :=
  compute_scale_dtype_gen
    (fun z__ r__ s__ => match fuel with O => Err EFuel | S f__ => compute_scale_dtype_fuel f__ self_scalings z__ r__ s__ end)
    self_scalings scale_index raw_data_type scaler_data_types.
Definition MultiScaling_get_dtype_fuel (fuel : nat) (self_scalings : list (option scaling_py))
           (raw_data_type : ScaleDtype.xdt + Z) (scaler_data_types : option (list (Z * Z))) : res ScaleDtype.xdt :=
  MultiScaling_get_dtype_gen (compute_scale_dtype_fuel fuel self_scalings) self_scalings raw_data_type scaler_data_types.
(* x.get_dtype(..) as the other functions call it: more nested calls than there are scalings = a cycle *)
Definition MultiScaling_get_dtype_top (self_scalings : list (option scaling_py))
           (raw_data_type : ScaleDtype.xdt + Z) (scaler_data_types : option (list (Z * Z))) : res ScaleDtype.xdt :=
  MultiScaling_get_dtype_fuel (S (List.length self_scalings)) self_scalings raw_data_type scaler_data_types.""")

    # ---- tdms.py: TdmsChannel
    chan = find_class(tree_t, "TdmsChannel")
    init = method(chan, "__init__", ["path", "data_type", "scaler_data_types", "number_values", "properties",
                                     "group_properties", "file_properties", "tdms_reader", "raw_timestamps", "memmap_dir"])
    want_init = {"self._length": "number_values", "self.data_type": "data_type", "self.scaler_data_types": "scaler_data_types",
                 "self._raw_timestamps": "raw_timestamps", "self._raw_data": "None"}
    got = {unp(s.targets[0]): unp(s.value) for s in init.body if isinstance(s, ast.Assign) and len(s.targets) == 1}
    for k, v in want_init.items():
        if got.get(k) != v:
            die("TdmsChannel.__init__ no longer assigns %s = %s" % (k, v))
    sc_prop = method(chan, "_scaling", [], decos=["cached_property"])
    if unp(sc_prop.body[-1]) != "return scaling.get_scaling(self.properties, self._group_properties, self._file_properties)" \
            or any(not T.is_skip(s) for s in sc_prop.body[:-1]):
        die("TdmsChannel._scaling is no longer scaling.get_scaling(channel, group, file properties)")
    FIELDS = {"self._length": Z, "self.data_type": OPT(TDSTYPE), "self.scaler_data_types": SCALERT,
              "self._raw_timestamps": B, "self._scaling": OPT(MULTI), "self._raw_data": OPT(ABSRAW)}

    def fn(cls_name, f, gen, fields, extra_params=(), prefix="self."):
        keys = [prefix + k for k in fields]
        params = [(T.cname(prefix + k), FIELDS[prefix + k]) for k in fields] + list(extra_params)
        env = {prefix + k: (T.cname(prefix + k), params[i][1]) for i, k in enumerate(fields)}
        env.update({n: (n, t) for n, t in extra_params})
        rty_ = T.function(cx, gen, f.body, params, env, [], comment_of("tdms.py", cls_name, f))
        sigs.append("%s.%s" % (cls_name, f.name))
        return rty_, keys

    f = method(chan, "_raw_data_dtype", [])
    rty, _ = fn("TdmsChannel", f, "TdmsChannel_raw_data_dtype_gen", ["data_type", "_raw_timestamps"])
    if rty != XDT:
        die("_raw_data_dtype returns %r" % (rty,))
    sem.self_calls["_raw_data_dtype"] = ("TdmsChannel_raw_data_dtype_gen", ["data_type", "_raw_timestamps"], XDT)

    DT_KEYS = ["_scaling", "data_type", "_raw_timestamps", "scaler_data_types"]
    f = method(chan, "dtype", [], decos=["cached_property"])
    rty, _ = fn("TdmsChannel", f, "TdmsChannel_dtype_gen", DT_KEYS)
    if rty != XDT:
        die("dtype returns %r" % (rty,))
    sem.self_props["dtype"] = ("TdmsChannel_dtype_gen", DT_KEYS, XDT)

    f = method(chan, "__len__", [])
    rty, _ = fn("TdmsChannel", f, "TdmsChannel_len_gen", ["_length"])
    if rty != Z:
        die("__len__ returns %r" % (rty,))
    sem.self_calls["len"] = ("TdmsChannel_len_gen", ["_length"], Z)

    f = method(chan, "_scale_data", ["raw_data"])
    rty, _ = fn("TdmsChannel", f, "TdmsChannel_scale_data_gen", ["_scaling"], [("raw_data", ABSRAW)])
    if rty != PYRES:
        die("_scale_data returns %r" % (rty,))
    cx.callees["self._scale_data"] = ("TdmsChannel_scale_data_gen", [ABSRAW], PYRES, ["self._scaling"])

    f = method(chan, "data", [], decos=["cached_property"])
    rty, _ = fn("TdmsChannel", f, "TdmsChannel_data_gen", ["_length", "_raw_data"] + DT_KEYS)
    if rty != PYRES:
        die("data returns %r" % (rty,))

    # read_data: self._read_channel_data(offset, length) and slice_raw_data(raw, offset, length) are parameters
    f = [n for n in chan.body if isinstance(n, ast.FunctionDef) and n.name == "read_data"]
    if len(f) != 1 or [a.arg for a in f[0].args.args] != ["self", "offset", "length", "scaled"] \
            or [unp(d) for d in f[0].args.defaults] != ["0", "None", "True"] or f[0].decorator_list:
        die("signature of TdmsChannel.read_data")
    f = f[0]
    RCD_T = ("fun", (Z, OPT(Z)), OPT(ABSRAW))
    SRD_T = ("fun", (ABSRAW, Z, OPT(Z)), ABSRAW)

    def io_calls(e, env, h, cx_):
        s = unp(e.func)
        if s == "self._read_channel_data" and "read_channel_data__" in env and len(e.args) == 2 and not e.keywords:
            a, aty = T.ex(e.args[0], env, h, cx_)
            b, bty = T.ex(e.args[1], env, h, cx_)
            if aty != Z or bty != OPT(Z):
                T.fail(e, "_read_channel_data(%r, %r)" % (aty, bty))
            return sem.hoist(e, h, cx_, "read_channel_data__ %s %s" % (a, b)), OPT(ABSRAW)
        if s == "slice_raw_data" and "slice_raw_data__" in env and len(e.args) == 3 and not e.keywords:
            r, rty_ = T.ex(e.args[0], env, h, cx_)
            a, aty = T.ex(e.args[1], env, h, cx_)
            b, bty = T.ex(e.args[2], env, h, cx_)
            if rty_ != ABSRAW or aty != Z or bty != OPT(Z):
                T.fail(e, "slice_raw_data(%r, %r, %r)" % (rty_, aty, bty))
            return sem.hoist(e, h, cx_, "slice_raw_data__ %s %s %s" % (r, a, b)), ABSRAW
        return None
    sem.extra_calls.append(io_calls)
    rty, _ = fn("TdmsChannel", f, "TdmsChannel_read_data_gen", ["_raw_data"] + DT_KEYS,
                [("read_channel_data__", RCD_T), ("slice_raw_data__", SRD_T), ("offset", Z), ("length", OPT(Z)), ("scaled", B)])
    if rty != PYRES:
        die("read_data returns %r" % (rty,))

    # ---- tdms.py: ChannelDataChunk._data
    chunk = find_class(tree_t, "ChannelDataChunk")
    cinit = method(chunk, "__init__", ["channel", "raw_data_chunk", "offset"])
    got = {unp(s.targets[0]): unp(s.value) for s in cinit.body if isinstance(s, ast.Assign) and len(s.targets) == 1}
    if got.get("self._channel") != "channel" or got.get("self._raw_data") != "raw_data_chunk":
        die("ChannelDataChunk.__init__")
    CH_FIELDS = {"_raw_data": ABSRAW}
    for k in DT_KEYS:
        CH_FIELDS["_channel." + k] = FIELDS["self." + k]
    f = method(chunk, "_data", [])
    keys = ["_raw_data"] + ["_channel." + k for k in DT_KEYS]
    params = [(T.cname("self." + k), CH_FIELDS[k]) for k in keys]
    env = {"self." + k: (T.cname("self." + k), CH_FIELDS[k]) for k in keys}
    rty = T.function(cx, "ChannelDataChunk_data_gen", f.body, params, env, [], comment_of("tdms.py", "ChannelDataChunk", f))
    sigs.append("ChannelDataChunk._data")
    if rty != PYRES:
        die("ChannelDataChunk._data returns %r" % (rty,))
    return cx, sigs, tds


def header():
    return ("(* GENERATED by harness/gen/gen_pyfuncs_dtype.py from nptdms/scaling.py and nptdms/tdms.py -- do not edit.\n"
            "   Shallow monadic translation of the dtype logic (C14); see the script and harness/gen/dtype_sem.py for the\n"
            "   conventions. *)\n"
            "From Coq Require Import String.\n"
            "From Coq Require Import ZArith List Bool PrimFloat.\n"
            "Import ListNotations.\n"
            "From NpTdms Require Import Base.Res Base.PySlice Gen.NumpyPromote Gen.ThermoTables Gen.PyFuncsScaling Gen.PyFuncsScaleEval.\n"
            "From NpTdms Require Model.ScaleGraph Model.ScaleDtype.\n"
            "Local Open Scope Z_scope.\n\n")


def write_if_changed(path, text):
    old = None
    try:
        old = open(path).read()
    except OSError:
        pass
    if old != text:
        os.makedirs(os.path.dirname(path), exist_ok=True)
        tmp = path + ".tmp.%d" % os.getpid()
        with open(tmp, "w") as fh:
            fh.write(text)
        os.replace(tmp, path)
        print("%s: wrote %s" % (ME, os.path.relpath(path, VERIF)))
    else:
        print("%s: %s up to date" % (ME, os.path.relpath(path, VERIF)))


def main():
    try:
        cx, sigs, tds = translate()
    except T.Unsupported as e:
        die(str(e))
    text = header() + D.PRELUDE + "\n" + "\n\n".join(cx.defs) + "\n"
    import dtype_selftest
    st_text, counts = dtype_selftest.selftest(REPO, tds, die)
    write_if_changed(OUT, text)
    write_if_changed(OUT_TEST, st_text)
    print("%s: %d items translated; self-test cases: %s"
          % (ME, len(sigs), ", ".join("%s %d" % kv for kv in counts.items())))


if __name__ == "__main__":
    main()
