"""Shared helpers of the chunk-loop drivers (gen_pyfuncs_daqmxloop.py, gen_pyfuncs_lazyloop.py, gen_pyfuncs_eagerloop.py):
real npTDMS objects -> Gallina terms, for the self-tests that run the REAL code on real files.

Nothing here translates anything; it only prints what the real objects hold (public attributes of the segment objects
the real metadata pass built) so that the translated functions can be run on the same inputs inside Coq.
"""
import io
import os
import sys

import decode_sem as S

ERR = {"ValueError": "EValue", "TypeError": "EType", "AttributeError": "EOther", "IndexError": "EIndex",
       "KeyError": "EKey", "NotImplementedError": "ENotImpl", "error": "EStruct", "ZeroDivisionError": "EOther",
       "Exception": "EOther", "OverflowError": "EOther", "RuntimeError": "ERuntime", "EOFError": "EEof"}


def z(n):
    n = int(n)
    return "%d" % n if n >= 0 else "(%d)" % n


def hx(b):
    return "[" + ";".join("x%02x" % c for c in bytes(b)) + "]"


def clist(items):
    return "[" + "; ".join(items) + "]"


def copt(x, f):
    return "None" if x is None else "(Some %s)" % f(x)


def err_of(ex, die):
    for k in type(ex).__mro__:
        if k.__name__ in ERR:
            return ERR[k.__name__]
    die("self-test: unexpected exception %r" % (ex,))


def arr_term(a):
    import numpy as np
    a = np.asarray(a)
    if a.ndim != 1:
        raise ValueError("not 1-D")
    return "(mkArr %s %s)" % (S.dtype_term(a.dtype), hx(np.ascontiguousarray(a).tobytes()))


def pydata_term(d):
    """what a RawChannelDataChunk holds in .data: an array, or a list of str"""
    import numpy as np
    if isinstance(d, np.ndarray):
        return "(DArr %s)" % arr_term(d)
    return "(DStrs %s)" % clist([hx(s.encode("utf-8")) for s in d])


def rcdc_term(c):
    dt = "None" if c.data is None else "(Some %s)" % pydata_term(c.data)
    sd = "None" if c.scaler_data is None else "(Some %s)" % clist(
        ["(%s, %s)" % (z(k), arr_term(v)) for k, v in c.scaler_data.items()])
    return "(mkRcdc %s %s)" % (dt, sd)


def rawchunk_entries_term(chunk):
    return clist(["(%s, %s)" % (hx(path.encode("utf-8")), rcdc_term(c)) for path, c in chunk.channel_data.items()])


def sobj_term(o, die):
    """a real segment object (TdmsSegmentObject / DaqmxSegmentObject) as the model's sobj record"""
    from nptdms import daqmx, tdms_segment
    dt = "None" if o.data_type is None else "(Some %s)" % z(o.data_type.enum_value)
    dq = "None"
    if isinstance(o, daqmx.DaqmxSegmentObject):
        md = o.daqmx_metadata
        if md is not None:
            code_of = {c: k for k, c in daqmx.DAQMX_TYPES.items()}
            if len(code_of) != len(daqmx.DAQMX_TYPES):
                die("self-test: DAQMX_TYPES is not injective")
            kinds = set()
            scs = []
            for s in md.scalers:
                if type(s) is daqmx.DigitalLineScaler:
                    kinds.add(daqmx.DIGITAL_LINE_SCALER)
                    off = s.raw_bit_offset
                elif type(s) is daqmx.DaqMxScaler:
                    kinds.add(daqmx.FORMAT_CHANGING_SCALER)
                    off = s.raw_byte_offset
                else:
                    die("self-test: scaler class %r" % type(s))
                scs.append("mkScaler %s %s %s %s %s" % (z(code_of[s.data_type]), z(s.raw_buffer_index), z(off),
                                                        z(s.sample_format_bitmap), z(s.scale_id)))
            if len(kinds) > 1:
                die("self-test: mixed scaler classes in one object")
            kind = kinds.pop() if kinds else daqmx.FORMAT_CHANGING_SCALER
            dq = "(Some (mkDq %s %s %s))" % (z(kind), clist(scs), clist([z(w) for w in md.raw_data_widths]))
        else:
            die("self-test: DAQmx object without metadata")
    elif not isinstance(o, tdms_segment.TdmsSegmentObject):
        die("self-test: segment object class %r" % type(o))
    return "(mkSobj %s %s %s %s %s %s)" % (hx(o.path.encode("utf-8")), "true" if o.has_data else "false",
                                           z(o.number_values), z(o.data_size), dt, dq)


def segment_term(seg, die):
    """a real TdmsSegment as the model's segment record (object_index in the order of ordered_objects)"""
    objs = clist([sobj_term(o, die) for o in seg.ordered_objects])
    idx = clist(["(%s, %d%%nat)" % (hx(p.encode("utf-8")), i) for p, i in (seg.object_index or {}).items()])
    fin = "None" if seg.final_chunk_lengths_override is None else "(Some %s)" % clist(
        ["(%s, %s)" % (hx(p.encode("utf-8")), z(v)) for p, v in seg.final_chunk_lengths_override.items()])
    return "(mkSeg %s %s %s %s %s %s %s %s %s)" % (
        z(seg.position), z(seg.toc_mask), z(seg.next_segment_pos), z(seg.data_position),
        "true" if seg.segment_incomplete else "false", objs, idx, z(seg.num_chunks), fin)


def open_reader(data, repo):
    """the real reader on a real in-memory file, metadata read with segment indexes (as TdmsFile.open does)"""
    sys.path.insert(0, repo)
    from nptdms import reader as R
    f = io.BytesIO(data)
    rd = R.TdmsReader(f)
    rd.read_metadata(require_segment_indexes=True)
    return rd, f


def harness_path():
    return os.path.join(os.path.dirname(os.path.dirname(os.path.abspath(__file__))))
