"""Semantic hooks for gen_pyfuncs_decode.py: what the Python / struct / NumPy constructs of npTDMS's data
decoding path mean in the Gallina of decode_prelude.py.  Installed on top of py2gallina / np_sem WITHOUT
modifying them (subclass of NpSem, hook lists, in-process wrapping of three helper functions of py2gallina:
assigned_keys, join_ty -- the originals are called first / for everything else).

Types of the translated fragment (py2gallina type tuples):
  CLS      a TdmsType class (its enum_value)            ENDIAN  the endianness string '<' / '>'
  FILE     a file object read sequentially               PFILE   a file object used with tell() / seek()
  SVAL     a value unpacked by struct of a format that is not statically an integer format
  PYSTR    a str (UTF-8 bytes)                           CSTR    a str constant of the source (struct codes)
  NPDT     a NumPy dtype    NPARR / NPARR2  1-D / 2-D array      DYN  what read_values returns (array or list of str)
  RCDC / RDC   RawChannelDataChunk / RawDataChunk
"""
import ast

import py2gallina as T
from py2gallina import Z, B, NONE, BYTES, OPT, LIST, TUP, REC, fail, ex, need, key_of
import np_sem as N

CLS, SOBJ = REC("tdcls"), REC("sobj")
NPDT, NPARR, NPARR2 = REC("npdtype"), REC("nparr"), REC("nparr2")
ENDIAN = ("enum", "endian")
FILE, PFILE = ("tyvar", "pyfile"), ("tyvar", "posfile")
SVAL, PYVAL, TS = ("tyvar", "sval"), ("tyvar", "pyval"), ("tyvar", "pyts")
PYSTR, CSTR = ("pystr",), ("cstr",)
FMT = ("tyvar", "(endian * string)")
DYN = ("tyvar", "pydata")
RCDC, RDC = REC("rcdc"), REC("rawchunk")
SCALERS = ("tyvar", "(list (Z * nparr))")
CHAN = REC("channel")


def ZDICT(v):
    return ("zdict", v)


RLIST, RNUMPY, RDAQ, RTS, RECV = (("tyvar", n) for n in ("list_receiver", "numpy_receiver", "daqmx_receiver",
                                                       "timestamp_receiver", "receiver"))
ASDT = ("tyvar", "(nparr -> res nparr)")

INT_CODES = set("bBhHlLiIqQ")


def unp(n):
    return ast.unparse(n)


class Sem(N.NpSem):
    """NumPy / struct / file semantics of the decoding path"""

    def __init__(self, drv):
        super().__init__()
        self.drv = drv                      # the driver: reflected class facts, translated method table
        self.filevars = set()               # names of the file-object variables of the function being translated
        self.local_types = {}               # local variable -> declared type of an empty literal ({} / [])
        self.attr_types = {}                # attribute of self -> declared type of its empty literal
        self.aliases = {}                   # local name -> (dict attribute key, key variable) it aliases
        self.extra_calls.append(self.calls)
        self.extra_compare.append(self.compares)
        self.extra_statements.append(self.statements)

    # ---- operators --------------------------------------------------------------------------------
    def binop(self, e, lt, lty, rt, rty, h, cx):
        # endianness + 'Qq' : a struct format
        if isinstance(e.op, ast.Add) and lty == ENDIAN and rty == CSTR:
            return "(%s, %s)" % (lt, rt), FMT
        return super().binop(e, lt, lty, rt, rty, h, cx)

    def compares(self, e, env, h, cx):
        if len(e.ops) != 1 or not isinstance(e.ops[0], (ast.Eq, ast.NotEq)):
            return None
        c = e.comparators[0]
        # endianness == "<"
        if isinstance(c, ast.Constant) and c.value in ("<", ">"):
            lt, lty = ex(e.left, env, h, cx)
            if lty != ENDIAN:
                fail(e, "comparison of %r with a byte order character" % (lty,))
            t = "(match %s with %s => true | %s => false end)" % ((lt, "LE", "BE") if c.value == "<" else (lt, "BE", "LE"))
            return ("(negb %s)" % t if isinstance(e.ops[0], ast.NotEq) else t), B
        # obj.data_type == types.String
        k = self.drv.class_const(c)
        if k is not None:
            lt, lty = ex(e.left, env, h, cx)
            if lty == OPT(CLS):             # None == <class> is False
                t = "(match %s with Some c__ => c__ =? %s | None => false end)" % (lt, k)
            elif lty == CLS:
                t = "(%s =? %s)" % (lt, k)
            else:
                fail(e, "comparison of %r with a class" % (lty,))
            return ("(negb %s)" % t if isinstance(e.ops[0], ast.NotEq) else t), B
        return None

    # ---- helpers ----------------------------------------------------------------------------------
    def as_int(self, a, env, h, cx):
        """an argument used as an int (file.read(n), a count): ints, optional ints (None: TypeError), struct values"""
        t, ty = ex(a, env, h, cx)
        t, ty = need(t, ty, "int", "EType", h, a)
        if ty == SVAL:
            return self.hoist(a, h, cx, "sval_as_int %s" % t)
        if ty != Z:
            fail(a, "integer expected, found %r" % (ty,))
        return t

    def file_of(self, node, env):
        k = key_of(node)
        if k in env and env[k][1] in (FILE, PFILE) and k in self.filevars:
            return k
        return None

    def hoist_file(self, node, h, cx, env, fk, term):
        """a call that advances the file: do '(v, <file>) <- term"""
        if h is None:
            fail(node, "file read inside a short-circuit/lambda context")
        v = cx.tmp()
        h.pre.append(("'(%s, %s)" % (v, env[fk][0]), term))
        return v

    def args_of(self, e, names, defaults):
        """positional + keyword arguments of a call resolved against parameter names -> list of nodes / default terms"""
        if len(e.args) > len(names):
            fail(e, "too many arguments")
        got = dict(zip(names, e.args))
        for kw in e.keywords:
            if kw.arg is None or kw.arg not in names or kw.arg in got:
                fail(e, "keyword argument %r" % (kw.arg,))
            got[kw.arg] = kw.value
        out = []
        for n in names:
            if n in got:
                out.append(got[n])
            elif n in defaults:
                out.append(("default", defaults[n]))
            else:
                fail(e, "missing argument %s" % n)
        return out

    def call_translated(self, e, ent, recv_terms, arg_nodes, env, h, cx):
        """call of a translated function `ent` (driver table entry): receiver terms, then the arguments"""
        names = [p[0] for p in ent["params"]]
        nodes = self.args_of(ast.Call(func=e.func, args=arg_nodes, keywords=e.keywords), names, ent.get("defaults", {}))
        terms, fk, bridge = list(recv_terms), None, False
        for (pn, pty), a in zip(ent["params"], nodes):
            if isinstance(a, tuple):
                terms.append(a[1])
                continue
            if pty in (FILE, PFILE):
                fk = self.file_of(a, env)
                if fk is None:
                    fail(e, "file argument of %s" % ent["fn"])
                if env[fk][1] == PFILE and pty == FILE:
                    bridge = True           # a sequential reader run at the position of a positioned file (pf_run)
                    terms.append("cur__")
                    continue
                if env[fk][1] != pty:
                    fail(e, "file argument of %s" % ent["fn"])
                terms.append(env[fk][0])
                continue
            if pty == NPDT:
                terms.append(self.as_dtype(a, env, h, cx))
                continue
            if pty == Z:
                terms.append(self.as_int(a, env, h, cx))
                continue
            t, ty = ex(a, env, h, cx)
            if ty[0] == "opt" and ty[1] == pty:
                t, ty = need(t, ty, "value", "EType", h, a)
            if ty != pty:
                t = T.coerce(t, ty, pty)
            terms.append(t)
        call = "%s %s" % (ent["fn"], " ".join(terms))
        if bridge:
            call = "pf_run (fun cur__ => %s) %s" % (call, env[fk][0])
        if ent.get("pure"):
            return "(%s)" % call, ent["rty"]
        if fk is not None:
            v = self.hoist_file(e, h, cx, env, fk, call)
        else:
            v = self.hoist(e, h, cx, call)
        rty = ent["rty"]
        post = ent.get("post")
        if post is not None:                # a conversion decided by reflected facts (an integer struct code)
            v = self.hoist(e, h, cx, "%s %s" % (post[0], v))
            rty = post[1]
        return v, rty

    # ---- calls ------------------------------------------------------------------------------------
    def calls(self, e, env, h, cx):
        f = e.func
        drv = self.drv
        # ---- file objects
        if isinstance(f, ast.Attribute) and f.attr == "read" and self.file_of(f.value, env) and not e.keywords \
                and len(e.args) == 1:
            fk = self.file_of(f.value, env)
            if env[fk][1] != FILE:
                fail(e, "read() on a positioned file")
            n = self.as_int(e.args[0], env, h, cx)
            return self.hoist_file(e, h, cx, env, fk, "py_read %s %s" % (env[fk][0], n)), BYTES
        if isinstance(f, ast.Attribute) and f.attr == "tell" and self.file_of(f.value, env) and not e.args and not e.keywords:
            fk = self.file_of(f.value, env)
            if env[fk][1] != PFILE:
                fail(e, "tell() on a sequential file")
            return "(pf_tell %s)" % env[fk][0], Z
        # ---- struct
        if isinstance(f, ast.Name) and f.id == "_struct_unpack" and len(e.args) == 2 and not e.keywords:
            if not drv.struct_unpack_alias(self.module):
                fail(e, "_struct_unpack is not struct.unpack in this module")
            ft, fty = ex(e.args[0], env, h, cx)
            dt, dty = ex(e.args[1], env, h, cx)
            if fty != FMT or dty != BYTES:
                fail(e, "_struct_unpack of %r, %r" % (fty, dty))
            a0 = e.args[0]
            lit = a0.right.value if isinstance(a0, ast.BinOp) and isinstance(a0.right, ast.Constant) \
                and isinstance(a0.right.value, str) else None
            if lit is not None and lit and set(lit) <= INT_CODES:       # statically an integer format
                return self.hoist(e, h, cx, "py_struct_unpack_int %s %s" % (ft, dt)), LIST(Z)
            return self.hoist(e, h, cx, "py_struct_unpack %s %s" % (ft, dt)), LIST(SVAL)
        if isinstance(f, ast.Name) and f.id == "bool" and len(e.args) == 1 and not e.keywords:
            t, ty = ex(e.args[0], env, h, cx)
            if ty == SVAL:
                return "(sval_truth %s)" % t, B
            fail(e, "bool() of %r" % (ty,))
        # ---- bytes.decode
        if isinstance(f, ast.Attribute) and f.attr == "decode" and len(e.args) == 1 \
                and isinstance(e.args[0], ast.Constant) and e.args[0].value == "utf-8":
            t, ty = ex(f.value, env, h, cx)
            if ty != BYTES:
                fail(e, "decode of %r" % (ty,))
            kws = {k.arg: k.value for k in e.keywords}
            if not kws:
                return self.hoist(e, h, cx, "py_decode_utf8 %s" % t), PYSTR
            if list(kws) == ["errors"] and isinstance(kws["errors"], ast.Constant) and kws["errors"].value == "replace":
                return self.hoist(e, h, cx, "py_decode_utf8_replace %s" % t), PYSTR
            fail(e, "decode keywords")
        # ---- constructors of value objects
        if isinstance(f, ast.Name) and f.id in drv.constructors and not e.keywords:
            cons, fields = drv.constructors[f.id]
            if len(e.args) != len(fields):
                fail(e, "arity of %s(..)" % f.id)
            ts = []
            for a, (fname, fty) in zip(e.args, fields):
                t, ty = ex(a, env, h, cx)
                if ty != fty and fty[0] == "opt" and ty != NONE and ty[0] != "opt":
                    t, ty = "(Some %s)" % (T.coerce(t, ty, fty[1]) if ty != fty[1] else t), fty
                ts.append(T.coerce(t, ty, fty) if ty != fty else t)
            return "(%s %s)" % (cons, " ".join(ts)), drv.constructor_type[f.id]
        # ---- methods resolved through the classes (static receiver, dynamic receiver, super())
        r = drv.method_call(self, e, env, h, cx)
        if r is not None:
            return r
        # ---- NumPy
        r = self.numpy_calls(e, env, h, cx)
        if r is not None:
            return r
        return None

    def dtype_literal(self, node):
        """a dtype given literally in the source -> Gallina term (evaluated with the installed NumPy)"""
        import numpy as np
        try:
            if isinstance(node, ast.Attribute) and isinstance(node.value, ast.Name) and node.value.id == "np":
                d = np.dtype(getattr(np, node.attr))
            else:
                d = np.dtype(ast.literal_eval(node))
        except Exception:                                   # noqa: BLE001
            return None
        return dtype_term(d)

    def as_dtype(self, node, env, h, cx):
        lit = self.dtype_literal(node)
        if lit is not None:
            return lit
        t, ty = ex(node, env, h, cx)
        if ty == OPT(NPDT):
            if node_is_param_none_ok(node, env):
                return "(np_dtype_or_default %s)" % t       # dtype=None: NumPy's default dtype
            t, ty = need(t, ty, "dtype", "EType", h, node)
        if ty != NPDT:
            fail(node, "dtype expected, found %r" % (ty,))
        return t

    def numpy_calls(self, e, env, h, cx):
        f = e.func
        isnp = N.NpSem.is_np
        if isnp(f, "dtype") and len(e.args) == 1 and not e.keywords:
            return self.as_dtype(e.args[0], env, h, cx), NPDT
        if isnp(f, "zeros") and len(e.args) == 1 and [k.arg for k in e.keywords] == ["dtype"]:
            n = self.as_int(e.args[0], env, h, cx)
            d = self.as_dtype(e.keywords[0].value, env, h, cx)
            return self.hoist(e, h, cx, "np_zeros %s %s" % (n, d)), NPARR
        # np.memmap(<temporary file>.file, mode='w+', shape=(n,), dtype=d): a new zero-filled array
        if isnp(f, "memmap") and len(e.args) == 1 and sorted(k.arg for k in e.keywords) == ["dtype", "mode", "shape"]:
            kw = {k.arg: k.value for k in e.keywords}
            a0 = e.args[0]
            if not (isinstance(a0, ast.Attribute) and a0.attr == "file" and isinstance(a0.value, ast.Name)
                    and env.get(a0.value.id, (None, None))[1] == ("opaque",) and unp(kw["mode"]) == "'w+'"
                    and isinstance(kw["shape"], ast.Tuple) and len(kw["shape"].elts) == 1):
                fail(e, "np.memmap (only a new 1-D 'w+' map of a temporary file)")
            n = self.as_int(kw["shape"].elts[0], env, h, cx)
            d = self.as_dtype(kw["dtype"], env, h, cx)
            return self.hoist(e, h, cx, "np_memmap_new %s %s" % (n, d)), NPARR
        if isinstance(f, ast.Attribute) and f.attr == "items" and not e.args and not e.keywords:
            try:
                t, ty = ex(f.value, env, h, cx)
            except T.Unsupported:
                t, ty = None, None
            if ty is not None and ty[0] == "opt" and ty[1][0] == "zdict":
                t, ty = need(t, ty, "dict", "EOther", h, e)         # None.items(): AttributeError
            if ty is not None and ty[0] == "zdict":
                return t, LIST(TUP(Z, ty[1]))
            return None
        if isinstance(f, ast.Attribute) and f.attr == "as_datetime64" and not e.args and not e.keywords \
                and "<as_datetime64>" in env:
            t, ty = ex(f.value, env, h, cx)
            if ty != NPARR:
                fail(e, "as_datetime64 of %r" % (ty,))
            return self.hoist(e, h, cx, "%s %s" % (env["<as_datetime64>"][0], t)), NPARR
        if isnp(f, "zeros") and len(e.args) == 2 and not e.keywords:
            n = self.as_int(e.args[0], env, h, cx)
            d = self.as_dtype(e.args[1], env, h, cx)
            return self.hoist(e, h, cx, "np_zeros %s %s" % (n, d)), NPARR
        if isinstance(f, ast.Name) and f.id == "TimestampArray" and len(e.args) == 1 and not e.keywords:
            t, ty = ex(e.args[0], env, h, cx)
            if ty != NPARR:
                fail(e, "TimestampArray of %r" % (ty,))
            return self.hoist(e, h, cx, "py_timestamp_array %s" % t), NPARR
        if isinstance(f, ast.Name) and f.id == "tuple" and len(e.args) == 1 and not e.keywords:
            t, ty = ex(e.args[0], env, h, cx)
            if ty != LIST(Z):
                fail(e, "tuple() of %r" % (ty,))
            return t, LIST(Z)
        if isinstance(f, ast.Name) and f.id == "len" and len(e.args) == 1 and not e.keywords \
                and isinstance(e.args[0], ast.Call) and isinstance(e.args[0].func, ast.Name) and e.args[0].func.id == "set" \
                and len(e.args[0].args) == 1 and isinstance(e.args[0].args[0], ast.GeneratorExp):
            g = e.args[0].args[0]
            it, pat, inner = T.genexp(g, env, h, cx)
            b = T.as_int(g.elt, inner, None, cx)
            return "(zlen (dedup_z (List.map %s %s)))" % (T.lam(pat, b), it), Z
        if isinstance(f, ast.Name) and f.id == "len" and len(e.args) == 1 and not e.keywords:
            k0 = key_of(e.args[0])
            if k0 in env and env[k0][1] == NPARR:
                return "(np_len %s)" % env[k0][0], Z
            if k0 in env and env[k0][1] == DYN:
                return "(pydata_len %s)" % env[k0][0], Z
            return None
        if isinstance(f, ast.Name) and f.id == "sum" and len(e.args) == 1 and isinstance(e.args[0], ast.GeneratorExp) \
                and not e.keywords:
            g = e.args[0]
            it, pat, inner = T.genexp(g, env, h, cx)
            b, bty = self.pure_opt(g.elt, inner, cx)
            if bty == OPT(Z):
                return self.hoist(e, h, cx, "py_sum_opt (List.map %s %s)" % (T.lam(pat, b), it)), Z
            return None
        if not isinstance(f, ast.Attribute):
            return None
        m = f.attr
        if m == "newbyteorder" and len(e.args) == 1 and not e.keywords:
            t, ty = ex(f.value, env, h, cx)
            t, ty = need(t, ty, "dtype", "EOther", h, e)         # None.newbyteorder: AttributeError
            a, aty = ex(e.args[0], env, h, cx)
            if ty != NPDT or aty != ENDIAN:
                fail(e, "newbyteorder of %r with %r" % (ty, aty))
            return "(np_newbyteorder %s %s)" % (t, a), NPDT
        if m in ("view", "reshape", "ravel") and not e.keywords:
            t, ty = ex(f.value, env, h, cx)
            if ty not in (NPARR, NPARR2):
                return None
            if m == "view" and not e.args and ty == NPARR:
                return t, NPARR                                     # a new view of the same memory
            if m == "view" and len(e.args) == 1 and ty == NPARR:
                d = self.as_dtype(e.args[0], env, h, cx)
                return self.hoist(e, h, cx, "np_set_dtype %s %s" % (t, d)), NPARR
            if m == "view" and len(e.args) == 1 and ty == NPARR2:
                d = self.as_dtype(e.args[0], env, h, cx)
                return self.hoist(e, h, cx, "np2_view %s %s" % (t, d)), NPARR2
            if m == "ravel" and not e.args and ty == NPARR2:
                return "(np2_flatten %s)" % t, NPARR
            if m == "reshape":
                shape = e.args[0].elts if len(e.args) == 1 and isinstance(e.args[0], ast.Tuple) else e.args
                if len(shape) == 1 and unp(shape[0]) == "-1" and ty == NPARR2:
                    return "(np2_flatten %s)" % t, NPARR
                if len(shape) == 2 and unp(shape[0]) == "-1" and ty == NPARR:
                    k = self.as_int(shape[1], env, h, cx)
                    return self.hoist(e, h, cx, "np_reshape2 %s %s" % (t, k)), NPARR2
            fail(e, "array method")
        return None

    def pure_opt(self, node, env, cx):
        """an expression in a lambda context whose value may be None (o.data_type.size with a data type that is set
        or not): no hoisting -- an absent data type reads as None"""
        if isinstance(node, ast.Attribute) and unp(node).endswith(".data_type.size"):
            bt, bty = ex(node.value.value, env, None, cx)
            if bty == SOBJ:
                return "(match so_dtype %s with Some c__ => dec_cls_size c__ | None => None end)" % bt, OPT(Z)
        return ex(node, env, None, cx)

    # ---- subscripts -------------------------------------------------------------------------------
    def subscript(self, e, env, h, cx):
        v = unp(e.value)
        # types.tds_data_types[k]
        if v in ("types.tds_data_types", "tds_data_types"):
            k = self.as_int(e.slice, env, h, cx)
            return self.hoist(e, h, cx, "need EKey (dec_tds_lookup %s)" % k), CLS
        # a.shape[0]
        if isinstance(e.value, ast.Attribute) and e.value.attr == "shape" and isinstance(e.slice, ast.Constant) \
                and e.slice.value == 0:
            t, ty = ex(e.value.value, env, h, cx)
            if ty == NPARR:
                return "(np_len %s)" % t, Z
            if ty == NPARR2:
                return "(np2_rows %s)" % t, Z
            fail(e, "shape of %r" % (ty,))
        k0 = key_of(e.value)
        if k0 in env and env[k0][1][0] == "zdict" and not isinstance(e.slice, ast.Slice):
            k = self.as_int(e.slice, env, h, cx)
            return self.hoist(e, h, cx, "need EKey (zlookup %s %s)" % (k, env[k0][0])), env[k0][1][1]
        if k0 in env and env[k0][1] in (NPARR, NPARR2):
            t, ty = env[k0]
            sl = e.slice
            # a[lo:hi] of a 1-D array
            if ty == NPARR and isinstance(sl, ast.Slice) and sl.step is None:
                lo = self.as_int(sl.lower, env, h, cx) if sl.lower is not None else "0"
                if sl.upper is None:
                    return "(np_slice %s %s (np_len %s))" % (t, lo, t), NPARR
                hi = self.as_int(sl.upper, env, h, cx)
                return "(np_slice %s %s %s)" % (t, lo, hi), NPARR
            # a[:, cols]
            if ty == NPARR2 and isinstance(sl, ast.Tuple) and len(sl.elts) == 2 and isinstance(sl.elts[0], ast.Slice) \
                    and sl.elts[0].lower is None and sl.elts[0].upper is None and sl.elts[0].step is None:
                c, cty = ex(sl.elts[1], env, h, cx)
                if cty != LIST(Z):
                    fail(e, "column selection by %r" % (cty,))
                return self.hoist(e, h, cx, "np2_take_columns %s %s" % (t, c)), NPARR2
            # a['field']
            if ty == NPARR and isinstance(sl, ast.Constant) and isinstance(sl.value, str):
                return self.hoist(e, h, cx, 'np_field %s "%s"%%string' % (t, sl.value)), NPARR
            fail(e, "array subscript")
        return super().subscript(e, env, h, cx)

    # ---- statements -------------------------------------------------------------------------------
    def statements(self, s, rest, env, K, sc, cx):
        r = self.receiver_statements(s, rest, env, K, sc, cx)
        if r is not None:
            return r
        # X = {}: a dict whose value type is fixed by the first item stored in it
        if isinstance(s, ast.Assign) and len(s.targets) == 1 and isinstance(s.targets[0], ast.Name) \
                and isinstance(s.value, ast.Dict) and not s.value.keys:
            n = s.targets[0].id
            env2 = dict(env)
            env2[n] = (T.cname(n), ("adict", None))
            return "let %s := [] in\n" % T.cname(n) + T.block(rest, env2, K, sc, cx)
        # X[k] = v, the first item of such a dict (chunk data -- an array or a list of str -- is stored as pydata)
        if isinstance(s, ast.Assign) and len(s.targets) == 1 and isinstance(s.targets[0], ast.Subscript) \
                and isinstance(s.targets[0].value, ast.Name) and s.targets[0].value.id in env \
                and env[s.targets[0].value.id][1] == ("adict", None):
            n = s.targets[0].value.id
            h = T.Hoist()
            t, ty = ex(s.value, env, h, cx)
            vty = DYN if ty in (NPARR, LIST(PYSTR), DYN) else ty
            kt, kty = ex(s.targets[0].slice, env, h, cx)
            if kty != BYTES:
                fail(s, "dict key of type %r" % (kty,))
            env2 = dict(env)
            env2[n] = (T.cname(n), ("adict", vty))
            return T.wrap(h.pre, "let %s := aset %s %s %s in\n" % (T.cname(n), kt, T.coerce(t, ty, vty) if ty != vty else t, env[n][0])) \
                + T.block(rest, env2, K, sc, cx)
        # (a, b) = <sequence>
        if isinstance(s, ast.Assign) and len(s.targets) == 1 and isinstance(s.targets[0], ast.Tuple) \
                and len(s.targets[0].elts) == 2 and all(isinstance(x, ast.Name) for x in s.targets[0].elts):
            h = T.Hoist()
            t, ty = ex(s.value, env, h, cx)
            if ty[0] == "list" and ty[1] is not None:
                a, b = [T.cname(x.id) for x in s.targets[0].elts]
                env2 = dict(env)
                env2[s.targets[0].elts[0].id] = (a, ty[1])
                env2[s.targets[0].elts[1].id] = (b, ty[1])
                return T.wrap(h.pre, "do '(%s, %s) <- py_unpack2 %s;\n" % (a, b, t)) + T.block(rest, env2, K, sc, cx)
            return None
        # a.dtype = d   (a local array)
        if isinstance(s, ast.Assign) and len(s.targets) == 1 and isinstance(s.targets[0], ast.Attribute) \
                and s.targets[0].attr == "dtype" and isinstance(s.targets[0].value, ast.Name) \
                and s.targets[0].value.id in env and env[s.targets[0].value.id][1] == NPARR:
            n = s.targets[0].value.id
            h = T.Hoist()
            d = self.as_dtype(s.value, env, h, cx)
            env2 = dict(env)
            env2[n] = (T.cname(n), NPARR)
            return T.wrap(h.pre, "do %s <- np_set_dtype %s %s;\n" % (T.cname(n), env[n][0], d)) + T.block(rest, env2, K, sc, cx)
        # file.seek(p)
        if isinstance(s, ast.Expr) and isinstance(s.value, ast.Call) and isinstance(s.value.func, ast.Attribute) \
                and s.value.func.attr == "seek" and self.file_of(s.value.func.value, env) and len(s.value.args) == 1 \
                and not s.value.keywords:
            fk = self.file_of(s.value.func.value, env)
            if env[fk][1] != PFILE:
                fail(s, "seek() on a sequential file")
            h = T.Hoist()
            p = self.as_int(s.value.args[0], env, h, cx)
            return T.wrap(h.pre, "do %s <- pf_seek %s %s;\n" % (env[fk][0], env[fk][0], p)) + T.block(rest, env, K, sc, cx)
        # return [<call of a translated function> for x in L]: the calls in order (mapM)
        if isinstance(s, ast.Return) and isinstance(s.value, ast.ListComp) and len(s.value.generators) == 1 \
                and not s.value.generators[0].ifs and isinstance(s.value.elt, ast.Call) and sc.ret is not None and not sc.nojump:
            g = s.value.generators[0]
            h = T.Hoist()
            lt, lty = ex(g.iter, env, h, cx)
            if lty[0] != "list" or not isinstance(g.target, ast.Name):
                fail(s, "list comprehension over %r" % (lty,))
            inner = dict(env)
            inner[g.target.id] = (T.cname(g.target.id), lty[1])
            hh = T.Hoist()
            t, ty = ex(s.value.elt, inner, hh, cx)
            if not hh.pre:
                return None
            env2 = dict(env)
            env2["<lc>"] = ("lc__", LIST(ty))
            body = T.wrap(hh.pre, "Ok %s" % t).replace("\n", " ")
            return T.wrap(h.pre, "do lc__ <- mapM (fun %s => %s) %s;\n" % (T.cname(g.target.id), body, lt)) \
                + sc.ret(env2, ast.Name(id="<lc>", ctx=ast.Load()))
        # try: <returns> except UnicodeDecodeError [as exc]: <log>; <returns>
        if isinstance(s, ast.Try):
            return self.try_stmt(s, rest, env, K, sc, cx)
        # the read loop of fromfile:  N = -1; OFF = 0; while N != 0: N = FILE.readinto(BUF[OFF:]); OFF += N
        if isinstance(s, ast.Assign) and len(s.targets) == 1 and isinstance(s.targets[0], ast.Name) and unp(s.value) == "-1" \
                and len(rest) >= 2 and isinstance(rest[1], ast.While):
            nv, w = s.targets[0].id, rest[1]
            ok = (isinstance(rest[0], ast.Assign) and len(rest[0].targets) == 1 and isinstance(rest[0].targets[0], ast.Name)
                  and unp(rest[0].value) == "0" and not w.orelse and len(w.body) == 2 and unp(w.test) == "%s != 0" % nv)
            if ok:
                ov = rest[0].targets[0].id
                a, b = w.body
                ok = (isinstance(a, ast.Assign) and unp(a.targets[0]) == nv and isinstance(a.value, ast.Call)
                      and isinstance(a.value.func, ast.Attribute) and a.value.func.attr == "readinto"
                      and isinstance(a.value.func.value, ast.Name) and len(a.value.args) == 1 and not a.value.keywords
                      and isinstance(a.value.args[0], ast.Subscript) and isinstance(a.value.args[0].value, ast.Name)
                      and unp(a.value.args[0]) == "%s[%s:]" % (a.value.args[0].value.id, ov)
                      and unp(b) == "%s += %s" % (ov, nv) and ov != nv)
            if not ok:
                fail(rest[1], "unsupported while loop (only the read-until-empty loop of fromfile)")
            fk, bv = a.value.func.value.id, a.value.args[0].value.id
            if fk not in self.filevars or fk not in env or env[fk][1] != FILE or bv not in env or env[bv][1] != NPARR:
                fail(w, "the read loop does not read a sequential file into an array")
            for later in rest[2:]:
                for n in ast.walk(later):
                    if isinstance(n, ast.Name) and n.id == nv:
                        fail(later, "%s is used after the read loop" % nv)
            fv = env[fk][0]
            env2 = dict(env)
            env2[ov] = (T.cname(ov), Z)
            env2[bv] = (T.cname(bv), NPARR)
            return ("do '(%s, %s, %s) <- py_readinto_all %s %s;\n" % (T.cname(bv), T.cname(ov), fv, fv, env[bv][0])) \
                + T.block(rest[2:], env2, K, sc, cx)
        # X = {k: v for (k, d) in D.items()}
        if isinstance(s, ast.Assign) and len(s.targets) == 1 and isinstance(s.targets[0], ast.Name) \
                and isinstance(s.value, ast.DictComp):
            dc = s.value
            g = dc.generators
            if len(g) == 1 and not g[0].ifs and not g[0].is_async and isinstance(g[0].iter, ast.Call) \
                    and isinstance(g[0].iter.func, ast.Attribute) and g[0].iter.func.attr == "items" and not g[0].iter.args \
                    and isinstance(g[0].target, ast.Tuple) and len(g[0].target.elts) == 2 \
                    and all(isinstance(x, ast.Name) for x in g[0].target.elts) and unp(dc.key) == g[0].target.elts[0].id:
                d, dty = ex(g[0].iter.func.value, env, None, cx)
                if dty[0] != "adict":
                    fail(s, "dict comprehension over %r" % (dty,))
                kn, vn = [T.cname(x.id) for x in g[0].target.elts]
                inner = dict(env)
                inner[g[0].target.elts[0].id] = (kn, BYTES)
                inner[g[0].target.elts[1].id] = (vn, dty[1])
                v, vty = ex(dc.value, inner, None, cx)
                n = s.targets[0].id
                env2 = dict(env)
                env2[n] = (T.cname(n), ("adict", vty))
                return "let %s := List.map (fun '(%s, %s) => (%s, %s)) %s in\n" % (T.cname(n), kn, vn, kn, v, d) \
                    + T.block(rest, env2, K, sc, cx)
            fail(s, "dict comprehension shape")
        return None

    def receiver_statements(self, s, rest, env, K, sc, cx):
        """channel_data.py: attributes with declared container types, int-keyed dicts, slice assignment into arrays"""
        tgt = s.targets[0] if isinstance(s, ast.Assign) and len(s.targets) == 1 else (s.target if isinstance(s, ast.AugAssign) else None)
        if tgt is None:
            return None
        # self.X = {} / [] with the declared type of attribute X
        k = key_of(tgt)
        if isinstance(s, ast.Assign) and k is not None and k.startswith("self.") and k[5:] in self.attr_types \
                and isinstance(s.value, (ast.Dict, ast.List)) and not (s.value.keys if isinstance(s.value, ast.Dict) else s.value.elts):
            env2 = dict(env)
            env2[k] = (T.cname(k), self.attr_types[k[5:]])
            return "let %s := [] in\n" % T.cname(k) + T.block(rest, env2, K, sc, cx)
        # memmap_file = tempfile.NamedTemporaryFile(..): a new temporary file, used only as the target of np.memmap
        if isinstance(s, ast.Assign) and isinstance(tgt, ast.Name) and isinstance(s.value, ast.Call) \
                and unp(s.value.func) == "tempfile.NamedTemporaryFile":
            env2 = dict(env)
            env2[tgt.id] = ("tt", ("opaque",))
            return T.block(rest, env2, K, sc, cx)
        if not isinstance(tgt, ast.Subscript):
            # X = self.D[k]: X is the SAME array object as the dict's item (a later X[a:b] = v changes the item)
            if isinstance(s, ast.Assign) and isinstance(tgt, ast.Name) and isinstance(s.value, ast.Subscript) \
                    and key_of(s.value.value) in env and env[key_of(s.value.value)][1] == ZDICT(NPARR) \
                    and isinstance(s.value.slice, ast.Name):
                self.aliases[tgt.id] = (key_of(s.value.value), s.value.slice.id)
            return None
        k0 = key_of(tgt.value)
        # D[k] = v / D[k] += v on an int-keyed dict
        if k0 in env and env[k0][1][0] == "zdict":
            h = T.Hoist()
            kt = self.as_int(tgt.slice, env, h, cx)
            d, dty = env[k0]
            if isinstance(s, ast.AugAssign):
                if not isinstance(s.op, ast.Add) or dty[1] != Z:
                    fail(s, "augmented assignment into a dict")
                old = self.hoist(s, h, cx, "need EKey (zlookup %s %s)" % (kt, d))
                v = "(%s + %s)" % (old, self.as_int(s.value, env, h, cx))
            else:
                v, vty = ex(s.value, env, h, cx)
                if vty != dty[1]:
                    v = T.coerce(v, vty, dty[1])
            env2 = dict(env)
            env2[k0] = (T.cname(k0), dty)
            return T.wrap(h.pre, "let %s := zset %s %s %s in\n" % (T.cname(k0), kt, v, d)) + T.block(rest, env2, K, sc, cx)
        # A[lo:hi] = v on an array (a local name or a self attribute)
        if isinstance(s, ast.Assign) and k0 in env and env[k0][1] == NPARR and isinstance(tgt.slice, ast.Slice) \
                and tgt.slice.step is None and tgt.slice.lower is not None and tgt.slice.upper is not None:
            h = T.Hoist()
            lo = self.as_int(tgt.slice.lower, env, h, cx)
            hi = self.as_int(tgt.slice.upper, env, h, cx)
            v, vty = ex(s.value, env, h, cx)
            if vty != NPARR:
                fail(s, "array slice assignment of %r" % (vty,))
            n = T.cname(k0)
            env2 = dict(env)
            env2[k0] = (n, NPARR)
            out = T.wrap(h.pre, "do %s <- np_assign_slice %s %s %s %s;\n" % (n, env[k0][0], lo, hi, v))
            if k0 in self.aliases:
                dk, kv = self.aliases[k0]
                if dk not in env or kv not in env:
                    fail(s, "aliased dict item")
                env2[dk] = (T.cname(dk), env[dk][1])
                out += "let %s := zset %s %s %s in\n" % (T.cname(dk), env[kv][0], n, env[dk][0])
            return out + T.block(rest, env2, K, sc, cx)
        # A['field'][lo:hi] = v on a structured array
        if isinstance(s, ast.Assign) and isinstance(tgt.value, ast.Subscript) and isinstance(tgt.value.slice, ast.Constant) \
                and isinstance(tgt.value.slice.value, str) and key_of(tgt.value.value) in env \
                and env[key_of(tgt.value.value)][1] == NPARR and isinstance(tgt.slice, ast.Slice) and tgt.slice.step is None \
                and tgt.slice.lower is not None and tgt.slice.upper is not None:
            ka = key_of(tgt.value.value)
            h = T.Hoist()
            lo = self.as_int(tgt.slice.lower, env, h, cx)
            hi = self.as_int(tgt.slice.upper, env, h, cx)
            v, vty = ex(s.value, env, h, cx)
            if vty != NPARR:
                fail(s, "array slice assignment of %r" % (vty,))
            n = T.cname(ka)
            env2 = dict(env)
            env2[ka] = (n, NPARR)
            return T.wrap(h.pre, 'do %s <- np_assign_field_slice %s "%s"%%string %s %s %s;\n'
                          % (n, env[ka][0], tgt.value.slice.value, lo, hi, v)) + T.block(rest, env2, K, sc, cx)
        return None

    def try_stmt(self, s, rest, env, K, sc, cx):
        if s.orelse or s.finalbody or len(s.handlers) != 1 or not isinstance(s.handlers[0].type, ast.Name):
            fail(s, "unsupported try statement (shape)")
        hd = s.handlers[0]
        exc = {"UnicodeDecodeError": "EValue", "ValueError": "EValue", "KeyError": "EKey"}.get(hd.type.id)
        if exc is None:
            fail(s, "unsupported try statement (exception class %s)" % hd.type.id)
        if hd.name is not None:
            # `as exc`: only the arguments of log calls (not evaluated) may mention it
            for st in hd.body:
                if not T.is_skip(st) and any(isinstance(n, ast.Name) and n.id == hd.name for n in ast.walk(st)):
                    fail(s, "the exception object is used")
        if T.terminates(s.body) and T.terminates(hd.body):
            if rest:
                fail(rest[0], "statement after a try whose parts all return")
            return "py_catch %s\n%s\n%s" % (exc, T.ind("(" + T.block(s.body, env, K, sc, cx) + ")"),
                                           T.ind("(" + T.block(hd.body, env, K, sc, cx) + ")"))
        # try: X = E  except C: <statements assigning X>   -- both parts fall through with X bound
        if len(s.body) == 1 and isinstance(s.body[0], ast.Assign) and len(s.body[0].targets) == 1 \
                and isinstance(s.body[0].targets[0], ast.Name) and not T.leaves_block(hd.body):
            n = s.body[0].targets[0].id
            got = []

            def k_val(envl):
                got.append(envl[n][1])
                return "Ok %s" % envl[n][0]
            jsc = T.Scope(None, nojump=True)
            a = T.block(s.body, env, k_val, jsc, cx)
            b = T.block(hd.body, env, k_val, jsc, cx)
            if len(got) != 2 or got[0] != got[1]:
                fail(s, "the two parts of the try bind %s with types %r" % (n, got))
            env2 = dict(env)
            env2[n] = (T.cname(n), got[0])
            return "do %s <- py_catch %s\n%s\n%s;\n" % (T.cname(n), exc, T.ind("(" + a + ")"), T.ind("(" + b + ")")) \
                + T.block(rest, env2, K, sc, cx)
        fail(s, "unsupported try statement")


def node_is_param_none_ok(node, env):
    """a dtype ARGUMENT of np.zeros / np.memmap given by a variable that may be None"""
    return isinstance(node, ast.Name)


def dtype_term(d):
    """numpy dtype -> Gallina term of type npdtype"""
    def num(x):
        s = x.str            # e.g. '<i2', '|u1', '>f8'
        if s == "|O" and x.names is None:        # object dtype: a pointer-sized item
            return "O", x.itemsize, "LE"
        if len(s) < 3 or s[0] not in "<>|=" or s[1] not in "iufcbMO" or not s[2:].split("[")[0].isdigit() or x.shape != () \
                or x.names is not None:
            raise T.Unsupported("NumPy dtype %r is not modelled" % (x,))
        return s[1], int(s[2:].split("[")[0]), ("BE" if s[0] == ">" else "LE")
    if d.names is None:
        k, w, o = num(d)
        return '(DNum "%s"%%char %d %s)' % (k, w, o)
    off, fs = 0, []
    for name in d.names:
        ft, foff = d.fields[name][0], d.fields[name][1]
        if foff != off:
            raise T.Unsupported("structured dtype with padding")
        k, w, o = num(ft)
        fs.append('("%s"%%string, ("%s"%%char, %d, %s))' % (name, k, w, o))
        off += w
    if off != d.itemsize:
        raise T.Unsupported("structured dtype with padding")
    return "(DStruct [%s])" % "; ".join(fs)


# ---------------------------------------------------------------------------------------------------
# in-process extensions of py2gallina helpers (the file py2gallina.py is not modified)

_FILEVARS = set()
_orig_assigned_keys = T.assigned_keys
_orig_join_ty = T.join_ty
_orig_loaded_keys = T.loaded_keys
_SELF_ARGS = {}          # method name -> env keys of the receiver state a call self.<method>(..) uses


def loaded_keys(stmts, env):
    out = _orig_loaded_keys(stmts, env)
    for s in stmts:
        for n in ast.walk(s):
            if isinstance(n, ast.Call) and isinstance(n.func, ast.Attribute) and isinstance(n.func.value, ast.Name) \
                    and n.func.value.id == "self" and n.func.attr in _SELF_ARGS:
                for k in _SELF_ARGS[n.func.attr]:
                    if k in env and k not in out:
                        out.append(k)
    return out


def assigned_keys(stmts):
    """a statement that passes a file object to a call, or calls a method of it, advances the file"""
    out = _orig_assigned_keys(stmts)
    for s in stmts:
        for n in ast.walk(s):
            if isinstance(n, ast.Call):
                cands = list(n.args) + [k.value for k in n.keywords]
                if isinstance(n.func, ast.Attribute):
                    cands.append(n.func.value)
                for c in cands:
                    if isinstance(c, ast.Name) and c.id in _FILEVARS and c.id not in out:
                        out.append(c.id)
            if isinstance(n, ast.Assign) and isinstance(n.targets[0], ast.Attribute) and n.targets[0].attr == "dtype" \
                    and isinstance(n.targets[0].value, ast.Name) and n.targets[0].value.id not in out:
                out.append(n.targets[0].value.id)
    return out


def join_ty(a, b):
    """what read_values returns: an array or a list of str"""
    dyn = (NPARR, LIST(PYSTR), DYN)
    if a != b and a in dyn and b in dyn:
        return DYN
    recv = (RLIST, RNUMPY, RDAQ, RTS, RECV)
    if a is not None and b is not None and a != b:
        sa, sb = (a[1] if a[0] == "opt" else a), (b[1] if b[0] == "opt" else b)
        if sa in recv and sb in recv:
            return OPT(RECV) if (a[0] == "opt" or b[0] == "opt") else RECV
        if (a == NONE and sb in recv) or (b == NONE and sa in recv):
            return OPT(RECV) if (sa if b == NONE else sb) == RECV else OPT(sa if b == NONE else sb)
    if a is not None and b is not None and a != b and a[0] == "adict" and b[0] == "adict" and (a[1] is None or b[1] is None):
        return a if b[1] is None else b
    return _orig_join_ty(a, b)


_orig_coerce = T.coerce
_orig_coqty = T.coqty


def coqty(t):
    if t[0] == "zdict":
        return "(list (Z * %s))" % _orig_coqty(t[1])
    return _orig_coqty(t)


def coerce(term, frm, to):
    """an empty dict literal has whatever value type its first item gives it"""
    if frm == ("adict", None) and to is not None and to[0] == "adict":
        return term
    return _orig_coerce(term, frm, to)


def install():
    T.assigned_keys = assigned_keys
    T.coerce = coerce
    T.coqty = coqty
    for r, con in ((RLIST, "RList"), (RNUMPY, "RNumpy"), (RDAQ, "RDaqmx"), (RTS, "RTimestamp")):
        T.EXTRA_COERCIONS[(r, RECV)] = "(" + con + " %s)"
        T.EXTRA_COERCIONS[(r, OPT(RECV))] = "(Some (" + con + " %s))"
    T.loaded_keys = loaded_keys
    T.join_ty = join_ty
    T.EXTRA_COERCIONS[(NPARR, DYN)] = "(DArr %s)"
    T.EXTRA_COERCIONS[(LIST(PYSTR), DYN)] = "(DStrs %s)"
    T.EXTRA_COERCIONS[(PYSTR, BYTES)] = "%s"
    T.EXC.setdefault("UnicodeDecodeError", "EValue")


def set_self_args(method, keys):
    _SELF_ARGS[method] = list(keys)


def set_filevars(names):
    _FILEVARS.clear()
    _FILEVARS.update(names)
