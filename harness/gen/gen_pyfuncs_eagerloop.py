#!/venv/bin/python
"""Fail-closed translator: the EAGER READ PATH
-> coq/theories/Gen/PyFuncsEagerLoop.v (definitions + self-test `Example`s)

Translated with Python `ast` on top of the reader driver (integer logic of a segment) and of the decode / DAQmx chunk
reader / DAQmx chunk loop drivers (their contexts are built IN THIS PROCESS by calling their translate(); nothing of
harness/gen is modified; definitions the other drivers emit are NOT re-emitted, the generated file imports them):

  nptdms/tdms_segment.py  TdmsSegment._have_interleaved_data, _get_data_reader (the three-way dispatch DAQmx /
                          interleaved / contiguous and the reader object's three attributes), _get_data_objects,
                          _read_data_chunks (the reader's read_data_chunks, which method that is per reader class
                          REFLECTED from the imported classes), read_raw_data (the empty chunk without kTocRawData, the seek
                          to data_position, the data objects, the chunk loop with its tell / yield / seek)
  nptdms/reader.py        TdmsReader._verify_segment_start, TdmsReader.read_raw_data (metadata guard, loop over the
                          segments: tag check, then every chunk of the segment)
  nptdms/tdms.py          TdmsFile._read_data: one receiver per channel (get_data_receiver of PyFuncsDecode.v, with
                          len(channel)), per chunk and per (path, data) item the receiver's append_data /
                          append_scaler_data (which method that is per receiver class REFLECTED), the final hand-over
                          of the receivers to the channels

Conventions (in addition to those of gen_pyfuncs_reader.py / gen_pyfuncs_decode.py / gen_pyfuncs_daqmxloop.py).
 * A reader object (BaseDataReader subclass instance) is the tuple (class code, num_chunks,
   final_chunk_lengths_override, byte order flag): class code 0 ContiguousDataReader, 1 InterleavedDataReader,
   2 DaqmxDataReader; byte order flag 0 for '<', 1 for '>'.  In _get_data_reader the constructor calls and the two
   one-character strings are rewritten to these numbers BEFORE the translation (shown in the generated comment);
   everything else of the function (tests, their order, which attribute goes where) is translated from the AST.
 * A GENERATOR is the list of values it yields when it is run to its end, with the file afterwards; a loop over a
   generator is a loop over that list.  In TdmsSegment.read_raw_data the loop body `p = f.tell(); yield chunk; f.seek(p)`
   is translated as written; because the inner generator has then already run to its end, f.tell() is the position
   after the LAST chunk (for a consumer that does not move the file between two chunks -- TdmsFile._read_data -- that is
   where the code's seeks leave the file too).  The equality theorems include the file position after the segment.
 * self._ensure_open() is the precondition "the reader is open".  self._segments is the list of model segment
   records (None before read_metadata).
 * TdmsFile: self.groups() / group.channels() are the groups in order, each the list of its channels in order (a
   channel is the model's channel record; len(channel) is its ch_len); self._channel_data is an ordered dictionary
   path -> receiver or None; channel._set_raw_data(r) is recorded as an item of the result dictionary `raw_data`
   (path -> receiver), in the order of the calls.  tdms_reader.read_raw_data() is the translated
   TdmsReader.read_raw_data on the reader's state (segments, file).
 * A receiver is the sum of the four receiver classes' attribute tuples (PyFuncsDecode.v `receiver`);
   receiver.append_data(d) / append_scaler_data(id, a) run the method of the receiver's class (REFLECTED: each class
   defines its own __init__, the MRO is (class, object) or (class, base, object) with the method found as recorded
   below).  The value handed over is a chunk's `.data`: an array for every type with a NumPy dtype or a fixed size, a
   list of str for strings.  A class/value combination the four translated methods' parameter types do not cover (a
   list of str appended to an array receiver, an array to a list receiver, any append_data on a DAQmx receiver, any
   append_scaler_data on a non-DAQmx receiver) is OUTSIDE the translation: it is `Err EFuel`, the marker that is
   never a result of the code (a list receiver extended by an array works in Python; npTDMS never does it: receiver
   and segment object take their types from the same channel, and a type change is refused by the metadata pass).
 * `None.append_data` is AttributeError (a chunk for a channel without data type).

Self-test: `Example`s with the results of the REAL code on real FILES (harness/tdmsgen.py, daqmxgen.py and hand-built
ones): TdmsSegment._get_data_reader's class and attributes, the chunks and file positions of the real
TdmsSegment.read_raw_data / TdmsReader.read_raw_data run by list(..), the receivers' contents after the real
TdmsFile._read_data.

Anything unrecognised: message on stderr, exit 1, nothing written.
"""
import ast
import copy
import os
import sys

HERE = os.path.dirname(os.path.abspath(__file__))
sys.path.insert(0, HERE)
import py2gallina as T                                                      # noqa: E402
from py2gallina import Z, B, NONE, BYTES, OPT, LIST, TUP, REC               # noqa: E402
import decode_sem as S                                                      # noqa: E402
from decode_sem import SOBJ, ENDIAN, FILE, PFILE, RDC, RCDC, NPARR, DYN, PYSTR       # noqa: E402
import gen_pyfuncs_reader as R                                              # noqa: E402
import gen_pyfuncs_decode as GD                                             # noqa: E402
import gen_pyfuncs_daqmxread as GQ                                          # noqa: E402
import gen_pyfuncs_daqmxloop as GL                                          # noqa: E402

VERIF = os.path.dirname(os.path.dirname(HERE))
REPO = os.environ.get("NPTDMS_REPO", "/repo")
OUT = os.path.join(VERIF, "coq", "theories", "Gen", "PyFuncsEagerLoop.v")      # Gen/PyFuncsEagerLoop.v
ME = "gen_pyfuncs_eagerloop"
unp = ast.unparse

SEGMENT = REC("segment")
CHAN = S.CHAN
READER = ("tyvar", "datareader")
RECV = ("tyvar", "receiver")
APPEND_DATA, APPEND_SCALER, RAW_DATA = "py_receiver_append_data", "py_receiver_append_scaler_data", "channels_raw_data"
CODES = {"ContiguousDataReader": 0, "InterleavedDataReader": 1, "DaqmxDataReader": 2}


def die(msg):
    sys.stderr.write("%s: UNSUPPORTED / unrecognised source, nothing written: %s\n" % (ME, msg))
    sys.exit(1)


# Gallina type names of the generated text: a Python variable of that name would shadow the type in the signatures of the
# generated loop functions
RESERVED = {"receiver", "datareader", "rcdc", "rawchunk", "pydata", "nparr", "posfile", "pyfile", "sobj", "endian", "alist",
            "res", "option", "list", "bool", "bytes", "unit", "hierarchy"}


def check_names(tree, names):
    """the functions named (class, function) do not use a reserved Gallina type name as a variable"""
    for cls, fn in names:
        f, _ = GD.find(tree, fn, cls)
        for n in ast.walk(f):
            ids = []
            if isinstance(n, ast.Name):
                ids.append(n.id)
            elif isinstance(n, ast.arg):
                ids.append(n.arg)
            for i_ in ids:
                if i_ in RESERVED:
                    die("%s.%s uses the name %s, which is a Gallina type name of the generated text" % (cls, fn, i_))


PRELUDE = """\
(* ---- fixed text ---- *)
(* a reader object: (class code, num_chunks, final_chunk_lengths_override, byte order flag);
   class code 0 ContiguousDataReader, 1 InterleavedDataReader, 2 DaqmxDataReader; flag 0 '<', 1 '>' *)
Definition datareader := (Z * Z * option (alist Z) * Z)%type.
Definition dr_endian (flag : Z) : endian := if flag =? 0 then LE else BE.
(* file.read(n) on a file used with tell() / seek() *)
Definition pf_read (f : posfile) (n : Z) : res (bytes * posfile) := pf_run (fun cur__ => py_read cur__ n) f.
"""


# ---------------------------------------------------------------------------------------------------------------------
# part 1: integer logic of a segment (context of gen_pyfuncs_reader.py)

def translate_segment_logic():
    R.die = die
    cx, _, _ = R.translate()
    n0 = len(cx.defs)
    _, tree = R.parse("tdms_segment.py")
    env0 = {"self": ("self", SEGMENT)}
    for m in R.MEMO:
        env0["self." + m] = ("None", NONE)            # caches are read as cold
    inits = R.init_consts(tree, "TdmsSegment")
    for m in R.MEMO:
        if m not in inits or inits[m] is not None:
            die("memo attribute %s is not initialised to None in TdmsSegment.__init__" % m)
    cx.n_loop = 0
    f = R.find(tree, "_have_interleaved_data", "TdmsSegment")
    if [a.arg for a in f.args.args] != ["self"]:
        die("signature of _have_interleaved_data")
    rty = T.function(cx, "have_interleaved_data_gen", f.body, [("self", SEGMENT)], dict(env0), [],
                     R.comment_of("tdms_segment.py", f))
    if rty != B:
        die("_have_interleaved_data does not return a bool")
    cx.callees["self._have_interleaved_data"] = ("have_interleaved_data_gen", [], rty, ["self"])

    # _get_data_reader: constructor calls and the two byte order strings -> numbers, then translated
    f = R.find(tree, "_get_data_reader", "TdmsSegment")
    if [a.arg for a in f.args.args] != ["self"]:
        die("signature of _get_data_reader")
    seen = []

    class Rw(ast.NodeTransformer):
        def visit_IfExp(self, n):
            if isinstance(n.body, ast.Constant) and isinstance(n.orelse, ast.Constant) \
                    and {n.body.value, n.orelse.value} == {'>', '<'}:
                return ast.copy_location(ast.IfExp(test=self.visit(n.test), body=ast.Constant(value=1 if n.body.value == '>' else 0),
                                                   orelse=ast.Constant(value=1 if n.orelse.value == '>' else 0)), n)
            return self.generic_visit(n)

        def visit_Call(self, n):
            if isinstance(n.func, ast.Name) and n.func.id in CODES:
                if len(n.args) != 3 or n.keywords:
                    die("_get_data_reader: arguments of %s(..)" % n.func.id)
                seen.append(n.func.id)
                return ast.copy_location(ast.Tuple(elts=[ast.Constant(value=CODES[n.func.id])] + [self.visit(a) for a in n.args],
                                                   ctx=ast.Load()), n)
            return self.generic_visit(n)

        def visit_Subscript(self, n):
            if isinstance(n.value, ast.Name) and n.value.id == "toc_properties":
                return n
            return self.generic_visit(n)

        def visit_Constant(self, n):
            if isinstance(n.value, str):
                die("_get_data_reader: string constant %r outside `'>' if .. else '<'`" % n.value)
            return n
    body = [s for s in f.body if not T.is_skip(s)]
    out = [ast.fix_missing_locations(Rw().visit(copy.deepcopy(s))) for s in body]
    rty = T.function(cx, "get_data_reader_gen", out, [("self", SEGMENT)], dict(env0), [],
                     R.comment_of("tdms_segment.py", f) +
                     "     read with <Class>(a, b, c) as (class code, a, b, c) and '>' / '<' as 1 / 0:\n%s\n"
                     % "\n".join("     " + l for s_ in out for l in unp(s_).split("\n")))
    if rty != TUP(Z, Z, OPT(T.DICT), Z):
        die("_get_data_reader: result type %r" % (rty,))
    # REFLECTED: the three classes are the ones the module names, each a direct subclass of BaseDataReader without __init__
    sys.path.insert(0, REPO)
    from nptdms import tdms_segment as TS_, base_segment as BS_, daqmx as DQ_
    for n in CODES:
        c = getattr(TS_, n, None)
        if c is None or c.__mro__ != (c, BS_.BaseDataReader, object) or "__init__" in c.__dict__:
            die("%s is not a plain subclass of BaseDataReader" % n)
    if TS_.DaqmxDataReader is not DQ_.DaqmxDataReader:
        die("tdms_segment.DaqmxDataReader is not daqmx.DaqmxDataReader")

    f = R.find(tree, "_get_data_objects", "TdmsSegment")
    if [a.arg for a in f.args.args] != ["self"]:
        die("signature of _get_data_objects")
    rty = T.function(cx, "get_data_objects_gen", f.body, [("self", SEGMENT)], dict(env0), [],
                     R.comment_of("tdms_segment.py", f))
    if rty != LIST(SOBJ):
        die("_get_data_objects: result type %r" % (rty,))
    return cx.defs[n0:]


# ---------------------------------------------------------------------------------------------------------------------
# part 2: the chunk streams (context of the decode / DAQmx drivers)

class Hooks:
    def __init__(self, d):
        self.d = d
        self.sem = d.sem
        self.ensure_open = set()
        self.verify = set()
        d.sem.extra_calls.insert(0, self.calls)
        d.sem.extra_statements.insert(0, self.statements)

    def calls(self, e, env, h, cx):
        if "<eagerloop>" not in env:
            return None
        f = e.func
        sem = self.sem
        u = unp(e)
        # self._get_data_reader()
        if u == "self._get_data_reader()" and env.get("self", (None, None))[1] == SEGMENT:
            return sem.hoist(e, h, cx, "get_data_reader_gen %s" % env["self"][0]), READER
        # <reader>.read_data_chunks(file, data_objects, num_chunks)
        if isinstance(f, ast.Attribute) and f.attr == "read_data_chunks" and isinstance(f.value, ast.Name) \
                and f.value.id in env and env[f.value.id][1] == READER:
            ent = {"fn": "reader_read_data_chunks_gen", "params": [("file", FILE), ("data_objects", LIST(SOBJ)), ("num_chunks", Z)],
                   "rty": LIST(RDC), "kind": "method", "defaults": {}}
            return sem.call_translated(e, ent, [env[f.value.id][0]], list(e.args), env, h, cx)
        # RawDataChunk.empty()
        if u == "RawDataChunk.empty()":
            names, expr = self.d.inline.get(("RawDataChunk", "empty"), (None, None))
            if names != [] or unp(expr) != "RawDataChunk({})":
                T.fail(e, "RawDataChunk.empty() is not RawDataChunk({})")
            return "(mkRdc [])", RDC
        # <positioned file>.read(n)
        if isinstance(f, ast.Attribute) and f.attr == "read" and sem.file_of(f.value, env) and not e.keywords and len(e.args) == 1 \
                and env[sem.file_of(f.value, env)][1] == PFILE:
            fk = sem.file_of(f.value, env)
            n = sem.as_int(e.args[0], env, h, cx)
            return sem.hoist_file(e, h, cx, env, fk, "pf_read %s %s" % (env[fk][0], n)), BYTES
        # ---- TdmsFile._read_data
        if u == "self.groups()" and "self.groups()" in env:
            return env["self.groups()"]
        if isinstance(f, ast.Attribute) and f.attr == "channels" and not e.args and not e.keywords and isinstance(f.value, ast.Name) \
                and f.value.id in env and env[f.value.id][1] == LIST(CHAN):
            return env[f.value.id]
        if isinstance(f, ast.Name) and f.id == "len" and len(e.args) == 1 and not e.keywords and isinstance(e.args[0], ast.Name) \
                and e.args[0].id in env and env[e.args[0].id][1] == CHAN:
            return "(ch_len %s)" % env[e.args[0].id][0], Z
        if u == "tdms_reader.read_raw_data()" and "tdms_reader._file" in env:
            ent = self.d.methods.get(("<reader>", "read_raw_data"))
            if ent is None:
                T.fail(e, "TdmsReader.read_raw_data has not been translated")
            return sem.hoist_file(e, h, cx, env, "tdms_reader._file",
                                  "%s %s %s" % (ent["fn"], env["tdms_reader._segments"][0], env["tdms_reader._file"][0])), LIST(RDC)
        if isinstance(f, ast.Attribute) and f.attr == "items" and not e.args and not e.keywords:
            snap = len(h.pre) if h is not None else 0
            try:
                t, ty = T.ex(f.value, env, h, cx)
            except T.Unsupported:
                t, ty = None, None
            if ty == OPT(S.SCALERS):
                t, ty = T.need(t, ty, "dict", "EOther", h, e)
            if ty == S.SCALERS:
                return t, LIST(TUP(Z, NPARR))
            if ty is not None and ty[0] == "adict" and ty[1] is not None:
                return t, LIST(TUP(BYTES, ty[1]))
            if h is not None:
                del h.pre[snap:]
        if isinstance(f, ast.Name) and f.id in (APPEND_DATA, APPEND_SCALER) and not e.keywords:
            r, rty = T.ex(e.args[0], env, h, cx)
            if rty == OPT(RECV):
                r, rty = T.need(r, rty, "receiver", "EOther", h, e)       # None.append_data: AttributeError
            if rty != RECV:
                T.fail(e, "append on %r" % (rty,))
            if f.id == APPEND_DATA:
                if len(e.args) != 2:
                    T.fail(e, "arity of append_data")
                v, vty = T.ex(e.args[1], env, h, cx)
                if vty == OPT(DYN):
                    v, vty = T.need(v, vty, "data", "EType", h, e)
                if vty != DYN:
                    T.fail(e, "append_data of %r" % (vty,))
                return sem.hoist(e, h, cx, "receiver_append_data_gen %s %s %s" % (env["<as_datetime64>"][0], r, v)), RECV
            if len(e.args) != 3:
                T.fail(e, "arity of append_scaler_data")
            k = sem.as_int(e.args[1], env, h, cx)
            v, vty = T.ex(e.args[2], env, h, cx)
            if vty != NPARR:
                T.fail(e, "append_scaler_data of %r" % (vty,))
            return sem.hoist(e, h, cx, "receiver_append_scaler_data_gen %s %s %s" % (r, k, v)), RECV
        # segment.read_raw_data(self._file)
        if isinstance(f, ast.Attribute) and f.attr == "read_raw_data" and isinstance(f.value, ast.Name) and f.value.id in env \
                and env[f.value.id][1] == SEGMENT:
            ent = self.d.methods.get(("<segment>", "read_raw_data"))
            if ent is None:
                T.fail(e, "TdmsSegment.read_raw_data has not been translated")
            return sem.call_translated(e, ent, [env[f.value.id][0]], list(e.args), env, h, cx)
        return None

    def statements(self, s, rest, env, K, sc, cx):
        if "<eagerloop>" not in env:
            return None
        if isinstance(s, ast.Expr) and unp(s.value) == "self._ensure_open()":
            return T.block(rest, env, K, sc, cx)
        # self._verify_segment_start(segment)
        if isinstance(s, ast.Expr) and isinstance(s.value, ast.Call) and unp(s.value.func) == "self._verify_segment_start" \
                and len(s.value.args) == 1 and not s.value.keywords and "self._file" in env:
            ent = self.d.methods.get(("<reader>", "_verify_segment_start"))
            if ent is None:
                T.fail(s, "_verify_segment_start has not been translated")
            hh = T.Hoist()
            t, ty = T.ex(s.value.args[0], env, hh, cx)
            if ty != SEGMENT:
                T.fail(s, "_verify_segment_start of %r" % (ty,))
            fv = env["self._file"][0]
            return T.wrap(hh.pre, "do %s <- %s %s %s;\n" % (fv, ent["fn"], fv, t)) + T.block(rest, env, K, sc, cx)
        return None


def mark_verify_calls(f):
    for n in ast.walk(f):
        if isinstance(n, ast.Expr) and isinstance(n.value, ast.Call) and unp(n.value.func) == "self._verify_segment_start":
            T.EXTRA_ASSIGNS[id(n)] = ["self._file"]


def reader_dispatch(d):
    """<reader>.read_data_chunks(file, data_objects, num_chunks): the method of the reader's class, REFLECTED"""
    from nptdms import tdms_segment as TS_, base_segment as BS_
    arms = {}
    # ContiguousDataReader / DaqmxDataReader: BaseDataReader.read_data_chunks over the class's own _read_data_chunk
    for n, key in (("ContiguousDataReader", "<contig>"), ("DaqmxDataReader", "<daqmx>")):
        c = getattr(TS_, n)
        if c.read_data_chunks is not BS_.BaseDataReader.read_data_chunks or "_read_data_chunk" not in c.__dict__:
            die("%s.read_data_chunks is not BaseDataReader's over its own _read_data_chunk" % n)
        ent = d.methods.get((key, "read_data_chunks"))
        if ent is None or ent["self_args"] != ["self.num_chunks", "self.final_chunk_lengths_override", "self.endianness"]:
            die("%s.read_data_chunks has not been translated" % n)
        arms[n] = "%s nc fin (dr_endian flag) file data_objects num_chunks" % ent["fn"]
    c = TS_.InterleavedDataReader
    if "read_data_chunks" not in c.__dict__:
        die("InterleavedDataReader does not define read_data_chunks")
    ent = d.methods.get(("<self>", "read_data_chunks"))
    if ent is None or ent["fn"] != "interleaved_read_data_chunks_gen" or ent["self_args"] != ["self.endianness"]:
        die("InterleavedDataReader.read_data_chunks has not been translated")
    arms["InterleavedDataReader"] = "%s (dr_endian flag) file data_objects num_chunks" % ent["fn"]
    d.cx.defs.append(
        "(* <reader>.read_data_chunks(file, data_objects, num_chunks): which class's method runs is REFLECTED from the imported\n"
        "   classes (Contiguous / Daqmx: BaseDataReader.read_data_chunks over the class's own _read_data_chunk; Interleaved: its own) *)\n"
        "Definition reader_read_data_chunks_gen (reader : datareader) (file : pyfile) (data_objects : list sobj) (num_chunks : Z)\n"
        "  : res (list rawchunk * pyfile) :=\n"
        "  let '(code, nc, fin, flag) := reader in\n"
        + "".join("  if code =? %d then (* %s *) %s else\n" % (CODES[n], n, arms[n]) for n in sorted(CODES, key=CODES.get))
        + "  Err EOther.")


def translate_streams(d):
    cx = d.cx
    hooks = Hooks(d)
    for k, v in R.ATTR.items():
        if k[0] == "segment":
            cx.attr[k] = v
    _, tree_c = R.parse("common.py")
    cx.consts.update(R.toc_constants(tree_c))
    d.trees["reader.py"] = GD.parse("reader.py")
    d.trees["tdms.py"] = GD.parse("tdms.py")
    cx.n_loop = 0
    check_names(d.trees["tdms_segment.py"], [("TdmsSegment", "_read_data_chunks"), ("TdmsSegment", "read_raw_data"),
                                             ("TdmsSegment", "_get_data_reader"), ("TdmsSegment", "_get_data_objects"),
                                             ("TdmsSegment", "_have_interleaved_data")])
    check_names(d.trees["reader.py"], [("TdmsReader", "_verify_segment_start"), ("TdmsReader", "read_raw_data")])
    check_names(d.trees["tdms.py"], [("TdmsFile", "_read_data")])
    reader_dispatch(d)
    mark = {"<eagerloop>": ("tt", T.UNIT)}
    seg = {"self": ("self", SEGMENT)}

    # ---- TdmsSegment._read_data_chunks
    d.fun("tdms_segment.py", "_read_data_chunks", "TdmsSegment", "segment_read_data_chunks_gen", [FILE, LIST(SOBJ), Z],
          recv=dict(seg), outputs=["<yield>", "file"], extra_env=dict(mark, **{"<yield>": ("[]", LIST(None))}),
          key=("<self>", "_read_data_chunks"),
          note="     (the generator read to its end: the yielded chunks and the file after them)\n")
    d.methods[("<self>", "_read_data_chunks")]["rty"] = LIST(RDC)

    # ---- TdmsSegment.read_raw_data
    f, _ = GD.find(d.trees["tdms_segment.py"], "read_raw_data", "TdmsSegment")
    d.fun("tdms_segment.py", "read_raw_data", "TdmsSegment", "segment_read_raw_data_gen", [PFILE],
          recv=dict(seg), filevars=("f",), outputs=["<yield>", "f"],
          extra_env=dict(mark, **{"<yield>": ("[]", LIST(None))}), key=("<segment>", "read_raw_data"),
          note="     (the generator read to its end: the yielded chunks and the file after them; f.tell() in the loop body is\n"
               "      evaluated after the inner generator has run to its end)\n")
    d.methods[("<segment>", "read_raw_data")]["rty"] = LIST(RDC)
    d.methods[("<segment>", "read_raw_data")]["params"] = [("f", PFILE)]

    # ---- TdmsReader._verify_segment_start
    rf = {"self._file": ("self__file", PFILE)}
    d.fun("reader.py", "_verify_segment_start", "TdmsReader", "verify_segment_start_gen", [SEGMENT],
          recv=dict(rf), filevars=("self._file",), outputs=["self._file"], extra_env=dict(mark),
          key=("<reader>", "_verify_segment_start"))

    # ---- TdmsReader.read_raw_data
    f, _ = GD.find(d.trees["reader.py"], "read_raw_data", "TdmsReader")
    mark_verify_calls(f)
    rr = {"self._segments": ("self__segments", OPT(LIST(SEGMENT))), "self._file": ("self__file", PFILE)}
    d.fun("reader.py", "read_raw_data", "TdmsReader", "reader_read_raw_data_gen", [],
          recv=dict(rr), filevars=("self._file",), outputs=["<yield>", "self._file"],
          extra_env=dict(mark, **{"<yield>": ("[]", LIST(None))}), key=("<reader>", "read_raw_data"),
          note="     (the generator read to its end: the yielded chunks and the file after them;\n"
               "      self._ensure_open() is the precondition that the reader is open)\n")


def receiver_dispatch(d):
    """receiver.append_data(v) / receiver.append_scaler_data(k, a): the method of the receiver's class, REFLECTED"""
    from nptdms import channel_data as CD_
    classes = [("ListDataReceiver", "RList"), ("NumpyDataReceiver", "RNumpy"), ("DaqmxDataReceiver", "RDaqmx"),
               ("TimestampDataReceiver", "RTimestamp")]
    for n, _ in classes:
        c = getattr(CD_, n)
        if c.__mro__ != (c, object) or "__init__" not in c.__dict__:
            die("%s: unexpected class structure" % n)
    has = {(n, m): m in getattr(CD_, n).__dict__ for n, _ in classes for m in ("append_data", "append_scaler_data")}
    want = {("ListDataReceiver", "append_data"): True, ("ListDataReceiver", "append_scaler_data"): False,
            ("NumpyDataReceiver", "append_data"): True, ("NumpyDataReceiver", "append_scaler_data"): False,
            ("DaqmxDataReceiver", "append_data"): False, ("DaqmxDataReceiver", "append_scaler_data"): True,
            ("TimestampDataReceiver", "append_data"): True, ("TimestampDataReceiver", "append_scaler_data"): False}
    if has != want:
        die("the receiver classes no longer define exactly: %r" % sorted(k for k, v in want.items() if v))
    # the attribute tuples of the receivers (order of the generated __init__ functions) and of the append methods
    fields = {"ListDataReceiver": ["self._dtype", "self._data", "self.scaler_data"],
              "NumpyDataReceiver": ["self.path", "self.data", "self.scaler_data", "self._data_insert_position"],
              "DaqmxDataReceiver": ["self.path", "self.scaler_data", "self._scaler_insert_positions"],
              "TimestampDataReceiver": ["self.path", "self._raw_timestamps", "self.data", "self.scaler_data",
                                        "self._data_insert_position"]}
    sig = {"list_append": (["self._data"], ["self._data"]),
           "numpy_append": (["self.path", "self.data", "self._data_insert_position"], ["self.data", "self._data_insert_position"]),
           "daqmx_append": (["self.path", "self.scaler_data", "self._scaler_insert_positions"],
                            ["self.scaler_data", "self._scaler_insert_positions"]),
           "timestamp_append": (["<as_datetime64>", "self.path", "self._raw_timestamps", "self.data", "self._data_insert_position"],
                                ["self.data", "self._data_insert_position"])}
    for k, (ins, outs) in sig.items():
        ent = d.methods.get(("<recv>", k))
        if ent is None or ent["self_args"] != ins:
            die("receiver method %s: receiver state %r" % (k, ent and ent["self_args"]))
    for n, fs in fields.items():
        ent = d.methods.get(("<recvinit>", n))
        if ent is None:
            die("%s.__init__ has not been translated" % n)

    def fn(k):
        return d.methods[("<recv>", k)]["fn"]
    d.cx.defs.append(
        "(* receiver.append_data(v): the method of the receiver's class (REFLECTED: List / Numpy / Timestamp receivers define\n"
        "   append_data, DaqmxDataReceiver does not: AttributeError).  v is a chunk's .data; the combinations the translated\n"
        "   methods' parameter types do not cover are OUTSIDE the translation (Err EFuel, never a result of the code) *)\n"
        "Definition receiver_append_data_gen (as_datetime64 : nparr -> res nparr) (r : receiver) (v : pydata) : res receiver :=\n"
        "  match r, v with\n"
        "  | RList (dt, data, sd), DStrs l =>\n"
        "    do data' <- %s data l; Ok (RList (dt, data', sd))\n"
        "  | RNumpy (path, a, sd, pos), DArr x =>\n"
        "    do '(a', pos') <- %s path a pos x; Ok (RNumpy (path, a', sd, pos'))\n"
        "  | RTimestamp (path, raw, a, sd, pos), DArr x =>\n"
        "    do '(a', pos') <- %s as_datetime64 path raw a pos x; Ok (RTimestamp (path, raw, a', sd, pos'))\n"
        "  | RDaqmx _, _ => Err EOther\n"
        "  | _, _ => Err EFuel\n"
        "  end.\n"
        "(* receiver.append_scaler_data(scale_id, a): only DaqmxDataReceiver defines it (the others: AttributeError) *)\n"
        "Definition receiver_append_scaler_data_gen (r : receiver) (scale_id : Z) (a : nparr) : res receiver :=\n"
        "  match r with\n"
        "  | RDaqmx (path, sd, sp) =>\n"
        "    do '(sd', sp') <- %s path sd sp scale_id a; Ok (RDaqmx (path, sd', sp'))\n"
        "  | _ => Err EOther\n"
        "  end." % (fn("list_append"), fn("numpy_append"), fn("timestamp_append"), fn("daqmx_append")))


def rewrite_read_data(f):
    """object mutation -> functional update plus write-back to the dictionary slot the object lives in:
         X = D[K] ... X.append_data(E)          ->  X = py_receiver_append_data(X, E); D[K] = X
         X.append_scaler_data(A, B)             ->  X = py_receiver_append_scaler_data(X, A, B); D[K] = X
         C._set_raw_data(X)                     ->  channels_raw_data[C.path] = X
       X must have been bound by `X = D[K]` in the same loop body, K a target of an enclosing loop, D a self attribute"""
    for n in ast.walk(f):
        if isinstance(n, ast.Name) and n.id in (APPEND_DATA, APPEND_SCALER, RAW_DATA):
            die("the source uses the name %s" % n.id)

    def rw_block(stmts, alias, targets):
        out = []
        alias = dict(alias)
        for s_ in stmts:
            if isinstance(s_, ast.Assign) and len(s_.targets) == 1 and isinstance(s_.targets[0], ast.Name):
                alias.pop(s_.targets[0].id, None)
                v = s_.value
                if isinstance(v, ast.Subscript) and unp(v.value).startswith("self.") and isinstance(v.value, ast.Attribute) \
                        and isinstance(v.value.value, ast.Name):
                    ks = [x.id for x in ast.walk(v.slice) if isinstance(x, ast.Name)]
                    if all(k in targets for k in ks) and ks:
                        alias[s_.targets[0].id] = (v.value, v.slice)
                out.append(s_)
            elif isinstance(s_, ast.Expr) and isinstance(s_.value, ast.Call) and isinstance(s_.value.func, ast.Attribute) \
                    and s_.value.func.attr in ("append_data", "append_scaler_data") and isinstance(s_.value.func.value, ast.Name):
                x = s_.value.func.value.id
                if x not in alias or s_.value.keywords:
                    die("_read_data: %s on an object that is not a dictionary item bound in this block" % unp(s_))
                dn, kn = alias[x]
                fn_ = APPEND_DATA if s_.value.func.attr == "append_data" else APPEND_SCALER
                call = ast.Call(func=ast.Name(id=fn_, ctx=ast.Load()), args=[ast.Name(id=x, ctx=ast.Load())] + list(s_.value.args),
                                keywords=[])
                a1 = ast.Assign(targets=[ast.Name(id=x, ctx=ast.Store())], value=call)
                a2 = ast.Assign(targets=[ast.Subscript(value=copy.deepcopy(dn), slice=copy.deepcopy(kn), ctx=ast.Store())],
                                value=ast.Name(id=x, ctx=ast.Load()))
                out += [ast.copy_location(a1, s_), ast.copy_location(a2, s_)]
            elif isinstance(s_, ast.Expr) and isinstance(s_.value, ast.Call) and isinstance(s_.value.func, ast.Attribute) \
                    and s_.value.func.attr == "_set_raw_data" and isinstance(s_.value.func.value, ast.Name) \
                    and len(s_.value.args) == 1 and not s_.value.keywords:
                c = s_.value.func.value.id
                if c not in targets:
                    die("_read_data: _set_raw_data on something that is not a loop variable")
                a = ast.Assign(targets=[ast.Subscript(value=ast.Name(id=RAW_DATA, ctx=ast.Load()),
                                                      slice=ast.Attribute(value=ast.Name(id=c, ctx=ast.Load()), attr="path", ctx=ast.Load()),
                                                      ctx=ast.Store())], value=s_.value.args[0])
                out.append(ast.copy_location(a, s_))
            elif isinstance(s_, ast.For):
                tg = set(targets) | {x.id for x in ast.walk(s_.target) if isinstance(x, ast.Name)}
                s2 = copy.copy(s_)
                s2.body = rw_block(s_.body, alias, tg)
                if s_.orelse:
                    die("_read_data: for ... else")
                out.append(s2)
            elif isinstance(s_, ast.If):
                s2 = copy.copy(s_)
                s2.body = rw_block(s_.body, alias, targets)
                s2.orelse = rw_block(s_.orelse, alias, targets)
                out.append(s2)
            elif isinstance(s_, ast.With):
                s2 = copy.copy(s_)
                s2.body = rw_block(s_.body, alias, targets)
                out.append(s2)
            else:
                for n in ast.walk(s_):
                    if isinstance(n, ast.Attribute) and n.attr in ("append_data", "append_scaler_data", "_set_raw_data"):
                        die("_read_data: unsupported use of %s: %s" % (n.attr, unp(s_)))
                out.append(s_)
        return out
    body = rw_block([s_ for s_ in f.body if not T.is_skip(s_)], {}, set())
    ast.fix_missing_locations(ast.Module(body=body, type_ignores=[]))
    return body


def translate_read_data(d):
    cx = d.cx
    receiver_dispatch(d)
    f, _ = GD.find(d.trees["tdms.py"], "_read_data", "TdmsFile")
    if [a.arg for a in f.args.args] != ["self", "tdms_reader"]:
        die("signature of TdmsFile._read_data")
    # TdmsChannel._set_raw_data(data) stores its argument; len(channel) is its _length
    g, _ = GD.find(d.trees["tdms.py"], "_set_raw_data", "TdmsChannel")
    if [a.arg for a in g.args.args] != ["self", "data"] or [unp(x) for x in g.body if not T.is_skip(x)] != ["self._raw_data = data"]:
        die("TdmsChannel._set_raw_data does not simply store its argument")
    g, _ = GD.find(d.trees["tdms.py"], "__len__", "TdmsChannel")
    if [unp(x) for x in g.body if not T.is_skip(x)] != ["return self._length"]:
        die("TdmsChannel.__len__ is not `return self._length`")
    # TdmsFile.__init__ starts with an empty self._channel_data
    g, _ = GD.find(d.trees["tdms.py"], "__init__", "TdmsFile")
    if "self._channel_data = {}" not in [unp(x) for x in g.body]:
        die("TdmsFile.__init__ does not set self._channel_data = {}")
    body = rewrite_read_data(f)
    CD = ("adict", OPT(RECV))
    recv = {"self.groups()": ("self_groups", LIST(LIST(CHAN))),
            "self._channel_data": ("self__channel_data", CD),
            "self._raw_timestamps": ("self__raw_timestamps", B), "self._memmap_dir": ("self__memmap_dir", B),
            "tdms_reader._segments": ("tdms_reader__segments", OPT(LIST(SEGMENT))),
            "tdms_reader._file": ("tdms_reader__file", PFILE)}
    extra = {"<as_datetime64>": ("as_datetime64", S.ASDT), "<eagerloop>": ("tt", T.UNIT), RAW_DATA: ("[]", ("adict", RECV)), "self.data_read": ("false", B)}
    cx.defs.append("Section ReadData.\n(* new_data.as_datetime64() of TimestampDataReceiver.append_data (used when raw_timestamps is false) *)\n"
                   "Variable as_datetime64 : nparr -> res nparr.")
    d.fun("tdms.py", "_read_data", "TdmsFile", "tdmsfile_read_data_gen", [T.UNIT], recv=recv, filevars=("tdms_reader._file",),
          outputs=["self._channel_data", RAW_DATA, "self.data_read", "tdms_reader._file"], extra_env=extra, stmts=lambda f_: body,
          key=("<tdmsfile>", "_read_data"),
          note="     which is the source below read with the in-place updates of a receiver written back to the dictionary slot it\n"
               "     lives in, and channel._set_raw_data(r) recorded in the dictionary channels_raw_data (path -> receiver):\n%s\n"
               "     (self.groups(): the groups, each the list of its channels; tdms_reader: its _segments and _file;\n"
               "      result: self._channel_data, channels_raw_data, self.data_read, the reader's file)\n"
               % "\n".join("     " + l for s_ in f.body if not T.is_skip(s_) for l in unp(s_).split("\n")))
    cx.defs.append("End ReadData.")


def translate():
    seg_defs = translate_segment_logic()
    GL.die = die
    GL.ME = ME
    d, _ = GL.translate()
    GQ.die = die
    GQ.ME = ME
    GD.die = die
    GD.ME = ME
    n0 = len(d.cx.defs)
    translate_streams(d)
    translate_read_data(d)
    return d, seg_defs, d.cx.defs[n0:]


def header():
    return ("(* GENERATED by harness/gen/gen_pyfuncs_eagerloop.py from nptdms/tdms_segment.py, reader.py, tdms.py -- do not edit.\n"
            "   The eager read path; see the script for the conventions. *)\n"
            "From Coq Require Import String Ascii.\n"
            "From Coq Require Import ZArith List Bool.\n"
            "From Coq Require Import Init.Byte.\n"
            "Import ListNotations.\n"
            "From NpTdms Require Import Base.Bytes Base.Res Base.PySlice Model.Tokens Model.SegState Model.Layout Model.Reader Gen.TypeTable\n"
            "     Gen.PyFuncsReader Gen.PyFuncsDecode Gen.PyFuncsDaqmxRead Gen.PyFuncsDaqmxLoop.\n"
            "Local Open Scope Z_scope.\n")


def main():
    try:
        d, seg_defs, defs = translate()
    except T.Unsupported as e:
        die(str(e))
    text = header() + "\n" + PRELUDE + "\n" + "\n\n".join(seg_defs + defs) + "\n"
    if "--stdout" in sys.argv:
        sys.stdout.write(text)
        return
    import eagerloop_selftest as ST
    st_text, counts = ST.selftest(REPO, die)
    GD.write_if_changed(OUT, text + "\n" + st_text)
    print("%s: %d definitions; self-test cases: %s" % (ME, len(seg_defs) + len(defs), ", ".join("%s %d" % kv for kv in counts.items())))


if __name__ == "__main__":
    main()
