"""Self-test of gen_pyfuncs_scaleeval.py: the REAL classes of nptdms/scaling.py are run on boundary grids and
their results are embedded as `Example`s about the translated functions (coq/theories/Gen/PyFuncsScaleEvalTest.v).

  st_channel_scaling   _get_channel_scaling(properties): None / the list of constructed objects with every
                       attribute / the exception class -- every scale type, defaults and explicit sources,
                       missing properties at every position, table sizes, descending and non-monotonic tables,
                       unknown thermocouple code, more than 10 scales, DAQmx scalers, unsupported type
  st_scale             x.scale(data) of the structural classes on arrays of several dtypes: polynomial
                       coefficients with zero leading / trailing entries and none at all, descending tables with
                       inputs outside the table, infinities and NaN, integer inputs, Add / Subtract of mixed dtypes
  (values of another Python type than the declared one -- an int slope, a float input source -- are outside the
   scope of the model and of the translation, ScaleGraph.v header; they are not in the grid)
  st_multi             MultiScaling.scale through get_scaling's result: different wirings of Add / Subtract
                       (left / right / raw / shared), Table with input source 0, 12 scales, DAQmx scalers,
                       out-of-range and negative input sources
"""
import math
import os
import random
import sys
import types

import numpy as np

IK = {"int8": "I8", "int16": "I16", "int32": "I32", "int64": "I64", "uint8": "U8", "uint16": "U16", "uint32": "U32", "uint64": "U64"}
RAW = 0xFFFFFFFF


def cfloat(x):
    x = float(x)
    if x != x:
        return "nan"
    if x == math.inf:
        return "infinity"
    if x == -math.inf:
        return "neg_infinity"
    return "(%s)%%float" % x.hex()


def cz(v):
    return "%d" % v if v >= 0 else "(%d)" % v


def cstr(s):
    assert all(32 <= ord(ch) < 127 for ch in s), s
    return '"%s"%%string' % s.replace('"', '""')


def clist(items):
    return "[" + "; ".join(items) + "]"


def cpval(v):
    if isinstance(v, str):
        return "(ScaleGraph.PStr %s)" % cstr(v)
    if isinstance(v, bool):
        raise ValueError("bool property")
    if isinstance(v, float):
        return "(ScaleGraph.PFloat %s)" % cfloat(v)
    if isinstance(v, int):
        return "(ScaleGraph.PInt %s)" % cz(v)
    raise ValueError("property value %r" % (v,))


def cprops(d):
    return clist("(%s, %s)" % (cstr(k), cpval(v)) for k, v in d.items())


def cvalue(arr):
    dt = arr.dtype
    if dt == np.bool_:
        return "(ScaleGraph.VB %s)" % clist("true" if v else "false" for v in arr.tolist())
    if dt.kind in "iu":
        return "(ScaleGraph.VI ScaleGraph.%s %s)" % (IK[dt.name], clist(cz(int(v)) for v in arr.tolist()))
    if dt == np.float32:
        return "(ScaleGraph.VS %s)" % clist(cfloat(float(v)) for v in arr)
    if dt == np.float64:
        return "(ScaleGraph.VD %s)" % clist(cfloat(float(v)) for v in arr)
    raise ValueError("no Coq value for dtype %r" % dt)


def err_of(e):
    for cls, name in ((KeyError, "EKey"), (IndexError, "EIndex"), (ValueError, "EValue"), (TypeError, "EType")):
        if isinstance(e, cls):
            return name
    if isinstance(e, RecursionError):
        raise e
    return "EOther"


def observe(fn, enc):
    try:
        return "Ok %s" % enc(fn())
    except Exception as e:          # noqa: BLE001
        return "Err %s" % err_of(e)


def selftest(repo, classes, attrs_decl, die):
    sys.path.insert(0, repo)
    import nptdms
    here = os.path.realpath(os.path.dirname(nptdms.__file__))
    if here != os.path.realpath(os.path.join(repo, "nptdms")):
        die("nptdms imported from %s, expected %s/nptdms" % (here, repo))
    import logging
    import warnings
    logging.disable(logging.CRITICAL)
    warnings.simplefilter("ignore")
    np.seterr(all="ignore")
    from nptdms import scaling as SC
    from nptdms import thermocouples as TH
    from collections import OrderedDict
    tc_names = {id(getattr(TH, "type_" + c)): "T" + c.upper() for c in "bejknrst"}

    def cobj(o):
        cn = type(o).__name__
        if cn not in classes:
            raise ValueError("object of class %s" % cn)
        parts = []
        for a in classes[cn]["attrs"]:
            v = getattr(o, a)
            t = attrs_decl[cn][a]
            if t == ("Z",):
                parts.append(cz(int(v)))
            elif t == ("f64",):
                parts.append(cfloat(v))
            elif t in (("list", ("f64",)), ("farr",)):
                parts.append(clist(cfloat(x) for x in v))
            elif t == ("pval",):
                parts.append(cpval(v))
            elif t == ("enum", "tctype"):
                parts.append(tc_names[id(v)])
            else:
                raise ValueError("attribute type %r" % (t,))
        return "(Py%s %s)" % (cn, " ".join(parts))

    # ---- generated comparison of objects
    out = ["(* GENERATED by harness/gen/gen_pyfuncs_scaleeval.py (scaleeval_selftest.py) -- do not edit.\n"
           "   Self-test of Gen/PyFuncsScaleEval.v: results of the REAL classes of nptdms/scaling.py on boundary grids. *)\n"
           "From Coq Require Import String.\nFrom Coq Require Import ZArith List Bool PrimFloat.\nImport ListNotations.\n"
           "From NpTdms Require Import Base.Res Gen.NumpyPromote Gen.ThermoTables Gen.PyFuncsScaling Gen.PyFuncsScaleEval.\n"
           "From NpTdms Require Model.ScaleGraph.\nLocal Open Scope Z_scope.\n\n"
           "Definition st_pval_eqb (a b : ScaleGraph.pval) : bool :=\n  match a, b with\n"
           "  | ScaleGraph.PStr x, ScaleGraph.PStr y => String.eqb x y\n  | ScaleGraph.PFloat x, ScaleGraph.PFloat y => ScaleGraph.feqb x y\n"
           "  | ScaleGraph.PInt x, ScaleGraph.PInt y => x =? y\n  | _, _ => false\n  end.\n"
           "Definition st_tc_eqb (a b : tctype) : bool :=\n  match a, b with\n"
           "  | TB, TB | TE, TE | TJ, TJ | TK, TK | TN, TN | TR, TR | TS, TS | TT, TT => true\n  | _, _ => false\n  end.\n"
           "Definition st_flist_eqb := ScaleGraph.list_eqb ScaleGraph.feqb.\n"]
    eqf = {("Z",): "Z.eqb", ("f64",): "ScaleGraph.feqb", ("list", ("f64",)): "st_flist_eqb", ("farr",): "st_flist_eqb",
           ("pval",): "st_pval_eqb", ("enum", "tctype"): "st_tc_eqb"}
    arms = []
    for cn, c in classes.items():
        n = len(c["attrs"])
        xs, ys = ["x%d" % i for i in range(n)], ["y%d" % i for i in range(n)]
        conj = " && ".join("%s %s %s" % (eqf[attrs_decl[cn][a]], x, y) for a, x, y in zip(c["attrs"], xs, ys))
        arms.append("  | Py%s %s, Py%s %s => %s" % (cn, " ".join(xs), cn, " ".join(ys), conj))
    out.append("Definition st_scaling_eqb (a b : scaling_py) : bool :=\n  match a, b with\n%s\n  | _, _ => false\n  end.\n" % "\n".join(arms))
    out.append("""Definition st_oscaling_eqb (a b : option scaling_py) : bool :=
  match a, b with Some x, Some y => st_scaling_eqb x y | None, None => true | _, _ => false end.
Definition st_multi_eqb (a b : option (list (option scaling_py))) : bool :=
  match a, b with Some x, Some y => ScaleGraph.list_eqb st_oscaling_eqb x y | None, None => true | _, _ => false end.
Definition st_res_eqb {A} (eq : A -> A -> bool) (a b : res A) : bool :=
  match a, b with Ok x, Ok y => eq x y | Err x, Err y => err_eqb x y | _, _ => false end.
(* the sensor classes' scale methods are not part of this file *)
Definition st_no_sensor (s : scaling_py) (v : ScaleGraph.value) : res ScaleGraph.value := Err EOther.
""")
    counts = {}

    # ---- property dictionaries
    def P(i, suffix):
        return "NI_Scale[%d]_%s" % (i, suffix)

    def lin(i, slope=2.0, icpt=1.0, src=None):
        d = {P(i, "Scale_Type"): "Linear", P(i, "Linear_Slope"): slope, P(i, "Linear_Y_Intercept"): icpt}
        if src is not None:
            d[P(i, "Linear_Input_Source")] = src
        return d

    def pol(i, cs, src=None, size=True):
        d = {P(i, "Scale_Type"): "Polynomial"}
        if size:
            d[P(i, "Polynomial_Coefficients_Size")] = len(cs)
        for j, c in enumerate(cs):
            d[P(i, "Polynomial_Coefficients[%d]" % j)] = c
        if src is not None:
            d[P(i, "Polynomial_Input_Source")] = src
        return d

    def tab(i, pre, scaled, src=None, n1=None, n2=None):
        d = {P(i, "Scale_Type"): "Table", P(i, "Table_Pre_Scaled_Values_Size"): len(pre) if n1 is None else n1,
             P(i, "Table_Scaled_Values_Size"): len(scaled) if n2 is None else n2}
        for j, c in enumerate(pre):
            d[P(i, "Table_Pre_Scaled_Values[%d]" % j)] = c
        for j, c in enumerate(scaled):
            d[P(i, "Table_Scaled_Values[%d]" % j)] = c
        if src is not None:
            d[P(i, "Table_Input_Source")] = src
        return d

    def two(i, kind, l, r):
        return {P(i, "Scale_Type"): kind, P(i, "%s_Left_Operand_Input_Source" % kind): l,
                P(i, "%s_Right_Operand_Input_Source" % kind): r}

    def adv(i, src=None):
        d = {P(i, "Scale_Type"): "AdvancedAPI"}
        if src is not None:
            d[P(i, "AdvancedAPI_Input_Source")] = src
        return d

    def rtd(i, src=RAW):
        d = {P(i, "Scale_Type"): "RTD"}
        for k, v in (("Current_Excitation", 0.001), ("R0_Nominal_Resistance", 100.0), ("A", 0.0039083), ("B", -5.775e-07),
                     ("C", -4.183e-12), ("Lead_Wire_Resistance", 0.0), ("Resistance_Configuration", 3)):
            d[P(i, "RTD_" + k)] = v
        d[P(i, "RTD_Input_Source")] = src
        return d

    def strain(i, src=RAW):
        d = {P(i, "Scale_Type"): "Strain"}
        for k, v in (("Configuration", 10183), ("Poisson_Ratio", 0.3), ("Gage_Resistance", 350.0), ("Lead_Wire_Resistance", 0.0),
                     ("Initial_Bridge_Voltage", 0.0), ("Gage_Factor", 2.1), ("Bridge_Shunt_Calibration_Gain_Adjustment", 1.0),
                     ("Voltage_Excitation", 2.5)):
            d[P(i, "Strain_" + k)] = v
        d[P(i, "Strain_Input_Source")] = src
        return d

    def thermistor(i, src=RAW):
        d = {P(i, "Scale_Type"): "Thermistor"}
        for k, v in (("Excitation_Type", 10322), ("Excitation_Value", 2.5), ("Resistance_Configuration", 3),
                     ("R1_Reference_Resistance", 5000.0), ("Lead_Wire_Resistance", 0.0), ("A", 0.0012873851), ("B", 0.00023575235),
                     ("C", 9.497806e-8), ("Temperature_Offset", 1.0)):
            d[P(i, "Thermistor_" + k)] = v
        d[P(i, "Thermistor_Input_Source")] = src
        return d

    def tcouple(i, code=None, direction=None, src=None):
        d = {P(i, "Scale_Type"): "Thermocouple"}
        if code is not None:
            d[P(i, "Thermocouple_Thermocouple_Type")] = code
        if direction is not None:
            d[P(i, "Thermocouple_Scaling_Direction")] = direction
        if src is not None:
            d[P(i, "Thermocouple_Input_Source")] = src
        return d

    def merge(*ds, **extra):
        out_ = OrderedDict()
        for d in ds:
            out_.update(d)
        out_.update(extra)
        return out_

    def drop(d, *keys):
        return OrderedDict((k, v) for k, v in d.items() if k not in keys)

    dicts = [
        merge(lin(0)), merge(lin(0, src=RAW)), merge(lin(0, src=0)), merge(lin(0, -0.0, float("inf"))),
        drop(lin(0), P(0, "Linear_Slope")), drop(lin(0), P(0, "Linear_Y_Intercept")),
        drop(lin(0), P(0, "Linear_Slope"), P(0, "Linear_Y_Intercept")),
        merge(lin(0), **{P(0, "Linear_Slope") + "x": 1.0}),
        merge(pol(0, [1.0, 2.0, 3.0])), merge(pol(0, [0.0, 0.0, 2.0, 0.0, 0.0])), merge(pol(0, [])), merge(pol(0, [1.0, 2.0, 3.0, 4.0], size=False)),
        merge(pol(0, [1.0, 2.0, 3.0], size=False)), merge(pol(0, [1.0, 2.0, 3.0, 4.0, 5.0], size=False)), merge(pol(0, [1.0, 2.0], src=7)),
        drop(pol(0, [1.0, 2.0, 3.0]), P(0, "Polynomial_Coefficients[1]")),
        merge(pol(0, [1.0]), **{P(0, "Polynomial_Coefficients_Size"): -3}), merge(pol(0, [5.0, 6.0, 7.0]), **{P(0, "Polynomial_Coefficients_Size"): 2}),
        merge(tab(0, [1.0, 2.0, 3.0], [10.0, 20.0, 40.0])), merge(tab(0, [1.0, 2.0, 3.0], [40.0, 20.0, 10.0])),
        merge(tab(0, [1.0, 2.0, 3.0], [10.0, 40.0, 20.0])), merge(tab(0, [1.0, 2.0, 3.0], [10.0, 10.0, 20.0])),
        merge(tab(0, [1.0, 2.0, 3.0], [20.0, 10.0, 10.0])), merge(tab(0, [1.0], [5.0])), merge(tab(0, [], [])),
        merge(tab(0, [1.0, 2.0], [1.0, float("nan")])), merge(tab(0, [1.0, 2.0, 3.0], [10.0, 20.0, 40.0], src=0)),
        merge(tab(0, [1.0, 2.0, 3.0], [10.0, 20.0, 40.0], src=RAW)), merge(tab(0, [1.0, 2.0], [10.0, 20.0, 40.0])),
        merge(tab(0, [1.0, 2.0, 3.0], [10.0, 20.0, 40.0], n1=2, n2=2)), merge(tab(0, [1.0, 2.0], [10.0, 20.0], n1=3, n2=3)),
        merge(tab(0, [1.0, 2.0], [10.0, 20.0], n1=-1, n2=-1)),
        drop(tab(0, [1.0, 2.0], [10.0, 20.0]), P(0, "Table_Pre_Scaled_Values_Size")), drop(tab(0, [1.0, 2.0], [10.0, 20.0]), P(0, "Table_Scaled_Values_Size")),
        drop(tab(0, [1.0, 2.0], [10.0, 20.0]), P(0, "Table_Scaled_Values[1]")), drop(tab(0, [1.0, 2.0], [10.0, 20.0]), P(0, "Table_Pre_Scaled_Values[0]")),
        merge(tab(0, [1.0, 2.0], [float("-inf"), float("inf")])), merge(tab(0, [3.0, 2.0, 1.0], [-0.0, 0.0, 1.0])),
        merge(lin(0), two(1, "Add", 0, RAW)), merge(lin(0), two(1, "Subtract", RAW, 0)), drop(two(0, "Add", 0, 1), P(0, "Add_Left_Operand_Input_Source")),
        drop(two(0, "Add", 0, 1), P(0, "Add_Right_Operand_Input_Source")), drop(two(0, "Subtract", 0, 1), P(0, "Subtract_Left_Operand_Input_Source")),
        drop(two(0, "Subtract", 0, 1), P(0, "Subtract_Right_Operand_Input_Source")),
        merge(two(0, "Add", 0, 1), **{P(0, "Subtract_Left_Operand_Input_Source"): 5}), merge(two(0, "Add", 3, -1)),
        merge(adv(0)), merge(adv(0, 3)), merge(adv(0), **{P(0, "Linear_Input_Source"): 3}),
        merge(rtd(0)), drop(rtd(0), P(0, "RTD_Input_Source")), drop(rtd(0), P(0, "RTD_C")), drop(rtd(0), P(0, "RTD_Current_Excitation")),
        merge(rtd(0), **{P(0, "RTD_A"): "text"}), merge(strain(0, 0)), drop(strain(0), P(0, "Strain_Bridge_Shunt_Calibration_Gain_Adjustment")),
        drop(strain(0), P(0, "Strain_Input_Source")), merge(thermistor(0)), drop(thermistor(0), P(0, "Thermistor_Temperature_Offset")),
        drop(thermistor(0), P(0, "Thermistor_Input_Source")),
        merge(tcouple(0)), merge(tcouple(0, 10073, 1, 0)), merge(tcouple(0, 10082)), merge(tcouple(0, 10085)), merge(tcouple(0, 10047, 0)),
        merge(tcouple(0, 10055)), merge(tcouple(0, 10077)), merge(tcouple(0, 10086, "x")), merge(tcouple(0, 10072)), merge(tcouple(0, 10074)),
        merge(tcouple(0, 0)), merge(tcouple(0, direction=1.0)),
        OrderedDict([("NI_Number_Of_Scales", 2)]), OrderedDict([("NI_Number_Of_Scales", 3)], **lin(1)),
        merge(lin(0), {"NI_Number_Of_Scales": 1}, lin(1)), merge(lin(1)), merge(lin(2), lin(0)),
        merge({P(0, "Scale_Type"): "Logarithmic"}), merge(lin(0), {P(1, "Scale_Type"): "Exponential"}, lin(2)),
        merge({P(0, "Scale_Type"): "Exponential"}, {P(1, "Scale_Type"): "Linear"}), merge({P(0, "Scale_Type"): 7}),
        merge({P(0, "Scale_Type"): "linear"}), merge(lin(0), {"NI_Scaling_Status": "scaled"}), merge(lin(0), {"NI_Scaling_Status": "unscaled"}),
        merge({"NI_Number_Of_Scales": 0}, lin(0)), merge({"NI_Number_Of_Scales": -2}, lin(0)), OrderedDict(),
        merge(*[lin(i, float(i), 0.5, i - 1 if i else RAW) for i in range(12)]),
        merge(*([lin(i) for i in range(10)] + [two(10, "Add", 9, 3), two(11, "Subtract", 10, 0), tab(12, [1.0, 2.0], [2.0, 1.0], src=11)])),
        merge(lin(0), pol(1, [1.0, 0.5], src=0), tab(2, [0.0, 1.0], [0.0, 10.0], src=1), two(3, "Add", 1, 2), two(4, "Subtract", 3, RAW), adv(5, 4)),
        merge(lin(10), {"NI_Number_Of_Scales": 11}),
    ]
    cases = []
    for d in dicts:
        r = observe(lambda: SC._get_channel_scaling(OrderedDict(d)),
                    lambda m: "None" if m is None else "(Some %s)" % clist("(Some %s)" % cobj(o) for o in m.scalings))
        cases.append("(%s,\n    %s)" % (cprops(d), r))
    counts["channel_scaling"] = len(cases)
    out.append("Definition st_channel_scaling_cases : list (ScaleGraph.props * res (option (list (option scaling_py)))) :=\n  [%s].\n"
               "Example st_channel_scaling : forallb (fun c => st_res_eqb st_multi_eqb (get_channel_scaling_gen (fst c)) (snd c)) "
               "st_channel_scaling_cases = true.\nProof. vm_compute. reflexivity. Qed.\n" % ";\n   ".join(cases))

    # ---- scale methods
    f64 = np.array([0.0, -0.0, 1.0, -2.5, 9.0, 10.0, 15.0, 25.0, 40.0, 41.0, 1e300, -1e300, float("inf"), float("-inf"), float("nan"),
                    5e-324, 2.0 ** 53 + 2], dtype=np.float64)
    arrays = [f64, np.array([], dtype=np.float64), np.array([-128, -1, 0, 3, 127], dtype=np.int8), np.array([0, 11, 39, 255], dtype=np.uint8),
              np.array([-2 ** 31, 12, 2 ** 31 - 1], dtype=np.int32), np.array([-2 ** 63, 2 ** 53 + 1, 2 ** 63 - 1], dtype=np.int64),
              np.array([0, 2 ** 63, 2 ** 64 - 1], dtype=np.uint64), np.array([1.5, -0.0, 3.4028234663852886e38, float("nan")], dtype=np.float32),
              np.array([True, False], dtype=np.bool_)]
    objs = [SC.LinearScaling(1.0, 2.0, RAW), SC.LinearScaling(-0.0, 0.0, RAW), SC.LinearScaling(float("inf"), 1e-320, 0),
            SC.LinearScaling(0.1, 0.2, RAW),
            SC.PolynomialScaling([], RAW), SC.PolynomialScaling([3.0], RAW), SC.PolynomialScaling([1.0, 2.0, 3.0], RAW),
            SC.PolynomialScaling([0.0, 2.0], RAW), SC.PolynomialScaling([0.0, 0.0, 2.0, 0.0, 0.0], RAW),
            SC.PolynomialScaling([1.0, 0.5, 0.0], RAW), SC.PolynomialScaling([0.0, 0.0, 0.0], RAW), SC.PolynomialScaling([0.1, -0.3, 0.7, 1e-3], 0),
            SC.TableScaling(np.array([1.0, 2.0, 3.0]), np.array([10.0, 20.0, 40.0]), RAW),
            SC.TableScaling(np.array([1.0, 2.0, 3.0]), np.array([40.0, 20.0, 10.0]), RAW),
            SC.TableScaling(np.array([-7.0, 2.0, 3.5, 100.0]), np.array([40.5, 25.0, 10.0, -3.0]), 0),
            SC.TableScaling(np.array([5.0]), np.array([9.0]), RAW), SC.TableScaling(np.array([1.0, 2.0]), np.array([float("-inf"), float("inf")]), RAW),
            SC.TableScaling(np.array([float("inf"), 2.0]), np.array([0.0, 10.0]), RAW), SC.NoOpScaling(RAW)]
    cases = []
    for o in objs:
        for a in arrays:
            r = observe(lambda: o.scale(a.copy()), cvalue)
            cases.append("(%s, %s,\n    %s)" % (cobj(o), cvalue(a), r))
    pairs = [("int16", "int16"), ("int32", "int64"), ("float64", "int32"), ("float32", "float32"), ("float32", "int8"), ("uint8", "int8"),
             ("float64", "float64"), ("bool", "bool"), ("uint64", "int64"), ("int8", "bool"), ("uint16", "uint32")]
    vals = {"int16": [-32768, 5, 32767], "int32": [-2 ** 31, 7, 2 ** 31 - 1], "int64": [2 ** 62, -9, 2 ** 63 - 1], "float64": [0.1, -0.0, 1e308],
            "float32": [1.5, 3.0e38, -2.25], "int8": [-128, 1, 127], "uint8": [0, 200, 255], "bool": [True, False, True],
            "uint64": [0, 2 ** 63, 2 ** 64 - 1], "uint16": [0, 65535, 9], "uint32": [2 ** 32 - 1, 1, 0]}
    two_cases = []
    for cls in (SC.AddScaling, SC.SubtractScaling):
        o = cls(0, 1)
        for (d1, d2) in pairs + [(b, a) for a, b in pairs if a != b]:
            a, b = np.array(vals[d1], dtype=d1), np.array(vals[d2], dtype=d2)
            r = observe(lambda: o.scale(a.copy(), b.copy()), cvalue)
            if "float16" in r:
                continue
            two_cases.append("(%s, %s, %s,\n    %s)" % (cobj(o), cvalue(a), cvalue(b), r))
        a, b = np.array([1.0, 2.0]), np.array([1.0, 2.0, 3.0])
    counts["scale"] = len(cases) + len(two_cases)
    out.append("Definition st_value_eqb := ScaleGraph.value_eqb.\n"
               "Definition st_scale_cases : list (scaling_py * ScaleGraph.value * res ScaleGraph.value) :=\n  [%s].\n"
               "Example st_scale : forallb (fun c => let '(o, a, r) := c in st_res_eqb st_value_eqb (dispatch_scale1 st_no_sensor o a) r) "
               "st_scale_cases = true.\nProof. vm_compute. reflexivity. Qed.\n" % ";\n   ".join(cases))
    out.append("Definition st_scale2_cases : list (scaling_py * ScaleGraph.value * ScaleGraph.value * res ScaleGraph.value) :=\n  [%s].\n"
               "Example st_scale2 : forallb (fun c => let '(o, a, b, r) := c in st_res_eqb st_value_eqb (dispatch_scale2 o a b) r) "
               "st_scale2_cases = true.\nProof. vm_compute. reflexivity. Qed.\n" % ";\n   ".join(two_cases))

    # ---- MultiScaling.scale through the constructed objects
    def craw(data, scalers):
        return "{| ScaleGraph.rdata := %s; ScaleGraph.rscalers := %s |}" % (
            "None" if data is None else "(Some %s)" % cvalue(data), clist("(%d%%nat, %s)" % (k, cvalue(v)) for k, v in sorted(scalers.items())))
    raw1 = np.array([0.0, 1.0, -2.0, 9.5, 25.0, 100.0, float("inf"), float("nan")])
    raw2 = np.array([-3, 0, 2, 25, 120], dtype=np.int16)
    graphs = [
        merge(lin(0, 2.0, 1.0), pol(1, [0.5, 3.0]), two(2, "Subtract", 0, 1)),
        merge(lin(0, 2.0, 1.0), pol(1, [0.5, 3.0]), two(2, "Subtract", 1, 0)),
        merge(lin(0, 2.0, 1.0), pol(1, [0.5, 3.0]), two(2, "Add", 1, 0)),
        merge(lin(0, 2.0, 1.0), two(1, "Subtract", RAW, 0)), merge(lin(0, 2.0, 1.0), two(1, "Subtract", 0, RAW)),
        merge(lin(0, 2.0, 1.0), two(1, "Add", 0, 0)), merge(lin(0, 2.0, 1.0), two(1, "Subtract", 0, 0)), merge(two(0, "Add", RAW, RAW)),
        merge(two(0, "Subtract", RAW, RAW)),
        merge(lin(0, 3.0, -1.0), tab(1, [1.0, 2.0, 3.0], [40.0, 20.0, 10.0], src=0)),
        merge(lin(0, 3.0, -1.0), tab(1, [1.0, 2.0, 3.0], [40.0, 20.0, 10.0])),
        merge(lin(0, 3.0, -1.0), lin(1, 100.0, 0.0, RAW), tab(2, [1.0, 2.0, 3.0], [10.0, 20.0, 40.0], src=0)),
        merge(*([lin(i, 1.0 + i / 8, 0.25, i - 1 if i else RAW) for i in range(10)]
                + [two(10, "Add", 9, 3), two(11, "Subtract", 10, 0), tab(12, [1.0, 2.0], [20.0, 1.0], src=11)])),
        merge(lin(0), pol(1, [1.0, 0.5], src=0), tab(2, [0.0, 1.0], [0.0, 10.0], src=1), two(3, "Add", 1, 2), two(4, "Subtract", 3, RAW), adv(5, 4)),
        merge(lin(0, src=1), lin(1, src=RAW)), merge(lin(0, src=5)), merge(lin(0, src=-1)), merge(lin(0), lin(1, src=-2)),
        merge(pol(0, []), lin(1, 2.0, 3.0, 0)), merge(adv(0), adv(1, 0), adv(2, 1)),
        merge({"NI_Number_Of_Scales": 2}, lin(1, src=0)), merge({"NI_Number_Of_Scales": 3}, two(2, "Add", 0, 1)),
        merge({"NI_Number_Of_Scales": 2}, two(1, "Subtract", RAW, 0)),
    ]
    cases = []
    for g in graphs:
        for (data, scalers) in ((raw1, {}), (raw2, {}), (None, {0: raw2, 1: np.array([1.5, 2.5, 3.5, 4.5, 5.5])}), (raw1, {0: raw1 * 2})):
            rcd = types.SimpleNamespace(data=data, scaler_data=scalers)
            m = SC._get_channel_scaling(OrderedDict(g))
            try:
                r = observe(lambda: m.scale(rcd), cvalue)
            except RecursionError:
                continue
            cases.append("(%s, %s,\n    %s)" % (cprops(g), craw(data, scalers), r))
    counts["multi"] = len(cases)
    out.append("Definition st_multi_cases : list (ScaleGraph.props * ScaleGraph.rawdata * res ScaleGraph.value) :=\n  [%s].\n"
               "Example st_multi : forallb (fun c => let '(p, raw, r) := c in\n"
               "    match get_channel_scaling_gen p with\n"
               "    | Ok (Some m) => st_res_eqb st_value_eqb (MultiScaling_scale_fuel st_no_sensor 40 m raw) r\n"
               "    | _ => false\n    end) st_multi_cases = true.\nProof. vm_compute. reflexivity. Qed.\n" % ";\n   ".join(cases))
    return "\n".join(out), counts
