"""Self-test cases for gen_pyfuncs_segstate.py.

The REAL code is run: TdmsReader.read_metadata (with and without segment indexes) on hand-encoded byte
streams (harness/tdmsgen.py encoder: random well-formed files, an enumeration of inheritance encodings,
hand-made awkward streams: a path listed twice in one block, "matches previous" of an unseen object, a first
segment without metadata, type changes, DAQmx objects), with TdmsSegment.read_segment_objects,
TdmsReader._update_object_metadata and TdmsReader._update_object_properties WRAPPED so that the arguments
and the reader state before each call and the results after it are recorded.  Each recorded call becomes a
case of a Gallina `Example` (the lexed entries of the segment are those the stream was encoded from); the
translated function must reproduce the recorded result.  Direct calls with real objects cover the small
helpers on boundary grids.  Everything is checked by vm_compute when Gen/PyFuncsSegState.v is built.
"""
import io
import itertools
import os
import random
import struct
import sys
import warnings

EXC = {"ValueError": "EValue", "TypeError": "EType", "KeyError": "EKey", "IndexError": "EIndex",
       "RuntimeError": "ERuntime", "AttributeError": "EOther", "NotImplementedError": "ENotImpl", "error": "EStruct",
       "Exception": "EOther", "EOFError": "EEof"}


def z(n):
    n = int(n)
    return "%d" % n if n >= 0 else "(%d)" % n


def b(x):
    return "true" if x else "false"


def hexb(bs):
    return '(hex "%s"%%string)' % bytes(bs).hex()


def hexs(s):
    return hexb(s.encode("utf-8", errors="surrogatepass"))


def clist(items):
    return "[" + "; ".join(items) + "]"


def copt(x, f=lambda v: v):
    return "None" if x is None else "(Some %s)" % f(x)


PRELUDE = """\
(* ---- self test: results of the real code ---- *)
Definition st_res {A B} (eq : A -> B -> bool) (a : res A) (b : res B) : bool :=
  match a, b with Ok x, Ok y => eq x y | Err x, Err y => err_eqb x y | _, _ => false end.
Definition st_opt {A B} (eq : A -> B -> bool) (a : option A) (b : option B) : bool :=
  match a, b with Some x, Some y => eq x y | None, None => true | _, _ => false end.
Fixpoint st_list {A B} (eq : A -> B -> bool) (a : list A) (b : list B) : bool :=
  match a, b with
  | [], [] => true
  | x :: a', y :: b' => eq x y && st_list eq a' b'
  | _, _ => false
  end.
Definition st_pair {A B C D} (e1 : A -> C -> bool) (e2 : B -> D -> bool) (a : A * B) (b : C * D) : bool :=
  e1 (fst a) (fst b) && e2 (snd a) (snd b).
Definition st_optz := st_opt Z.eqb.
Definition st_zz := st_list (st_pair Z.eqb Z.eqb).
Definition st_scaler (a b : scaler) : bool :=
  (sc_type a =? sc_type b) && (sc_buf a =? sc_buf b) && (sc_off a =? sc_off b) && (sc_fmt a =? sc_fmt b) && (sc_id a =? sc_id b).
(* the real DAQmx metadata does not keep the header kind: it is compared when there is a scaler (whose class shows it) *)
Definition st_dq (a b : dq) : bool :=
  (match dq_scalers b with [] => true | _ => dq_kind a =? dq_kind b end) &&
  st_list st_scaler (dq_scalers a) (dq_scalers b) && st_list Z.eqb (dq_widths a) (dq_widths b).
Definition st_sobj (a b : sobj) : bool :=
  bytes_eqb (so_path a) (so_path b) && Bool.eqb (so_has_data a) (so_has_data b) && (so_nvals a =? so_nvals b) &&
  (so_dsize a =? so_dsize b) && st_optz (so_dtype a) (so_dtype b) && st_opt st_dq (so_daqmx a) (so_daqmx b).
Definition st_objs := st_list st_sobj.
Definition st_zdict := st_list (st_pair bytes_eqb Z.eqb).
Definition st_prop (a b : prop) : bool :=
  bytes_eqb (p_name a) (p_name b) && (p_type a =? p_type b) && bytes_eqb (p_val a) (p_val b).
Definition st_pairs := st_list (st_pair bytes_eqb st_prop).
Definition st_propdict := st_list (st_pair bytes_eqb st_pairs).
(* hash(str) of the test: any function will do *)
Definition st_hash (p : bytes) : Z := fold_left (fun a x => (a * 31 + Z.of_N (Byte.to_N x)) mod 2305843009213693951) p 7.
Definition st_key (objs : list sobj) : olkey := (objs, fold_left (fun h o => Z.lxor h (st_hash (so_path o))) objs 0).
Definition st_cache (l : list (list sobj * alist Z)) : hdict := map (fun kv => (st_key (fst kv), snd kv)) l.
Definition st_cache_eq (a : hdict) (b : list (list sobj * alist Z)) : bool :=
  st_list (fun x y => st_objs (fst (fst x)) (fst y) && st_zdict (snd x) (snd y)) a b.
Definition st_ometa (a b : ometa) : bool :=
  st_pairs (om_props a) (om_props b) && st_optz (om_dtype a) (om_dtype b) && st_opt st_zz (om_scalers a) (om_scalers b) &&
  (om_len a =? om_len b).
Definition st_omdict := st_list (st_pair bytes_eqb st_ometa).
Definition st_prevdict := st_list (st_pair bytes_eqb st_sobj).
(* the scaler dictionaries of the real objects are compared as dictionaries *)
Definition st_ometa_d (a b : ometa) : bool :=
  st_pairs (om_props a) (om_props b) && st_optz (om_dtype a) (om_dtype b) && opt_zdict_eqb (om_scalers a) (om_scalers b) &&
  (om_len a =? om_len b).
Definition st_omdict_d := st_list (st_pair bytes_eqb st_ometa_d).
"""


def selftest(repo, die):
    sys.path.insert(0, repo)
    sys.path.insert(0, os.path.join(os.path.dirname(os.path.dirname(os.path.abspath(__file__)))))
    import nptdms
    here = os.path.realpath(os.path.dirname(nptdms.__file__))
    if here != os.path.realpath(os.path.join(repo, "nptdms")):
        die("nptdms imported from %s, expected %s/nptdms" % (here, repo))
    import logging
    logging.disable(logging.CRITICAL)
    import tdmsgen as G
    from nptdms import tdms_segment as TS, reader as RD, daqmx as DQ, types as TY
    out, counts = [PRELUDE], {}
    DQ_CODE = {cls: code for code, cls in DQ.DAQMX_TYPES.items()}

    interned, intern_defs = {}, []

    def intern(term, ty, prefix):
        """name a term that occurs in many cases (the case lists elaborate much faster)"""
        k = (term, ty)
        if k not in interned:
            interned[k] = "st_%s%d" % (prefix, len(interned))
            intern_defs.append("Definition %s : %s := %s." % (interned[k], ty, term))
        return interned[k]

    def flush_interned():
        if intern_defs:
            out.append("\n".join(intern_defs) + "\n")
            del intern_defs[:]

    def example(name, ctype, cases, check, minimum=8):
        flush_interned()
        cases = list(dict.fromkeys(cases))
        if len(cases) < minimum:
            die("self-test grid of %s is too small (%d cases)" % (name, len(cases)))
        counts[name] = len(cases)
        out.append("Definition st_%s_cases : list (%s) :=\n  [%s].\n"
                   "Example st_%s : forallb (%s) st_%s_cases = true.\nProof. vm_compute. reflexivity. Qed.\n"
                   % (name, ctype, ";\n   ".join(cases), name, check, name))

    def exc_term(e):
        n = type(e).__name__
        if n not in EXC:
            raise e
        return "Err %s" % EXC[n]

    # ---- real objects -> Gallina terms
    def c_scaler(s):
        off = s.raw_bit_offset if isinstance(s, DQ.DigitalLineScaler) else s.raw_byte_offset
        return "(mkScaler %s %s %s %s %s)" % (z(DQ_CODE[s.data_type]), z(s.raw_buffer_index), z(off), z(s.sample_format_bitmap),
                                               z(s.scale_id))

    def c_sobj(o):
        dq = "None"
        if isinstance(o, DQ.DaqmxSegmentObject):
            md = o.daqmx_metadata
            if md is None:
                dq = "(Some blank_dq)"
            else:
                kind = 0x126A if any(isinstance(s, DQ.DigitalLineScaler) for s in md.scalers) else 0x1269
                dq = "(Some (mkDq %d %s %s))" % (kind, clist([c_scaler(s) for s in md.scalers]),
                                                clist([z(w) for w in md.raw_data_widths]))
        elif type(o) is not TS.TdmsSegmentObject:
            die("segment object of class %s" % type(o).__name__)
        dt = None if o.data_type is None else o.data_type.enum_value
        return intern("(mkSobj %s %s %s %s %s %s)" % (hexs(o.path), b(o.has_data), z(o.number_values), z(o.data_size), copt(dt, z), dq),
                      "sobj", "o")

    def c_objs(l):
        return intern(clist([c_sobj(o) for o in l]), "list sobj", "l")

    def c_zdict(d):
        return intern(clist(["(%s, %s)" % (hexs(k), z(v)) for k, v in d.items()]), "alist Z", "d")

    def c_prop(p):
        return intern("(mkProp %s %s %s)" % (hexb(p.name), z(p.ty), hexb(p.val)), "prop", "p")

    def c_idx(i):
        if i is None:
            return "INoData"
        if i == "prev":
            return "IMatchPrev"
        if i[0] == "full":
            _, lf, dt, dim, n, total = i
            return "(IFull %s %s %s %s %s)" % (z(lf), z(dt), z(dim), z(n), copt(total, z))
        _, kind, dt, dim, n, scalers, widths = i
        return "(IDaqmx %s %s %s %s %s %s)" % (z(kind), z(dt), z(dim), z(n),
                                               clist(["(mkScaler %s)" % " ".join(z(v) for v in s) for s in scalers]),
                                               clist([z(w) for w in widths]))

    def c_entry(x):
        return intern("(mkEntry %s %s %s)" % (hexb(x.path), c_idx(x.idx), clist([c_prop(p) for p in x.props])), "entry", "e")

    def c_final(f):
        return copt(f, lambda d: clist(["(%s, %s)" % (hexs(k), z(v)) for k, v in d.items()]))

    def c_cache(ic):
        return copt(ic, lambda c: "(st_cache %s)" % clist(["(%s, %s)" % (c_objs(k.objects), c_zdict(v))
                                                           for k, v in c._indexes.items()]))

    def c_cache_exp(ic):
        return copt(ic, lambda c: clist(["(%s, %s)" % (c_objs(k.objects), c_zdict(v)) for k, v in c._indexes.items()]))

    def c_gseg(s):
        return copt(s, lambda g: "(mkGseg %s %s %s %s %s %s %s %s %s)" % (
            z(g.position), z(g.toc_mask), z(g.next_segment_pos), z(g.data_position), b(g.segment_incomplete),
            c_objs(g.ordered_objects), copt(g.object_index, c_zdict), z(g.num_chunks), c_final(g.final_chunk_lengths_override)))

    def props_match(real_pairs, props, where):
        """the (name, value) pairs the real code read are the generator's properties, in order"""
        if len(real_pairs) != len(props):
            die("self-test: %s: %d properties read, %d encoded" % (where, len(real_pairs), len(props)))
        for (nm, val), p in zip(real_pairs, props):
            if nm.encode("utf-8", errors="surrogatepass") != p.name or G.obs_prop_impl(val) != G.obs_prop_expected(p):
                die("self-test: %s: property %r read as %r" % (where, p.name, val))

    # ---- streams
    rng = random.Random(20260917)
    streams = []            # (label, segs)
    for i in range(12):
        streams.append(("random%d" % i, G.gen_file(rng)))
    CH = [(G.quote_path("g", "a"), 2), (G.quote_path("g", "b"), 3), (G.quote_path("h", "c"), 10)]
    ENC = ["full", "prev", "nodata", "unlisted"]

    def build(choice, nch, with_props, type_change_at=None, dup=None):
        segs, st, cnt = [], G.SpecState(), [0]
        for si, (kind, newlist, encs) in enumerate(choice):
            e = "<" if si % 2 == 0 else ">"
            if kind == "nometa":
                seg = G.Seg(e=e, toc=G.TOC_RAW, entries=None)
            else:
                entries = []
                for ci in range(nch):
                    p, dt = CH[ci]
                    props = [G.Prop(b"k%d" % ci, 3, struct.pack("<l", 100 * si + ci))] if with_props and (si + ci) % 2 == 0 else []
                    en = encs[ci]
                    if en == "full":
                        d = dt if type_change_at != (si, ci) else (4 if dt != 4 else 3)
                        entries.append(G.Entry(p, ("full", 20, d, 1, 1 + (si + ci) % 3, None), props))
                    elif en == "prev":
                        entries.append(G.Entry(p, "prev", props))
                    elif en == "nodata":
                        entries.append(G.Entry(p, None, props))
                if dup is not None and dup[0] == si:
                    entries.append(G.Entry(CH[0][0], dup[1], [G.Prop(b"dup", 3, struct.pack("<l", 7))] if with_props else []))
                seg = G.Seg(e=e, toc=G.TOC_META | G.TOC_RAW | (G.TOC_NEWLIST if newlist else 0), entries=entries)
            data = b""
            try:
                st.apply_metadata(seg)
                st.nsegs += 1
                for _ in range(1 + si % 2):
                    for (p, (dt, n, total)) in st.data_objects():
                        for _k in range(n):
                            cnt[0] += 1
                            data += G.canon_to_stored(e, dt, (cnt[0] % 251).to_bytes(G.SIZES[dt], "little"))
            except G.SpecError:
                data = b"\x01\x02\x03\x04\x05\x06\x07\x08"
            seg.data = data
            segs.append(seg)
        return segs

    def options(nch, first):
        opts = [] if first else [("nometa", None, None)]
        for newlist in (False, True):
            for encs in itertools.product(ENC, repeat=nch):
                opts.append(("meta", newlist, encs))
        return opts
    # every two-segment encoding of one channel, then one more segment; a sample with two channels
    for c0 in options(1, True):
        for c1 in options(1, False):
            c2 = (("meta", False, ("prev",)), ("meta", False, ("nodata",)), ("meta", True, ("full",)), ("nometa", None, None))[len(streams) % 4]
            streams.append(("enum1", build([c0, c1, c2], 1, with_props=(len(streams) % 3 == 0))))
    o2f, o2 = options(2, True), options(2, False)
    for i in range(40):
        streams.append(("enum2", build([rng.choice(o2f), rng.choice(o2), rng.choice(o2)], 2, with_props=(i % 2 == 0))))
    # the same path listed twice in one metadata block (what the model and the code disagree on is recorded too)
    for first in ("full", "nodata"):
        for second in (None, "prev", ("full", 20, 2, 1, 2, None)):
            for newlist in (False, True):
                streams.append(("dup", build([("meta", True, (first, "full")), ("meta", newlist, ("prev", "unlisted")),
                                              ("meta", False, ("unlisted", "nodata"))], 2, True, dup=(1, second))))
                streams.append(("dup", build([("meta", True, (first, "full")), ("meta", newlist, ("nodata", "unlisted")),
                                              ("meta", False, ("prev", "nodata"))], 2, True, dup=(1, second))))
    for tc in ((1, 0), (2, 0), (1, 1)):
        for nl in (False, True):
            streams.append(("typechange", build([("meta", True, ("full", "full")), ("meta", nl, ("full", "full")),
                                                 ("meta", nl, ("full", "prev"))], 2, False, type_change_at=tc)))
    # hand-made: DAQmx objects (one and two scalers, typed channel), strings, bad type / dimension
    dq1 = ("daqmx", 0x1269, 0xFFFFFFFF, 1, 3, [(3, 0, 0, 0, 0), (5, 0, 2, 0, 1)], [6])
    dq1b = ("daqmx", 0x1269, 0xFFFFFFFF, 1, 2, [(3, 0, 0, 0, 0), (5, 0, 2, 0, 1)], [6])
    dq1c = ("daqmx", 0x1269, 0xFFFFFFFF, 1, 2, [(3, 0, 0, 0, 0), (3, 0, 2, 0, 1)], [6])
    dq2 = ("daqmx", 0x126A, 0xFFFFFFFF, 1, 3, [(0, 0, 3, 0, 2)], [6])
    dq3 = ("daqmx", 0x1269, 2, 1, 4, [(3, 0, 0, 0, 5)], [6])
    pa, pb, pc = G.quote_path("d", "a"), G.quote_path("d", "b"), G.quote_path("d", "c")

    def dseg(entries, newlist=True, rows=1, e="<", meta=True):
        return G.Seg(e=e, toc=(G.TOC_META if meta else 0) | G.TOC_RAW | G.TOC_DAQMX | (G.TOC_NEWLIST if newlist else 0),
                     entries=entries if meta else None, data=b"\x00" * rows)
    streams.append(("daqmx", [dseg([G.Entry(pa, dq1), G.Entry(pb, dq2)], rows=18),
                              dseg([G.Entry(pa, "prev"), G.Entry(pb, None)], newlist=False, rows=18),
                              dseg(None, meta=False, rows=36),
                              dseg([G.Entry(pb, "prev"), G.Entry(pa, dq1b)], newlist=False, rows=18)]))
    streams.append(("daqmx", [dseg([G.Entry(pa, dq1), G.Entry(pc, dq3)], rows=24), dseg([G.Entry(pa, dq1c)], newlist=False, rows=24)]))
    streams.append(("daqmx", [dseg([G.Entry(pa, dq1)], rows=18), G.Seg(entries=[G.Entry(pa, ("full", 20, 3, 1, 2, None))], data=b"\0" * 8)]))
    streams.append(("daqmx", [dseg([G.Entry(pa, ("daqmx", 0x1269, 3, 1, 4, [(3, 0, 0, 0, 5)], [6]))], rows=24)]))
    streams.append(("daqmx", [dseg([G.Entry(pa, ("daqmx", 0x1269, 3, 1, 4, [(5, 0, 0, 0, 5), (5, 0, 0, 0, 6)], [6]))], rows=24)]))
    streams.append(("daqmx", [dseg([G.Entry(pa, ("daqmx", 0x1269, 0xFFFFFFFF, 2, 4, [(5, 0, 0, 0, 5)], [6]))], rows=24)]))
    streams.append(("daqmx", [dseg([G.Entry(pa, ("daqmx", 0x126A, 0xFFFFFFFF, 1, 4, [(77, 0, 0, 0, 5)], [6]))], rows=24)]))
    streams.append(("daqmx", [dseg([G.Entry(pa, dq1)], rows=18), dseg([G.Entry(pa, None), G.Entry(pb, ("full", 20, 3, 1, 1, None))],
                                                                      newlist=False, rows=4)]))
    streams.append(("bad", [G.Seg(entries=[G.Entry(pa, ("full", 20, 0x55, 1, 2, None))])]))
    streams.append(("bad", [G.Seg(entries=[G.Entry(pa, ("full", 20, 3, 2, 2, None))])]))
    streams.append(("bad", [G.Seg(entries=[G.Entry(pa, ("full", 20, 0, 1, 2, None))])]))
    streams.append(("bad", [G.Seg(entries=[G.Entry(pa, ("full", 28, 0x20, 1, 2, 11))], data=b"\0" * 11),
                            G.Seg(toc=G.TOC_META | G.TOC_RAW, entries=[G.Entry(pa, "prev"), G.Entry(pb, "prev")])]))
    streams.append(("bad", [G.Seg(toc=G.TOC_RAW, entries=None, data=b"\0" * 4)]))
    streams.append(("bad", [G.Seg(entries=[G.Entry(pa, ("full", 20, 3, 1, 2, None))], data=b"\0" * 12)]))   # 1.5 chunks
    streams.append(("bad", [G.Seg(entries=[G.Entry(pa, None)], data=b"\0" * 3)]))                            # data without data objects

    # ---- wrapped runs
    seg_cases, om_cases, pr_cases = [], [], []
    cur = {}
    orig_rso = TS.TdmsSegment.read_segment_objects
    orig_uom = RD.TdmsReader._update_object_metadata
    orig_uop = RD.TdmsReader._update_object_properties

    def c_props_result(props):
        """properties returned by read_segment_objects -> term, checked against the encoded entries"""
        if props is None:
            return "None"
        seg = cur["segs"][cur["k"]]
        by_path = {}
        for x in seg.entries:
            if x.props:
                by_path[x.path] = x.props           # a later listing of the same path replaces the list
        items = []
        for path, pairs in props.items():
            pb_ = path.encode("utf-8", errors="surrogatepass")
            if pb_ not in by_path:
                die("self-test: properties for %r were not encoded" % path)
            props_match(pairs, by_path[pb_], "segment %d object %r" % (cur["k"], path))
            items.append(intern("(%s, %s)" % (hexb(pb_), clist(["(%s, %s)" % (hexb(p.name), c_prop(p)) for p in by_path[pb_]])),
                                "bytes * list (bytes * prop)", "q"))
        return "(Some %s)" % intern(clist(items), "list (bytes * list (bytes * prop))", "Q")

    def w_rso(self, file, previous_segment_objects, index_cache, previous_segment):
        cur["k"] += 1
        seg = cur["segs"][cur["k"]]
        args = "%s %s %s %s %s %s %s %s %s" % (
            z(self.position), z(self.toc_mask), z(self.next_segment_pos), z(self.data_position), b(self.segment_incomplete),
            clist([c_entry(x) for x in (seg.entries or [])]),
            intern(clist(["(%s, %s)" % (hexs(k), c_sobj(v)) for k, v in previous_segment_objects.items()]), "alist sobj", "P"),
            c_cache(index_cache), c_gseg(previous_segment))
        try:
            props = orig_rso(self, file, previous_segment_objects, index_cache, previous_segment)
        except AttributeError:
            # _calculate_chunks on a data object that never received an index (data_type None): `None.size`.
            # Gen/PyFuncsReader.v (not this translation) reads data_type.size of such an object as None; the
            # case is outside every property (DESIGN 13.2) and is not recorded
            cur["skipped"] = cur.get("skipped", 0) + 1
            counts["skipped_untyped_data_object"] = counts.get("skipped_untyped_data_object", 0) + 1
            raise
        except Exception as e:                  # noqa: BLE001
            seg_cases.append("(read_segment_objects_gen st_hash %s, %s)" % (args, exc_term(e)))
            raise
        exp = "Ok (%s, (%s, %s, %s, %s, %s))" % (c_props_result(props), c_objs(self.ordered_objects), copt(self.object_index, c_zdict),
                                                  z(self.num_chunks), c_final(self.final_chunk_lengths_override), c_cache_exp(index_cache))
        seg_cases.append("(read_segment_objects_gen st_hash %s, %s)" % (args, exp))
        return props

    def c_om(reader):
        shadow = cur["shadow"]
        items = []
        for path, m in reader.object_metadata.items():
            pb_ = path.encode("utf-8", errors="surrogatepass")
            sh = shadow.get(pb_, {})
            if [k.encode("utf-8", errors="surrogatepass") for k in m.properties] != list(sh):
                die("self-test: property names of %r: %r, expected %r" % (path, list(m.properties), list(sh)))
            for k, v in m.properties.items():
                p = sh[k.encode("utf-8", errors="surrogatepass")]
                if G.obs_prop_impl(v) != G.obs_prop_expected(p):
                    die("self-test: property %r of %r is %r" % (k, path, v))
            sdt = copt(m.scaler_data_types, lambda d: clist(["(%s, %s)" % (z(k), z(c.enum_value)) for k, c in d.items()]))
            items.append(intern("(%s, mkOmeta %s %s %s %s)" % (
                hexb(pb_), clist(["(%s, %s)" % (hexb(n), c_prop(p)) for n, p in sh.items()]),
                copt(None if m.data_type is None else m.data_type.enum_value, z), sdt, z(m.num_values)), "bytes * ometa", "m"))
        return intern(clist(items), "alist ometa", "M")

    def c_prev(reader):
        return intern(clist(["(%s, %s)" % (hexs(k), c_sobj(v)) for k, v in reader._prev_segment_objects.items()]), "alist sobj", "P")

    def w_uom(self, segment):
        args = "%s %s (mkSeg %s %s %s %s %s %s [] %s %s)" % (
            c_prev(self), c_om(self), z(segment.position), z(segment.toc_mask), z(segment.next_segment_pos), z(segment.data_position),
            b(segment.segment_incomplete), c_objs(segment.ordered_objects), z(segment.num_chunks), c_final(segment.final_chunk_lengths_override))
        try:
            orig_uom(self, segment)
        except Exception as e:                  # noqa: BLE001
            om_cases.append("(update_object_metadata_gen %s, %s)" % (args, exc_term(e)))
            raise
        om_cases.append("(update_object_metadata_gen %s, Ok (%s, %s))" % (args, c_prev(self), c_om(self)))

    def w_uop(self, props):
        before = c_om(self)
        arg = c_props_result(props)
        orig_uop(self, props)
        if props is not None:
            seg = cur["segs"][cur["k"]]
            for path in props:
                pb_ = path.encode("utf-8", errors="surrogatepass")
                lst = [x.props for x in seg.entries if x.path == pb_ and x.props][-1]
                sh = cur["shadow"].setdefault(pb_, {})
                for p in lst:
                    sh[p.name] = p
        pr_cases.append("(update_object_properties_gen %s %s, Ok %s)" % (before, arg, c_om(self)))

    TS.TdmsSegment.read_segment_objects = w_rso
    RD.TdmsReader._update_object_metadata = w_uom
    RD.TdmsReader._update_object_properties = w_uop
    n_streams = {}
    file_cases = []
    try:
        for label, segs in streams:
            data = G.ser_file(segs)
            for want_index in (False, True):
                if label.startswith("enum") and want_index != (len(data) % 2 == 0):
                    continue
                cur.clear()
                cur.update({"segs": segs, "k": -1, "shadow": {}})
                n_streams[label] = n_streams.get(label, 0) + 1
                with warnings.catch_warnings():
                    warnings.simplefilter("ignore")
                    try:
                        rdr = RD.TdmsReader(io.BytesIO(data))
                        rdr.read_metadata(require_segment_indexes=want_index)
                        if (len(file_cases) < 14 or not label.startswith("enum")) and len(data) < 1500 and n_streams[label] % 2 == 1:
                            file_cases.append("(%s, %s, Ok (%s, %s, %s))" % (hexb(data), b(want_index), c_prev(rdr), c_om(rdr), clist([
                                "(%s, %s, %s, %s)" % (c_objs(sg.ordered_objects), copt(sg.object_index, c_zdict), z(sg.num_chunks),
                                                      c_final(sg.final_chunk_lengths_override)) for sg in rdr._segments])))
                    except Exception as e:      # noqa: BLE001
                        if type(e).__name__ not in EXC:
                            raise
                        if not cur.get("skipped") and (len(file_cases) < 14 or not label.startswith("enum")):
                            file_cases.append("(%s, %s, %s)" % (hexb(data), b(want_index), exc_term(e)))
    finally:
        TS.TdmsSegment.read_segment_objects = orig_rso
        RD.TdmsReader._update_object_metadata = orig_uom
        RD.TdmsReader._update_object_properties = orig_uop

    RSO_T = ("res (option (alist (list (bytes * prop))) * (list sobj * option (alist Z) * Z * option (alist Z) * option hdict)) * "
             "res (option (list (bytes * list (bytes * prop))) * (list sobj * option (alist Z) * Z * option (alist Z) * "
             "option (list (list sobj * alist Z))))")
    example("read_segment_objects", RSO_T, seg_cases,
            "fun c => st_res (fun x y => let '(p1, (o1, i1, n1, f1, c1)) := x in let '(p2, (o2, i2, n2, f2, c2)) := y in "
            "st_opt st_propdict p1 p2 && st_objs o1 o2 && st_opt st_zdict i1 i2 && (n1 =? n2) && st_opt st_zdict f1 f2 && "
            "st_opt st_cache_eq c1 c2) (fst c) (snd c)", minimum=150)
    example("update_object_metadata", "res (alist sobj * alist ometa) * res (alist sobj * alist ometa)", om_cases,
            "fun c => st_res (st_pair st_prevdict st_omdict_d) (fst c) (snd c)", minimum=100)
    example("update_object_properties", "res (alist ometa) * res (alist ometa)", pr_cases,
            "fun c => st_res st_omdict_d (fst c) (snd c)", minimum=50)

    # ---- read_metadata as a whole: the loop with _read_lead_in and the lexer instantiated by the byte-level parsers of
    #      Model/Tokens.v / Model/SegState.v on the file bytes
    out.append("""\
Definition st_lead_io (src : bytes) (fpos segpos : Z) : res (Z * Z * Z * Z * bool) :=
  let lb := read_at fpos 28 src in
  if blen lb <? 28 then Err EEof
  else do l <- parse_leadin lb;
       if negb (bytes_eqb (l_tag l) (hex "5444536d"%string)) then Err EValue
       else do lr <- lead_positions segpos l (Some (blen src));
            match lr with LeadEof => Err EEof | LeadOk dp np inc => Ok (segpos, l_toc l, dp, np, inc) end.
Definition st_lexed_io (src : bytes) (p toc : Z) : res (list entry) :=
  if toc_has toc TOC_META then do '(es, _) <- parse_metadata (toc_endian toc) (drop p src); Ok es else Ok [].
Definition st_seg_obs (g : gseg) (o : list sobj * option (alist Z) * Z * option (alist Z)) : bool :=
  let '(objs, ix, n, f) := o in st_objs (gs_objs g) objs && st_opt st_zdict (gs_index g) ix && (gs_nchunks g =? n) && st_opt st_zdict (gs_final g) f.
Definition st_read_metadata_ok (c : bytes * bool * res (alist sobj * alist ometa * list (list sobj * option (alist Z) * Z * option (alist Z)))) : bool :=
  let '(src, want, exp) := c in
  st_res (fun (st : rm_state) e => let '(prev, om, segs, _, _, _, _) := st in let '(prev', om', segs') := e in
                                   st_prevdict prev prev' && st_omdict_d om om' && st_list st_seg_obs segs segs')
         (read_metadata_gen st_hash (st_lead_io src) (st_lexed_io src) (S (S (length src))) want false) exp.
""")
    example("read_metadata", "bytes * bool * res (alist sobj * alist ometa * list (list sobj * option (alist Z) * Z * option (alist Z)))",
            file_cases, "st_read_metadata_ok", minimum=40)

    # ---- direct calls: _new_segment_object
    def seg0():
        return TS.TdmsSegment(0, 14, 100, 50, False)
    cases = []
    for hdr in (0, 0xFFFFFFFF, 20, 28, 0x1269, 0x126A, 0x1268, 0x126B, 1, 0xFFFFFFFE):
        o = seg0()._new_segment_object("/'g'/'c'", hdr)
        cases.append("(%s, %s)" % (z(hdr), c_sobj(o)))
    example("new_segment_object", "Z * sobj", cases,
            "fun c => st_res st_sobj (new_segment_object_gen %s (fst c)) (Ok (snd c))" % hexs("/'g'/'c'"))

    # ---- direct calls: _update_existing_object / _reuse_previous_object on real objects and an encoded index
    def mk_obj(kind):
        path = "/'g'/'c'"
        if kind == "untyped":
            return TS.TdmsSegmentObject(path)
        if kind in ("data", "nodata"):
            o = TS.TdmsSegmentObject(path)
            o.number_values, o.data_size, o.data_type, o.has_data = 3, 12, TY.Int32, kind == "data"
            return o
        o = DQ.DaqmxSegmentObject(path)
        o.read_raw_data_index(io.BytesIO(G.ser_entry("<", G.Entry(b"", dq1))[8:]), 0x1269, "<")
        o.has_data = kind == "dqdata"
        return o
    IDXS = [None, "prev", ("full", 20, 3, 1, 5, None), ("full", 20, 10, 1, 0, None), ("full", 28, 0x20, 1, 2, 19),
            ("full", 20, 0x55, 1, 2, None), ("full", 20, 0, 1, 2, None), ("full", 20, 3, 0, 2, None), ("full", 20, 0xFFFFFFFF, 1, 2, None),
            dq1, dq2, dq3, ("daqmx", 0x1269, 3, 1, 4, [(3, 0, 0, 0, 5)], [6]), ("daqmx", 0x1269, 0x99, 1, 4, [(3, 0, 0, 0, 5)], [6]),
            ("daqmx", 0x126A, 0xFFFFFFFF, 1, 4, [(77, 0, 0, 0, 5)], [6]), ("daqmx", 0x1269, 0xFFFFFFFF, 1, 4, [], [])]

    def idx_io(i):
        raw = G.ser_entry("<", G.Entry(b"", i))[4:]       # after the (empty) path
        hdr = struct.unpack("<L", raw[:4])[0]
        return hdr, io.BytesIO(raw[4:])
    upd, reu = [], []
    for kind in ("untyped", "data", "nodata", "dqdata", "dqnodata"):
        for i in IDXS:
            for pos in (0, 1):
                other = TS.TdmsSegmentObject("/'x'")
                hdr, f = idx_io(i)
                sg = seg0()
                ex_obj = mk_obj(kind)
                sg.ordered_objects = [other, ex_obj] if pos == 1 else [ex_obj, other]
                before = c_objs(sg.ordered_objects)
                try:
                    sg._update_existing_object(pos, ex_obj, hdr, f, "<")
                    r = "Ok %s" % c_objs(sg.ordered_objects)
                except Exception as e:      # noqa: BLE001
                    r = exc_term(e)
                upd.append("(update_existing_object_gen %s %s %s %s %s, %s)" % (before, z(pos), c_sobj(mk_obj(kind)), z(hdr), c_idx(i), r))
            hdr, f = idx_io(i)
            sg = seg0()
            sg.ordered_objects = [TS.TdmsSegmentObject("/'x'")]
            po = mk_obj(kind)
            try:
                sg._reuse_previous_object(po, hdr, f, "<")
                r = "Ok %s" % c_objs(sg.ordered_objects)
                if (sg.ordered_objects[-1] is po) != (c_sobj(po) == c_sobj(mk_obj(kind)) and i in (None, "prev")
                                                         and po.has_data == (i == "prev")):
                    die("self-test: sharing of the previous object (%s, %r)" % (kind, i))
            except Exception as e:          # noqa: BLE001
                r = exc_term(e)
            reu.append("(reuse_previous_object_gen %s %s %s %s, %s)" % (c_objs([TS.TdmsSegmentObject("/'x'")]), c_sobj(mk_obj(kind)),
                                                                        z(hdr), c_idx(i), r))
    example("update_existing_object", "res (list sobj) * res (list sobj)", upd, "fun c => st_res st_objs (fst c) (snd c)", minimum=100)
    example("reuse_previous_object", "res (list sobj) * res (list sobj)", reu, "fun c => st_res st_objs (fst c) (snd c)", minimum=50)

    # ---- direct calls: _get_existing_object, _read_object_properties
    cases = []
    objs = [mk_obj("data"), TS.TdmsSegmentObject("/'x'"), TS.TdmsSegmentObject("/'y'"), TS.TdmsSegmentObject("/'x'")]
    dmap = {o.path: (i, o) for (i, o) in enumerate(objs)}
    dterm = clist(["(%s, (%s, %s))" % (hexs(k), z(v[0]), c_sobj(v[1])) for k, v in dmap.items()])
    for key in ("/'g'/'c'", "/'x'", "/'y'", "/'z'", "", "/'X'", "/'x", "/'y'/", "/"):
        i, o = seg0()._get_existing_object(dmap, key)
        cases.append("(%s, (%s, %s))" % (hexs(key), copt(i, z), copt(o, c_sobj)))
    example("get_existing_object", "bytes * (option Z * option sobj)", cases,
            "fun c => st_res (st_pair st_optz (st_opt st_sobj)) (get_existing_object_gen %s (fst c)) (Ok (snd c))" % dterm)
    cases = []
    prng = random.Random(5)
    for n in (0, 0, 1, 1, 2, 3, 5, 1, 2, 4):
        props = [G.rand_prop(prng) for _ in range(n)]
        raw = G.ser_entry("<", G.Entry(b"", None, props))[8:]
        got = seg0()._read_object_properties(io.BytesIO(raw), "<")
        if got is not None:
            props_match(got, props, "_read_object_properties")
        cases.append("(%s, %s)" % (clist([c_prop(p) for p in props]),
                                   copt(got, lambda g: clist(["(%s, %s)" % (hexb(p.name), c_prop(p)) for p in props]))))
    example("read_object_properties", "list prop * option (list (bytes * prop))", cases,
            "fun c => st_res (st_opt st_pairs) (read_object_properties_gen (map (fun p => (p_name p, p)) (fst c))) (Ok (snd c))")

    # ---- direct calls: ObjectListKey.__eq__ and SegmentIndexCache.get_index (sequences on one real cache)
    def named(*ps):
        return [TS.TdmsSegmentObject(p) for p in ps]
    lists = [named(), named("a"), named("b"), named("a", "b"), named("b", "a"), named("a", "b"), named("a", "b", "c"),
             named("c", "a", "b"), named("a", "a"), named("b", "b"), named("a", "b", "a"), named("b", "a", "a"), named("a", "c")]
    cases = []
    for l1 in lists:
        for l2 in lists:
            cases.append("(%s, %s, %s)" % (c_objs(l1), c_objs(l2), b(TS.ObjectListKey(l1) == TS.ObjectListKey(l2))))
    example("object_list_key_eq", "list sobj * list sobj * bool", cases,
            "fun c => let '(a, b, r) := c in st_res Bool.eqb (object_list_key_eq_gen (st_key a) (st_key b)) (Ok r)", minimum=100)
    cases = []
    for order in ([3, 4, 5, 3, 6, 7, 4], [0, 1, 2, 1, 0, 8, 9, 8], [10, 11, 10, 6, 7, 6], [4, 3, 4, 3, 12, 1]):
        cache = TS.SegmentIndexCache()
        for k in order:
            before = c_cache(cache)[6:-1]           # strip "(Some " .. ")"
            ix = cache.get_index(lists[k])
            cases.append("(%s, %s, (%s, %s))" % (before, c_objs(lists[k]), c_zdict(ix), c_cache_exp(cache)[6:-1]))
    example("get_index", "hdict * list sobj * (alist Z * list (list sobj * alist Z))", cases,
            "fun c => let '(h, l, r) := c in st_res (st_pair st_zdict st_cache_eq) (get_index_gen st_hash h l) (Ok r)", minimum=20)

    # ---- direct calls: the two consistency checks and _get_or_create_object
    cases = []
    for have in (None, TY.Int32, TY.DoubleFloat, TY.String):
        for new in (None, TY.Int32, TY.DoubleFloat, TY.String, TY.DaqMxRawData):
            m = RD.ObjectMetadata()
            m.data_type = have
            so = TS.TdmsSegmentObject("/'p'")
            so.data_type = new
            try:
                RD._update_object_data_type("/'p'", m, so)
                r = "Ok %s" % copt(None if m.data_type is None else m.data_type.enum_value, z)
            except Exception as e:          # noqa: BLE001
                r = exc_term(e)
            cases.append("(%s, %s, %s)" % (copt(None if have is None else have.enum_value, z), copt(None if new is None else new.enum_value, z), r))
    example("update_object_data_type", "option Z * option Z * res (option Z)", cases,
            "fun c => let '(h, n, r) := c in st_res st_optz (do m <- update_object_data_type_gen [] (mkOmeta [] h None 5) "
            "(mkSobj [] true 1 1 n None); Ok (om_dtype m)) r")
    cases = []
    SC = [[], [(3, 0, 0, 0, 0)], [(3, 0, 0, 0, 0), (5, 0, 2, 0, 1)], [(5, 0, 2, 0, 1), (3, 0, 0, 0, 0)], [(3, 0, 0, 0, 1)], [(5, 0, 0, 0, 0)],
          [(3, 0, 0, 0, 0), (5, 0, 2, 0, 0)], [(5, 0, 0, 0, 0), (5, 0, 2, 0, 0)]]

    def dq_obj(scalers):
        o = DQ.DaqmxSegmentObject("/'p'")
        o.read_raw_data_index(io.BytesIO(G.ser_entry("<", G.Entry(b"", ("daqmx", 0x1269, 0xFFFFFFFF, 1, 2, scalers, [8])))[8:]), 0x1269, "<")
        return o
    for have in [None] + SC:
        for new in SC:
            m = RD.ObjectMetadata()
            m.scaler_data_types = None if have is None else dq_obj(have).scaler_data_types
            so = dq_obj(new)
            hv = copt(m.scaler_data_types, lambda d: clist(["(%s, %s)" % (z(k), z(c.enum_value)) for k, c in d.items()]))
            try:
                RD._update_object_scaler_data_types("/'p'", m, so)
                r = "Ok %s" % copt(m.scaler_data_types, lambda d: clist(["(%s, %s)" % (z(k), z(c.enum_value)) for k, c in d.items()]))
            except Exception as e:          # noqa: BLE001
                r = exc_term(e)
            cases.append("(%s, %s, %s)" % (hv, c_sobj(so), r))
    example("update_object_scaler_data_types", "option (list (Z * Z)) * sobj * res (option (list (Z * Z)))", cases,
            "fun c => let '(h, o, r) := c in st_res opt_zdict_eqb (do m <- update_object_scaler_data_types_gen [] (mkOmeta [] None h 5) o; "
            "Ok (om_scalers m)) r", minimum=50)
    cases = []
    rd = object.__new__(RD.TdmsReader)
    from collections import OrderedDict
    rd.object_metadata = OrderedDict()
    for key in ("/", "/'a'", "/", "/'a'/'b'", "/'a'", "", "/'A'", "/'a'/'b'", "/'a'/'c'", ""):
        before = clist(["(%s, mkOmeta [] None None %s)" % (hexs(k), z(m.num_values)) for k, m in rd.object_metadata.items()])
        m = rd._get_or_create_object(key)
        got = z(m.num_values)
        m.num_values += 1 + len(key)
        after = clist(["(%s, %s)" % (hexs(k), z(m2.num_values - (1 + len(key) if m2 is m else 0))) for k, m2 in rd.object_metadata.items()])
        cases.append("(%s, %s, (%s, %s))" % (before, hexs(key), got, after))
    example("get_or_create_object", "alist ometa * bytes * (Z * alist Z)", cases,
            "fun c => let '(d, k, r) := c in st_res (st_pair Z.eqb st_zdict) (do x <- get_or_create_object_gen d k; "
            "Ok (om_len (fst x), map (fun kv => (fst kv, om_len (snd kv))) (snd x))) (Ok r)")
    counts["streams"] = sum(n_streams.values())
    return "\n".join(out), counts
