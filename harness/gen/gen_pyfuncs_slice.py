#!/usr/bin/env python3
"""Fail-closed translator: nptdms/tdms.py TdmsChannel._read_slice and the bounds
check of TdmsChannel._read_at_index  ->  coq/theories/Gen/PySlice_gen.v.

Python `ast` only (the module is not imported for the translation).  Shallow
Gallina over `option Z` arguments in the error monad of Base/Res.v; the result
of _read_slice is a `plan` (Base/PySlice.v).

Supported statements: if/elif/else whose branches either only assign or end
in return/raise, assignment to a name, return, raise.  Expressions: names, int
literals, `x is None`, + -, comparisons, and/or, conditional expressions,
self._length.  Result calls: np.empty((0,), dtype=self.dtype) -> PEmpty,
v = self.read_data(a, b); v / v[::k] -> PRead a b None / (Some k).
Anything else: exit 1 (nothing is written).

Self-test (run whenever the emitted text, this script or the source changed):
the emitted Gallina is evaluated with vm_compute on a boundary grid and compared
with the Python method run on a stub object.
"""
import ast
import hashlib
import os
import shutil
import subprocess
import sys
import textwrap

VERIF = os.path.dirname(os.path.dirname(os.path.dirname(os.path.abspath(__file__))))
REPO = os.environ.get("NPTDMS_REPO", "/repo")
SRC = os.path.join(REPO, "nptdms", "tdms.py")
OUT = os.path.join(VERIF, "coq", "theories", "Gen", "PySlice_gen.v")
STAMP = os.path.join(VERIF, "_build", "gen_pyfuncs_slice.selftest")

# The part of _read_at_index after the bounds check is modelled by hand
# (Model/LazyRead.v: read_at_index, one-chunk cache).  If it changes, stop.
READ_AT_INDEX_REST = """\
if self._cached_chunk is not None:
    bounds = self._cached_chunk_bounds
    if bounds[0] <= index < bounds[1]:
        return self._cached_chunk[index - bounds[0]]
(chunk, chunk_offset) = self._read_channel_data_chunk_for_index(index)
scaled_chunk = self._scale_data(chunk)
self._cached_chunk = scaled_chunk
self._cached_chunk_bounds = (chunk_offset, chunk_offset + len(scaled_chunk))
return scaled_chunk[index - chunk_offset]"""

EXC = {"ValueError": "EValue", "IndexError": "EIndex", "TypeError": "EType", "KeyError": "EKey",
       "RuntimeError": "ERuntime"}


class Unsupported(Exception):
    pass


def fail(node, why):
    raise Unsupported("line %s: %s: %s" % (getattr(node, "lineno", "?"), why,
                                           ast.unparse(node) if isinstance(node, ast.AST) else node))


# env: name -> ('Z', coqname) | ('optZ', coqname) | ('read', a, b)
def is_self_attr(e, attr):
    return isinstance(e, ast.Attribute) and isinstance(e.value, ast.Name) and e.value.id == "self" \
        and e.attr == attr


def none_test(e, env):
    """`x is None` / `x is not None` on an optZ variable -> (name, negated) or None"""
    if isinstance(e, ast.Compare) and len(e.ops) == 1 and isinstance(e.ops[0], (ast.Is, ast.IsNot)) \
            and isinstance(e.left, ast.Name) and isinstance(e.comparators[0], ast.Constant) \
            and e.comparators[0].value is None:
        if env.get(e.left.id, ("?",))[0] != "optZ":
            fail(e, "None test on a variable that is not an optional integer")
        return e.left.id, isinstance(e.ops[0], ast.IsNot)
    return None


def tr_int(e, env):
    """integer-valued expression -> Coq term of type Z"""
    if isinstance(e, ast.Constant) and type(e.value) is int:
        return "(%d)" % e.value
    if isinstance(e, ast.UnaryOp) and isinstance(e.op, ast.USub) and isinstance(e.operand, ast.Constant) \
            and type(e.operand.value) is int:
        return "(-%d)" % e.operand.value
    if isinstance(e, ast.Name):
        t = env.get(e.id)
        if t is None or t[0] != "Z":
            fail(e, "name is not a known integer variable here")
        return t[1]
    if is_self_attr(e, "_length"):
        return "self_length"
    if isinstance(e, ast.BinOp) and isinstance(e.op, (ast.Add, ast.Sub)):
        return "(%s %s %s)" % (tr_int(e.left, env), "+" if isinstance(e.op, ast.Add) else "-",
                               tr_int(e.right, env))
    if isinstance(e, ast.IfExp):
        nt = none_test(e.test, env)
        if nt is not None:
            name, neg = nt
            if neg:
                fail(e, "`is not None` conditional expression")
            if not (isinstance(e.orelse, ast.Name) and e.orelse.id == name):
                fail(e, "conditional on None must fall back to the variable itself")
            body = tr_int(e.body, {k: v for k, v in env.items() if k != name})
            return "(match %s with None => %s | Some %s => %s end)" % (env[name][1], body, name, name)
        return "(if %s then %s else %s)" % (tr_bool(e.test, env), tr_int(e.body, env), tr_int(e.orelse, env))
    fail(e, "unsupported integer expression")


CMP = {ast.Lt: "<?", ast.LtE: "<=?", ast.Gt: ">?", ast.GtE: ">=?", ast.Eq: "=?"}


def tr_bool(e, env):
    if isinstance(e, ast.BoolOp):
        op = "&&" if isinstance(e.op, ast.And) else "||"
        return "(" + (" %s " % op).join(tr_bool(v, env) for v in e.values) + ")"
    if isinstance(e, ast.Compare) and len(e.ops) == 1:
        nt = none_test(e, env)
        if nt is not None:
            name, neg = nt
            t = "(match %s with None => true | Some _ => false end)" % env[name][1]
            return "(negb %s)" % t if neg else t
        op = e.ops[0]
        left, right = e.left, e.comparators[0]
        if isinstance(op, ast.Eq) and isinstance(left, ast.Name) and env.get(left.id, ("?",))[0] == "optZ":
            return "(oeqb %s %s)" % (env[left.id][1], tr_int(right, env))
        if isinstance(op, ast.NotEq):
            return "(negb (%s =? %s))" % (tr_int(left, env), tr_int(right, env))
        if type(op) in CMP:
            return "(%s %s %s)" % (tr_int(left, env), CMP[type(op)], tr_int(right, env))
    fail(e, "unsupported condition")


def tr_result(e, env):
    """expression in `return` position -> Coq term of type res plan / res Z"""
    if isinstance(e, ast.Call) and isinstance(e.func, ast.Attribute) and e.func.attr == "empty" \
            and isinstance(e.func.value, ast.Name) and e.func.value.id == "np":
        ok = (len(e.args) == 1 and isinstance(e.args[0], ast.Tuple) and len(e.args[0].elts) == 1
              and isinstance(e.args[0].elts[0], ast.Constant) and e.args[0].elts[0].value == 0
              and len(e.keywords) == 1 and e.keywords[0].arg == "dtype"
              and is_self_attr(e.keywords[0].value, "dtype"))
        if not ok:
            fail(e, "np.empty call is not the empty-result idiom")
        return "Ok PEmpty"
    if isinstance(e, ast.Name) and env.get(e.id, ("?",))[0] == "read":
        return "Ok (PRead %s %s None)" % env[e.id][1:]
    if isinstance(e, ast.Subscript) and isinstance(e.value, ast.Name) and env.get(e.value.id, ("?",))[0] == "read" \
            and isinstance(e.slice, ast.Slice) and e.slice.lower is None and e.slice.upper is None \
            and e.slice.step is not None:
        return "Ok (PRead %s %s (Some %s))" % (env[e.value.id][1], env[e.value.id][2],
                                                tr_int(e.slice.step, env))
    if isinstance(e, ast.IfExp):
        return "(if %s then %s else %s)" % (tr_bool(e.test, env), tr_result(e.body, env),
                                            tr_result(e.orelse, env))
    if isinstance(e, ast.Name) and env.get(e.id, ("?",))[0] == "Z":
        return "Ok %s" % env[e.id][1]
    fail(e, "unsupported result expression")


def terminates(stmts):
    if not stmts:
        return False
    last = stmts[-1]
    if isinstance(last, (ast.Return, ast.Raise)):
        return True
    if isinstance(last, ast.If):
        return terminates(last.body) and terminates(last.orelse)
    return False


def only_assigns(stmts):
    return all(isinstance(s, ast.Assign) and len(s.targets) == 1 and isinstance(s.targets[0], ast.Name)
               for s in stmts)


def tr_block(stmts, env, ind):
    pad = "  " * ind
    if not stmts:
        fail("<end of block>", "control reaches the end of a block without return/raise")
    s, rest = stmts[0], stmts[1:]
    if isinstance(s, ast.Expr) and isinstance(s.value, ast.Constant) and isinstance(s.value.value, str):
        return tr_block(rest, env, ind)       # docstring
    if isinstance(s, ast.Raise):
        if rest:
            fail(rest[0], "statement after raise")
        exc = s.exc
        name = exc.func.id if isinstance(exc, ast.Call) and isinstance(exc.func, ast.Name) else \
            (exc.id if isinstance(exc, ast.Name) else None)
        if name not in EXC:
            fail(s, "unknown exception class")
        return pad + "Err %s" % EXC[name]
    if isinstance(s, ast.Return):
        if rest:
            fail(rest[0], "statement after return")
        if s.value is None:
            fail(s, "bare return")
        return pad + tr_result(s.value, env)
    if isinstance(s, ast.Assign):
        if not (len(s.targets) == 1 and isinstance(s.targets[0], ast.Name)):
            fail(s, "assignment target")
        x = s.targets[0].id
        v = s.value
        if isinstance(v, ast.Call) and is_self_attr(v.func, "read_data") and len(v.args) == 2 and not v.keywords:
            env2 = dict(env)
            env2[x] = ("read", tr_int(v.args[0], env), tr_int(v.args[1], env))
            return tr_block(rest, env2, ind)
        term = tr_int(v, env)
        env2 = dict(env)
        env2[x] = ("Z", x)
        return pad + "let %s := %s in\n" % (x, term) + tr_block(rest, env2, ind)
    if isinstance(s, ast.If):
        if terminates(s.body) and not s.orelse:
            return (pad + "if %s then\n" % tr_bool(s.test, env) + tr_block(s.body, env, ind + 1) + "\n"
                    + pad + "else\n" + tr_block(rest, env, ind))
        if terminates(s.body) and terminates(s.orelse):
            if rest:
                fail(rest[0], "statement after an if whose branches all return")
            return (pad + "if %s then\n" % tr_bool(s.test, env) + tr_block(s.body, env, ind + 1) + "\n"
                    + pad + "else\n" + tr_block(s.orelse, env, ind + 1))
        if only_assigns(s.body) and only_assigns(s.orelse) and len(s.body) == 1 and len(s.orelse) <= 1:
            x = s.body[0].targets[0].id
            if s.orelse and s.orelse[0].targets[0].id != x:
                fail(s, "branches assign different variables")
            nt = none_test(s.test, env)
            env2 = dict(env)
            env2[x] = ("Z", x)
            if nt is not None and nt[0] == x and not nt[1] and not s.orelse:
                inner = {k: v for k, v in env.items() if k != x}
                term = "match %s with None => %s | Some %s => %s end" % (
                    env[x][1], tr_int(s.body[0].value, inner), x, x)
            else:
                if env.get(x, ("?",))[0] != "Z":
                    fail(s, "conditional assignment to a variable that is not an integer yet")
                other = tr_int(s.orelse[0].value, env) if s.orelse else env[x][1]
                term = "if %s then %s else %s" % (tr_bool(s.test, env), tr_int(s.body[0].value, env), other)
            return pad + "let %s := %s in\n" % (x, term) + tr_block(rest, env2, ind)
        fail(s, "if statement of unsupported shape")
    fail(s, "unsupported statement")


def find_method(tree, cls, name):
    for node in tree.body:
        if isinstance(node, ast.ClassDef) and node.name == cls:
            for f in node.body:
                if isinstance(f, ast.FunctionDef) and f.name == name:
                    return f
    raise Unsupported("method %s.%s not found" % (cls, name))


def translate(src):
    tree = ast.parse(src)
    rs = find_method(tree, "TdmsChannel", "_read_slice")
    if [a.arg for a in rs.args.args] != ["self", "start", "stop", "step"] or rs.args.defaults:
        raise Unsupported("_read_slice signature changed")
    env = {"start": ("optZ", "start"), "stop": ("optZ", "stop"), "step": ("optZ", "step")}
    body_slice = tr_block(rs.body, env, 1)
    ri = find_method(tree, "TdmsChannel", "_read_at_index")
    if [a.arg for a in ri.args.args] != ["self", "index"]:
        raise Unsupported("_read_at_index signature changed")
    # prefix = everything up to and including the first `if ...: raise`
    k = None
    for i, st in enumerate(ri.body):
        if isinstance(st, ast.If) and len(st.body) == 1 and isinstance(st.body[0], ast.Raise):
            k = i
            break
    if k is None:
        raise Unsupported("_read_at_index: bounds check not found")
    prefix, rest = ri.body[:k + 1], ri.body[k + 1:]
    rest_txt = "\n".join(ast.unparse(s) for s in rest)
    if rest_txt != ast.unparse(ast.parse(READ_AT_INDEX_REST)):
        raise Unsupported("_read_at_index: the part after the bounds check changed; the hand-written "
                          "model read_at_index (Model/LazyRead.v) must be re-examined:\n" + rest_txt)
    ret = ast.Return(value=ast.Name(id="index", ctx=ast.Load()))
    body_index = tr_block(prefix + [ret], {"index": ("Z", "index")}, 1)
    text = ("(* GENERATED by harness/gen/gen_pyfuncs_slice.py from nptdms/tdms.py -- do not edit.\n"
            "   TdmsChannel._read_slice and the bounds check of TdmsChannel._read_at_index. *)\n"
            "From Coq Require Import ZArith List Bool.\n"
            "From NpTdms Require Import Base.Res Base.PySlice.\n"
            "Open Scope Z_scope.\n\n"
            "Definition read_slice_gen (self_length : Z) (start stop step : option Z) : res plan :=\n"
            + body_slice + ".\n\n"
            "Definition read_at_index_check (self_length index : Z) : res Z :=\n"
            + body_index + ".\n")
    return text, prefix


# ---------------------------------------------------------------------------
# self-test

def py_observe(prefix_stmts):
    sys.path.insert(0, REPO)
    import numpy as np
    from nptdms.tdms import TdmsChannel

    class RD:
        def __init__(self, a, b, k=None):
            self.t = (a, b, k)

        def __getitem__(self, s):
            assert isinstance(s, slice) and s.start is None and s.stop is None and self.t[2] is None
            return RD(self.t[0], self.t[1], s.step)

    class Stub:
        def __init__(self, n):
            self._length = n
            self.dtype = np.dtype("i4")

        def read_data(self, a, b):
            return RD(a, b)

    fn = ast.FunctionDef(name="chk", args=ast.arguments(posonlyargs=[], args=[ast.arg("self"), ast.arg("index")],
                                                        kwonlyargs=[], kw_defaults=[], defaults=[]),
                         body=prefix_stmts + [ast.Return(value=ast.Name(id="index", ctx=ast.Load()))],
                         decorator_list=[])
    mod = ast.Module(body=[fn], type_ignores=[])
    ast.fix_missing_locations(mod)
    ns = {}
    exec(compile(mod, "<prefix>", "exec"), ns)
    slice_cases, index_cases = [], []
    for n in (0, 1, 2, 3, 5):
        rng = [None] + list(range(-n - 2, n + 3))
        for st in rng:
            for sp in rng:
                for k in (None, 0, 1, 2, 3, -1, -2, -3):
                    try:
                        r = TdmsChannel._read_slice(Stub(n), st, sp, k)
                        obs = "PEmpty" if isinstance(r, np.ndarray) else r.t
                    except ValueError:
                        obs = "V"
                    slice_cases.append((n, st, sp, k, obs))
        for i in range(-n - 3, n + 3):
            try:
                obs = ns["chk"](Stub(n), i)
            except IndexError:
                obs = "I"
            index_cases.append((n, i, obs))
    return slice_cases, index_cases


def cz(v):
    return "(%d)" % v


def copt(v):
    return "None" if v is None else "(Some %s)" % cz(v)


def selftest(text, prefix):
    slice_cases, index_cases = py_observe(prefix)
    work = os.path.join(VERIF, "_work", "gen_slice.%d" % os.getpid())
    shutil.rmtree(work, ignore_errors=True)
    os.makedirs(os.path.join(work, "Base"))
    os.makedirs(os.path.join(work, "Gen"))
    try:
        for f in ("Res.v", "PySlice.v"):
            shutil.copy(os.path.join(VERIF, "coq", "theories", "Base", f), os.path.join(work, "Base", f))
        open(os.path.join(work, "Gen", "PySlice_gen.v"), "w").write(text)
        lines = ["From Coq Require Import ZArith List Bool.", "Import ListNotations.",
                 "From NpTdms Require Import Base.Res Base.PySlice Gen.PySlice_gen.", "Open Scope Z_scope.",
                 "Definition obs_eq (r : res plan) (o : option plan) : bool :=",
                 "  match r, o with Ok p, Some q => plan_eqb p q | Err EValue, None => true | _, _ => false end.",
                 "Definition sc : list (Z * option Z * option Z * option Z * option plan) := ["]
        items = []
        for (n, st, sp, k, obs) in slice_cases:
            if obs == "V":
                o = "None"
            elif obs == "PEmpty":
                o = "(Some PEmpty)"
            else:
                o = "(Some (PRead %s %s %s))" % (cz(obs[0]), cz(obs[1]), copt(obs[2]))
            items.append("(%s, %s, %s, %s, %s)" % (cz(n), copt(st), copt(sp), copt(k), o))
        lines.append(";\n".join(items) + "].")
        lines.append("Definition ic : list (Z * Z * option Z) := [")
        lines.append(";\n".join("(%s, %s, %s)" % (cz(n), cz(i), "None" if o == "I" else "(Some %s)" % cz(o))
                                for (n, i, o) in index_cases) + "].")
        lines += ["Definition bad1 := length (filter (fun c => let '(n, a, b, k, o) := c in "
                  "negb (obs_eq (read_slice_gen n a b k) o)) sc).",
                  "Definition bad2 := length (filter (fun c => let '(n, i, o) := c in "
                  "negb (match read_at_index_check n i, o with Ok x, Some y => x =? y | Err EIndex, None => true "
                  "| _, _ => false end)) ic).",
                  "Goal (bad1, bad2) = (O, O). Proof. vm_compute. reflexivity. Qed."]
        open(os.path.join(work, "selftest.v"), "w").write("\n".join(lines) + "\n")
        for f in ("Base/Res.v", "Base/PySlice.v", "Gen/PySlice_gen.v", "selftest.v"):
            p = subprocess.run(["timeout", "240", "coqc", "-Q", work, "NpTdms", "-w", "-notation-overridden",
                                os.path.join(work, f)], stdout=subprocess.PIPE, stderr=subprocess.STDOUT, text=True)
            if p.returncode != 0:
                print("gen_pyfuncs_slice: SELF-TEST FAILED at %s (emitted Gallina and the Python method "
                      "disagree on the boundary grid, or the emitted file does not compile)\n%s"
                      % (f, p.stdout[-3000:]))
                return False
        return len(slice_cases), len(index_cases)
    finally:
        shutil.rmtree(work, ignore_errors=True)


def main():
    src = open(SRC).read()
    try:
        text, prefix = translate(src)
    except Unsupported as e:
        print("gen_pyfuncs_slice: UNSUPPORTED construct, nothing written: %s" % e)
        return 1
    key = hashlib.sha256((text + open(__file__).read() + src
                          + open(os.path.join(VERIF, "coq", "theories", "Base", "PySlice.v")).read()
                          ).encode()).hexdigest()
    tested = os.path.exists(STAMP) and open(STAMP).read().strip() == key
    if not tested:
        r = selftest(text, prefix)
        if not r:
            return 1
        os.makedirs(os.path.dirname(STAMP), exist_ok=True)
        open(STAMP, "w").write(key + "\n")
        print("gen_pyfuncs_slice: self-test ok (%d slice cases, %d index cases)" % r)
    os.makedirs(os.path.dirname(OUT), exist_ok=True)
    if not os.path.exists(OUT) or open(OUT).read() != text:
        open(OUT, "w").write(text)
        print("gen_pyfuncs_slice: wrote", OUT)
    return 0


if __name__ == "__main__":
    sys.exit(main())
