"""Self-test cases for gen_pyfuncs_hier.py.

The REAL TdmsFile._read_file is run on a stand-in reader whose object_metadata is an OrderedDict of real
ObjectMetadata objects (paths drawn from a pool with root, groups, channels, implied groups, names that coincide
across roles, non-canonical spellings, strings ObjectPath.from_string rejects; every insertion order), and the
resulting TdmsFile is observed: file properties, groups in order with name / path / properties, channels in order
with name / path / group_name / length / data type / scaler types / properties and the group-level and file-level
property dictionaries each channel was given; then TdmsFile.groups / __getitem__ and TdmsGroup.channels /
__getitem__.  Inputs and observations become Gallina `Example`s checked by vm_compute when Gen/PyFuncsHier.v is built.
"""
import itertools
import os
import random
import sys
from collections import OrderedDict

EXC = {"ValueError": "EValue", "TypeError": "EType", "KeyError": "EKey", "IndexError": "EIndex", "AttributeError": "EOther"}


def z(n):
    n = int(n)
    return "%d" % n if n >= 0 else "(%d)" % n


def hexs(s):
    return '(hex "%s"%%string)' % s.encode("utf-8", errors="surrogatepass").hex()


def clist(items):
    return "[" + "; ".join(items) + "]"


def copt(x, f=lambda v: v):
    return "None" if x is None else "(Some %s)" % f(x)


PRELUDE = """\
(* ---- self test: results of the real code ---- *)
Definition st_res {A B} (eq : A -> B -> bool) (a : res A) (b : res B) : bool :=
  match a, b with Ok x, Ok y => eq x y | Err x, Err y => err_eqb x y | _, _ => false end.
Definition st_opt {A B} (eq : A -> B -> bool) (a : option A) (b : option B) : bool :=
  match a, b with Some x, Some y => eq x y | None, None => true | _, _ => false end.
Fixpoint st_list {A B} (eq : A -> B -> bool) (a : list A) (b : list B) : bool :=
  match a, b with
  | [], [] => true
  | x :: a', y :: b' => eq x y && st_list eq a' b'
  | _, _ => false
  end.
Definition st_pair {A B C D} (e1 : A -> C -> bool) (e2 : B -> D -> bool) (a : A * B) (b : C * D) : bool :=
  e1 (fst a) (fst b) && e2 (snd a) (snd b).
Definition st_prop (a b : prop) : bool :=
  bytes_eqb (p_name a) (p_name b) && (p_type a =? p_type b) && bytes_eqb (p_val a) (p_val b).
Definition st_props := st_list (st_pair bytes_eqb st_prop).
(* an observed channel: name, path, group_name, length, data type, scaler types, properties, group properties, file properties *)
Definition st_chan_obs := (bytes * bytes * bytes * Z * option Z * option (list (Z * Z)) * alist prop * alist prop * alist prop)%type.
Definition st_chan (c : gchan) (o : st_chan_obs) : bool :=
  let '(n, p, g, l, dt, sc, ps, gps, fps) := o in
  bytes_eqb (gchan_name c) n && bytes_eqb (gchan_path c) p && bytes_eqb (gchan_group_name c) g && (gc_length c =? l) &&
  st_opt Z.eqb (gc_dtype c) dt && st_opt (st_list (st_pair Z.eqb Z.eqb)) (gc_scalers c) sc && st_props (gc_props c) ps &&
  st_props (gc_group_props c) gps && st_props (gc_file_props c) fps.
(* an observed group: dictionary key, name, path, properties, channels (key, channel) *)
Definition st_group_obs := (bytes * bytes * alist prop * list (bytes * st_chan_obs))%type.
Definition st_group (g : ggroup) (o : st_group_obs) : bool :=
  let '(n, p, ps, cs) := o in
  bytes_eqb (ggroup_name g) n && bytes_eqb (ggroup_path g) p && st_props (gg_props g) ps &&
  st_list (st_pair bytes_eqb st_chan) (gg_chans g) cs.
Definition st_file (r : alist prop * alist ggroup) (o : alist prop * list (bytes * st_group_obs)) : bool :=
  st_props (fst r) (fst o) && st_list (st_pair bytes_eqb st_group) (snd r) (snd o).
"""


def selftest(repo, die):
    sys.path.insert(0, repo)
    import nptdms
    here = os.path.realpath(os.path.dirname(nptdms.__file__))
    if here != os.path.realpath(os.path.join(repo, "nptdms")):
        die("nptdms imported from %s, expected %s/nptdms" % (here, repo))
    import logging
    logging.disable(logging.CRITICAL)
    from nptdms import types as TY
    from nptdms.tdms import TdmsFile
    from nptdms.reader import ObjectMetadata
    out, counts = [PRELUDE], {}
    interned, intern_defs = {}, []

    def intern(term, ty, prefix):
        k = (term, ty)
        if k not in interned:
            interned[k] = "st_%s%d" % (prefix, len(interned))
            intern_defs.append("Definition %s : %s := %s." % (interned[k], ty, term))
        return interned[k]

    def example(name, ctype, cases, check, minimum=8):
        if intern_defs:
            out.append("\n".join(intern_defs) + "\n")
            del intern_defs[:]
        cases = list(dict.fromkeys(cases))
        if len(cases) < minimum:
            die("self-test grid of %s is too small (%d cases)" % (name, len(cases)))
        counts[name] = len(cases)
        out.append("Definition st_%s_cases : list (%s) :=\n  [%s].\n"
                   "Example st_%s : forallb (%s) st_%s_cases = true.\nProof. vm_compute. reflexivity. Qed.\n"
                   % (name, ctype, ";\n   ".join(cases), name, check, name))

    def c_props(d):
        # property values of the grid are Python ints written as Int32
        return intern(clist(["(%s, mkProp %s 3 (hex \"%s\"%%string))" % (hexs(k), hexs(k), int(v).to_bytes(4, "little", signed=True).hex())
                             for k, v in d.items()]), "alist prop", "p")

    def c_ometa(m):
        dt = None if m.data_type is None else m.data_type.enum_value
        sc = copt(m.scaler_data_types, lambda d: clist(["(%s, %s)" % (z(k), z(c.enum_value)) for k, c in d.items()]))
        return intern("(mkOmeta %s %s %s %s)" % (c_props(m.properties), copt(dt, z), sc, z(m.num_values)), "ometa", "m")

    class FakeReader:
        tdms_version = 4713

        def __init__(self, om):
            self.object_metadata = om

        def read_metadata(self, require_segment_indexes=False):
            pass

    def build(om):
        f = object.__new__(TdmsFile)
        f._memmap_dir, f._raw_timestamps = None, True
        f._groups, f._properties, f._channel_data = OrderedDict(), OrderedDict(), {}
        f._tdms_version, f.data_read = 0, False
        f._read_file(FakeReader(om), True, False)
        return f

    def obs_chan(c):
        dt = None if c.data_type is None else c.data_type.enum_value
        sc = copt(c.scaler_data_types, lambda d: clist(["(%s, %s)" % (z(k), z(t.enum_value)) for k, t in d.items()]))
        return "(%s, %s, %s, %s, %s, %s, %s, %s, %s)" % (hexs(c.name), hexs(c.path), hexs(c.group_name), z(len(c)), copt(dt, z), sc,
                                                         c_props(c.properties), c_props(c._group_properties), c_props(c._file_properties))

    def obs_group(g):
        return "(%s, %s, %s, %s)" % (hexs(g.name), hexs(g.path), c_props(g.properties),
                                     clist(["(%s, %s)" % (hexs(k), obs_chan(c)) for k, c in g._channels.items()]))

    def obs_file(f):
        return "(%s, %s)" % (c_props(f.properties), clist(["(%s, %s)" % (hexs(k), obs_group(g)) for k, g in f._groups.items()]))

    POOL = ["/", "/'g'", "/'h'", "/'g'/'a'", "/'g'/'b'", "/'h'/'a'", "/'i'/'c'", "/'a'", "/'a'/'g'", "/'g'/", "/'it''s'/'x''y'", "/'it''s'",
            "/''", "/''/''", "/'é'/'中'", "/'g'/'a'/'b'", "", "g", "/g", "/'g", "/'g'x", "//", "/'g'/'a", "/'a/b'/'c'", "/'a/b'"]
    rng = random.Random(1616)
    counter = itertools.count(1)

    def meta(path):
        m = ObjectMetadata()
        n = next(counter)
        for k in rng.sample(["p", "q", "NI_x", "é", "unit"], rng.randint(0, 2)):
            m.properties[k] = n * 10 + len(k)
        if path.count("'") >= 4 and rng.random() < 0.8:
            m.data_type = rng.choice([TY.Int32, TY.DoubleFloat, TY.String, TY.DaqMxRawData])
            if m.data_type is TY.DaqMxRawData:
                m.scaler_data_types = {0: TY.Int16, 2: TY.Int32}
            m.num_values = rng.randint(0, 9)
        return m
    cases = []
    sets = [[], ["/"], ["/", "/'g'"], ["/'g'/'a'"], ["/'g'/'a'", "/'g'"], ["/'g'", "/'g'/'a'"], ["/'g'/'a'", "/"],
            ["/'g'/'a'", "/'h'/'a'", "/'g'/'b'", "/'h'"], ["/'a'/'g'", "/'g'/'a'", "/'a'", "/'g'"], ["/'g'/", "/'g'/'a'"],
            ["/'g'/'a'", "/'g'/"], ["/'g'", "/'g'/"], ["/'g'/", "/'g'"], ["/'g'/'a'/'b'"], ["/'g'", "/g"], [""], ["/''/''", "/''"],
            ["/'i'/'c'", "/'h'/'a'", "/'g'/'a'"], ["/'it''s'/'x''y'", "/'it''s'", "/"], ["/'é'/'中'", "/'a/b'/'c'", "/'a/b'"]]
    for paths in sets:
        for perm in (paths, list(reversed(paths))):
            sets_om = OrderedDict((p, meta(p)) for p in perm)
            cases.append(sets_om)
    for _ in range(70):
        paths = rng.sample(POOL[:16] + POOL[23:], rng.randint(1, 7))
        if rng.random() < 0.12:
            paths.insert(rng.randrange(len(paths) + 1), rng.choice(POOL[15:23]))
        cases.append(OrderedDict((p, meta(p)) for p in paths))
    terms, lookups = [], []
    for om in cases:
        om_t = clist(["(%s, %s)" % (hexs(p), c_ometa(m)) for p, m in om.items()])
        try:
            f = build(om)
            r = "Ok %s" % obs_file(f)
        except Exception as e:          # noqa: BLE001
            if type(e).__name__ not in EXC:
                raise
            r, f = "Err %s" % EXC[type(e).__name__], None
        terms.append("(%s, %s)" % (om_t, r))
        if f is not None and len(lookups) < 60:
            gl = "(%s, %s)" % (om_t, clist([hexs(g.name) for g in f.groups()]))
            names = [g.name for g in f.groups()] + ["g", "zz", ""]
            look = []
            for n in names[:4]:
                try:
                    g = f[n]
                    cn = [c.name for c in g.channels()]
                    sub = []
                    for c in (cn + ["a", "nope"])[:3]:
                        try:
                            sub.append("(%s, Some %s)" % (hexs(c), hexs(g[c].path)))
                        except KeyError:
                            sub.append("(%s, None)" % hexs(c))
                    look.append("(%s, Some (%s, %s, %s))" % (hexs(n), hexs(g.path), clist([hexs(x) for x in cn]), clist(sub)))
                except KeyError:
                    look.append("(%s, None)" % hexs(n))
            lookups.append("(%s, %s, %s)" % (om_t, clist([hexs(g.name) for g in f.groups()]), clist(look)))
            del gl
    example("read_file_hierarchy", "alist ometa * res (alist prop * list (bytes * st_group_obs))", terms,
            "fun c => st_res st_file (read_file_hierarchy_gen (fst c) tt tt tt) (snd c)", minimum=80)
    example("lookups", "alist ometa * list bytes * list (bytes * option (bytes * list bytes * list (bytes * option bytes)))", lookups,
            "fun c => let '(om, names, looks) := c in\n"
            "    match read_file_hierarchy_gen om tt tt tt with\n"
            "    | Ok (_, groups) =>\n"
            "      st_res (st_list (fun g n => bytes_eqb (ggroup_name g) n)) (tdms_file_groups_gen groups) (Ok names) &&\n"
            "      forallb (fun lk =>\n"
            "        match tdms_file_getitem_gen groups (fst lk), snd lk with\n"
            "        | Ok g, Some (p, cn, sub) =>\n"
            "          bytes_eqb (ggroup_path g) p &&\n"
            "          st_res (st_list (fun c n => bytes_eqb (gchan_name c) n)) (tdms_group_channels_gen g) (Ok cn) &&\n"
            "          forallb (fun s => match tdms_group_getitem_gen g (fst s), snd s with\n"
            "                            | Ok c, Some cp => bytes_eqb (gchan_path c) cp\n"
            "                            | Err EKey, None => true\n"
            "                            | _, _ => false end) sub\n"
            "        | Err EKey, None => true\n"
            "        | _, _ => false\n"
            "        end) looks\n"
            "    | Err _ => false\n"
            "    end", minimum=30)
    return "\n".join(out), counts
