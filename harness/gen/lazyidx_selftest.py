"""Self-test cases for gen_pyfuncs_lazyidx.py.

The REAL Python code is run: reader._array_equal / _deduplicate_array on NumPy int64 arrays;
TdmsReader._build_index / read_channel_chunk_for_index on real TdmsReader and TdmsSegment objects
(the segment's raw read and the file are recording stand-ins: every seek / read / chunk request is
logged); TdmsChannel._read_at_index, _read_channel_data, data_chunks on real TdmsChannel objects;
TdmsFile.data_chunks on real files written by TdmsWriter.  Inputs and observed results become
Gallina `Example`s checked by vm_compute when Gen/PyFuncsLazyIdx.v is built.
"""
import io
import random
import warnings

import reader_selftest as RS
from reader_selftest import O, z, b, hexb, clist, cdict, seg_py, seg_coq, example

PRELUDE = RS.PRELUDE + """\
(* arrays of the grid: 0 .. n-1, and the same with entry p replaced by d *)
Definition st_arr (n : Z) : list Z := py_range 0 n.
Definition st_arr_at (n p d : Z) : list Z := map (fun k => if k =? p then d else k) (py_range 0 n).
Definition st_entry := st_pair Z.eqb (st_list Z.eqb).
Definition st_tbl := st_list (st_pair bytes_eqb st_entry).
(* the stand-in file: the log of (kind, segment, chunk_offset, num_chunks) requests; a chunk read returns
   number_values values 1000 * segment + 10 * chunk + k *)
Definition st_file := list (Z * Z * Z * Z).
Definition st_norm (segs : list segment) (j : Z) : Z := if j <? 0 then j + zlen segs else j.
Definition st_verify (segs : list segment) (f : st_file) (j : Z) : res st_file := Ok (f ++ [(0, st_norm segs j, 0, 0)]).
Definition st_next (segs : list segment) (path : bytes) (f : st_file) (j c n : Z) : res (list Z * st_file) :=
  do s <- py_index segs j;
  let nv := match segment_object s path with Some o => so_nvals o | None => 0 end in
  Ok (map (fun k => 1000 * st_norm segs j + 10 * c + k) (py_range 0 nv), f ++ [(1, st_norm segs j, c, n)]).
Definition st_quad (a b : Z * Z * Z * Z) : bool :=
  let '(a1, a2, a3, a4) := a in let '(b1, b2, b3, b4) := b in (a1 =? b1) && (a2 =? b2) && (a3 =? b3) && (a4 =? b4).
Definition st_log := st_list st_quad.
(* channel[i] for a list of indices on one channel object (the cache is carried along) *)
Fixpoint st_index_run (segs : list segment) (path : bytes) (n : Z) (tbl : alist (Z * list Z)) (f : st_file)
         (cc : option (list Z)) (cb : option (Z * Z)) (is : list Z) : list (res (Z * option (Z * Z))) * st_file :=
  match is with
  | [] => ([], f)
  | i :: r =>
    match read_at_index_gen st_file (list Z) Z (st_verify segs) (st_next segs path) (fun c => Ok c) (fun c => Ok c)
                            (Some segs) tbl f path n cc cb i with
    | Ok (v, (cc', cb', tbl', f')) =>
      let '(outs, f2) := st_index_run segs path n tbl' f' (Some cc') cb' r in (Ok (v, cb') :: outs, f2)
    | Err e => let '(outs, f2) := st_index_run segs path n tbl f cc cb r in (Err e :: outs, f2)
    end
  end.
"""

ERRMAP = dict(RS.EXC)
ERRMAP.update({"OverflowError": "EOther", "ZeroDivisionError": "EOther", "FloatingPointError": "EOther",
               "StopIteration": "EOther"})


def observe(fn, enc):
    import numpy as np
    with warnings.catch_warnings():
        warnings.simplefilter("error")
        with np.errstate(all="raise"):
            try:
                r = fn()
            except Exception as e:                       # noqa: BLE001 - every class is mapped or fatal
                n = type(e).__name__
                if n in ERRMAP:
                    return "Err %s" % ERRMAP[n]
                raise
    return "Ok %s" % enc(r)


def zl(l):
    return clist([z(x) for x in l])


def enc_tbl(d):
    return clist(["(%s, (%s, %s))" % (hexb(k), z(v[0]), zl(v[1])) for k, v in d.items()])


def selftest(repo, die, fragments):
    RS.load(repo, die)
    import numpy as np
    from nptdms import reader, tdms, TdmsFile, TdmsWriter, ChannelObject, RootObject, GroupObject
    from nptdms.tdms_segment import TdmsSegment
    from nptdms.base_segment import RawChannelDataChunk
    from nptdms.common import ObjectPath
    out, counts = [PRELUDE], {}
    O.names.clear()

    def run(name, ctype, check, cases):
        if len(cases) < 10:
            die("self-test grid of %s is too small (%d cases)" % (name, len(cases)))
        counts[name] = len(cases)
        out.append(example(name, ctype, cases, check))

    # --- _array_equal: lengths around the block size, one differing entry at every block boundary
    def arr(n, p=None, d=-7):
        a = np.arange(n, dtype=np.int64)
        if p is not None:
            a[p] = d
        return a
    cases = []
    lens = [0, 1, 99, 100, 101, 199, 200, 250]
    for n in lens:
        for p in [None] + sorted({q for q in (0, 1, 98, 99, 100, 101, 198, 199, 200, 201, 249, n - 1) if 0 <= q < n}):
            for cs in (None, 1, 7, 99, 100, 101, 250, 0, -3):
                if cs not in (None, 100) and (n not in (0, 101, 250) or p not in (None, 0, 100, n - 1)):
                    continue
                a, c = arr(n), arr(n, p)
                r = observe((lambda: reader._array_equal(a, c)) if cs is None else (lambda: reader._array_equal(a, c, cs)), b)
                cases.append("(%s, %s, %s, %s, %s)" % (z(n), "st_arr %s" % z(n) if p is None else "st_arr_at %s %s (-7)" % (z(n), z(p)),
                                                     "None" if cs is None else "Some %s" % z(cs), "st_arr %s" % z(n), r))
    for n, m in ((0, 1), (1, 0), (100, 101), (101, 100), (250, 249), (1, 2), (3, 1)):
        for cs in (None, 2):
            a, c = arr(n), arr(m)
            r = observe((lambda: reader._array_equal(a, c)) if cs is None else (lambda: reader._array_equal(a, c, cs)), b)
            cases.append("(%s, st_arr %s, %s, st_arr %s, %s)" % (z(n), z(m), "None" if cs is None else "Some %s" % z(cs), z(n), r))
    run("array_equal", "Z * list Z * option Z * list Z * res bool",
        "fun '(n, c, cs, a, r) => st_res Bool.eqb (array_equal_gen a c (match cs with Some k => k | None => "
        "array_equal_default_chunk_size end)) r", cases)

    # --- _deduplicate_array: the result VALUE (identity is not modelled)
    cases = []
    cands = [[], [[1, 2]], [[1, 3], [1, 2]], [[1, 2, 3]], [[], [5]], [[5], []]]
    for xs in ([], [1, 2], [5], [1, 2, 3]):
        for cl in cands:
            r = observe(lambda: reader._deduplicate_array(np.array(xs, dtype=np.int64), [np.array(c, dtype=np.int64) for c in cl]),
                        lambda v: zl(v.tolist()))
            cases.append("(%s, %s, %s)" % (zl(xs), clist([zl(c) for c in cl]), r))
    for n, p in ((150, 149), (150, 100), (150, 99), (250, 200), (101, 100)):
        for cl in ([(n, p)], [(n, p), (n, None)], [(n, None)]):
            r = observe(lambda: reader._deduplicate_array(arr(n), [arr(*c) for c in cl]), lambda v: zl(v.tolist()))
            cases.append("(st_arr %s, %s, %s)" % (z(n), clist(["st_arr %s" % z(c[0]) if c[1] is None else
                                                              "st_arr_at %s %s (-7)" % (z(c[0]), z(c[1])) for c in cl]), r))
    run("deduplicate_array", "list Z * list (list Z) * res (list Z)",
        "fun '(xs, cl, r) => st_res (st_list Z.eqb) (deduplicate_array_gen xs cl) r", cases)

    # --- segments of the grid: channel "a" in several states, and a bystander "d"
    a3 = O("a", True, 3, 12, 3)
    a4 = O("a", True, 4, 16, 3)
    a0 = O("a", True, 0, 0, 3)
    an = O("a", False, 3, 12, 3)          # no data in this segment, number_values kept from before
    d2 = O("d", True, 2, 8, 3)
    big = O("a", True, 2 ** 62, 2 ** 64, 3)
    shapes = [([a3], 2, None), ([a3], 1, None), ([d2, a3], 3, {"a": 2}), ([a4, d2], 2, {"a": 0}), ([d2], 2, None),
              ([an, d2], 2, None), ([a0], 2, None), ([a3], 0, None), ([a4], 3, {"d": 1}), ([a3, d2], 1, {})]

    class RecFile(object):
        def __init__(self):
            self.log = []

        def seek(self, pos, whence=0):
            self.log.append(("seek", pos, whence))

        def read(self, n):
            self.log.append(("read", n))
            return b"TDSm"

    class RecSeg(TdmsSegment):
        def read_raw_data_for_channel(self, f, path, chunk_offset=0, num_chunks=None):
            f.log.append(("next", self.position // 1000, int(chunk_offset), int(num_chunks)))
            o = self.get_segment_object(path)
            nv = 0 if o is None else o.number_values
            yield RawChannelDataChunk.channel_data(
                np.array([self.position + 10 * int(chunk_offset) + k for k in range(nv)], dtype=np.int64))

    def mk_reader(descr, index_override=None, tbl=None):
        r = object.__new__(reader.TdmsReader)
        segs = []
        for j, (objs, nch, final) in enumerate(descr):
            s = RecSeg(j * 1000, 0x0E, 0, 0, False)
            s.ordered_objects = [o.py() for o in objs]
            s.num_chunks, s.final_chunk_lengths_override = nch, final
            s.object_index = {o.path: i for i, o in enumerate(objs)} if index_override is None else dict(index_override)
            segs.append(s)
        r._segments = segs
        r._segment_channel_offsets = {} if tbl is None else {k: (v[0], np.array(v[1], dtype=np.int64)) for k, v in tbl.items()}
        r._file = RecFile()
        r._index_file = None
        return r

    def segs_coq(descr, index_override=None):
        return clist([seg_coq(objs, 0x0E, 0, 0, False, nch, final,
                              [(o.path, i) for i, o in enumerate(objs)] if index_override is None else index_override)
                      .replace("(mkSeg 0 ", "(mkSeg %d " % (j * 1000), 1)
                      for j, (objs, nch, final) in enumerate(descr)])

    def tbl_of(r):
        return {k: (int(v[0]), [int(x) for x in v[1]]) for k, v in r._segment_channel_offsets.items()}

    def norm_log(log):
        """seek(pos) + read(4) of _verify_segment_start -> (0, j, 0, 0); a chunk request -> (1, j, c, n)"""
        outl, i = [], 0
        while i < len(log):
            e = log[i]
            if e[0] == "seek" and i + 1 < len(log) and log[i + 1] == ("read", 4) and e[2] == 0:
                outl.append((0, e[1] // 1000, 0, 0))
                i += 2
            elif e[0] == "next":
                outl.append((1, e[1], e[2], e[3]))
                i += 1
            else:
                die("unexpected file access in the self-test: %r" % (e,))
        return outl

    def enc_log(l):
        return clist(["(%s, %s, %s, %s)" % tuple(z(x) for x in e) for e in l])

    rnd = random.Random(20260)
    files = [[shapes[0]], [shapes[4]], [], [shapes[0], shapes[4], shapes[2]], [shapes[4], shapes[1], shapes[5], shapes[3]],
             [shapes[6], shapes[7], shapes[0]], [shapes[5], shapes[8], shapes[9], shapes[4]], [shapes[3], shapes[3]],
             [shapes[4], shapes[6]]]
    for _ in range(40):
        files.append([rnd.choice(shapes) for _ in range(rnd.choice([1, 2, 3, 4, 5, 6]))])
    tbls = [None, {"d": (0, [4, 8])}, {"zz": (1, [6])}, {"a": (7, [1, 2, 3])}, {"x": (0, [6]), "y": (0, [6, 12])}]

    # --- TdmsReader._build_index
    cases = []
    for fi, descr in enumerate(files):
        for path in ("a", "d", "zz"):
            for tb in (tbls if fi < 9 else [rnd.choice(tbls)]):
                def go():
                    r = mk_reader(descr, tbl=tb)
                    r._build_index(path)
                    return tbl_of(r)
                cases.append("(%s, %s, %s, %s)" % (segs_coq(descr), enc_tbl(tb or {}), hexb(path), observe(go, enc_tbl)))
    for idx in ([("a", 1)], [("a", 5)], [("a", 0), ("d", 0)]):            # object_index out of step with ordered_objects
        descr = [([a3], 2, None), ([a3, d2], 2, None)]
        def go():
            r = mk_reader(descr, index_override=idx)
            r._build_index("a")
            return tbl_of(r)
        cases.append("(%s, [], %s, %s)" % (segs_coq(descr, idx), hexb("a"), observe(go, enc_tbl)))
    for descr in ([([big], 1, None), ([big], 1, None)], [([big], 2, None)], [([big], 1, None), ([big], 0, None), ([big], 1, None), ([big], 1, None)]):
        def go():
            r = mk_reader(descr)
            r._build_index("a")
            return tbl_of(r)
        cases.append("(%s, [], %s, %s)" % (segs_coq(descr), hexb("a"), observe(go, enc_tbl)))
    run("build_index", "list segment * alist (Z * list Z) * bytes * res (alist (Z * list Z))",
        "fun '(segs, tbl, p, r) => st_res st_tbl (build_index_gen segs tbl p) r", cases)

    # --- TdmsReader.read_channel_chunk_for_index
    cases = []
    for fi, descr in enumerate(files):
        tot = sum((0 if not o.has_data else o.nvals * (nch if fin is None else nch - 1) + (0 if fin is None else fin.get("a", 0)))
                  for objs, nch, fin in descr for o in objs if o.path == "a")
        idxs = sorted(set([-1, 0, 1, 2, 3, 5, 6, 7, tot - 1, tot, tot + 1, tot // 2]))
        for path in ("a", "d"):
            for i in (idxs if fi < 9 or path == "a" else idxs[:4]):
                tb = None if (fi + i) % 3 else {"d": (0, [4, 8])}
                def go():
                    r = mk_reader(descr, tbl=tb)
                    ch, off = r.read_channel_chunk_for_index(path, i)
                    return ([int(v) for v in ch.data], int(off), tbl_of(r), norm_log(r._file.log))
                cases.append("(%s, %s, %s, %s, %s)" % (
                    segs_coq(descr), enc_tbl(tb or {}), hexb(path), z(i),
                    observe(go, lambda r: "((%s, %s), (%s, %s))" % (zl(r[0]), z(r[1]), enc_tbl(r[2]), enc_log(r[3])))))
    def closed():
        r = mk_reader(files[0])
        r._segments = None
        return r.read_channel_chunk_for_index("a", 0)
    none_case = observe(closed, lambda r: "?")
    if none_case != "Err ERuntime":
        die("read_channel_chunk_for_index with _segments = None: %s" % none_case)
    run("read_channel_chunk_for_index", "list segment * alist (Z * list Z) * bytes * Z * res ((list Z * Z) * (alist (Z * list Z) * st_file))",
        "fun '(segs, tbl, p, i, r) => st_res (st_pair (st_pair (st_list Z.eqb) Z.eqb) (st_pair st_tbl st_log)) "
        "(read_channel_chunk_for_index_gen st_file (list Z) (st_verify segs) (st_next segs p) (Some segs) tbl [] p i) r", cases)
    out.append("Example st_read_channel_chunk_for_index_no_metadata :\n"
               "  read_channel_chunk_for_index_gen st_file (list Z) (st_verify []) (st_next [] []) None [] [] [] 0 = Err ERuntime.\n"
               "Proof. reflexivity. Qed.\n")

    # --- TdmsChannel._read_at_index: sequences of indices on one channel object (cache, index table, file log)
    cases = []
    for fi, descr in enumerate(files[:30]):
        tot = sum((0 if not o.has_data else o.nvals * (nch if fin is None else nch - 1) + (0 if fin is None else fin.get("a", 0)))
                  for objs, nch, fin in descr for o in objs if o.path == "a")
        seqs = [[0, 1, 2, 3, 4, tot - 1, -1, -tot, -tot - 1, tot, 0], [tot // 2, tot // 2 + 1, tot // 2 - 1, 2, 3, 2, 5, 6, 5]]
        if fi >= 9:
            seqs = [[rnd.randrange(-tot - 2, tot + 2) for _ in range(8)]]
        for seq in seqs:
            r = mk_reader(descr)
            ch = tdms.TdmsChannel(ObjectPath("g", "a"), None, None, tot, {}, {}, {}, r, False, None)
            ch._path = "a"          # the stand-in segments are keyed by the plain name
            obs = []
            for i in seq:
                def go():
                    v = ch._read_at_index(i)
                    return (int(v), ch._cached_chunk_bounds)
                obs.append(observe(go, lambda t: "(%s, %s)" % (z(t[0]), "None" if t[1] is None else "Some (%s, %s)" % (z(t[1][0]), z(t[1][1])))))
            cases.append("(%s, %s, %s, %s, %s)" % (segs_coq(descr), z(tot), zl(seq), clist(obs), enc_log(norm_log(r._file.log))))
    run("read_at_index", "list segment * Z * list Z * list (res (Z * option (Z * Z))) * st_file",
        "fun '(segs, n, is, outs, log) => let '(o, f) := st_index_run segs (hex \"61\"%string) n [] [] None None is in "
        "st_list (st_res (st_pair Z.eqb (st_opt (st_pair Z.eqb Z.eqb)))) o outs && st_log f log", cases)

    # --- TdmsChannel._read_channel_data: argument validation and the size of the receiver
    class Stop(Exception):
        pass
    cases = []
    real_receiver = tdms.get_data_receiver
    try:
        def fake_receiver(chan, num_values, raw_timestamps, memmap_dir):
            raise Stop(num_values)
        tdms.get_data_receiver = fake_receiver
        for dt in (None, 3):
            for only in (False, True):
                for n in (0, 5):
                    for off in (-1, 0, 3, 5, 7):
                        for ln in (None, -1, 0, 2, 10):
                            class Rd(object):
                                def is_index_file_only(self):
                                    return only
                            from nptdms import types
                            ch = tdms.TdmsChannel(ObjectPath("g", "a"), None if dt is None else types.tds_data_types[dt], None, n,
                                                  {}, {}, {}, Rd(), False, None)
                            def go():
                                try:
                                    rr = ch._read_channel_data(off, ln)
                                except Stop as e:
                                    return e.args[0]
                                if rr is not None:
                                    die("_read_channel_data returned a receiver without allocating it")
                                return None
                            cases.append("(%s, %s, %s, %s, %s, %s)" % (
                                "None" if dt is None else "Some %d" % dt, b(only), z(n), z(off), "None" if ln is None else "Some %s" % z(ln),
                                observe(go, lambda v: "None" if v is None else "(Some %s)" % z(v))))
    finally:
        tdms.get_data_receiver = real_receiver
    run("read_channel_data_alloc", "option Z * bool * Z * Z * option Z * res (option Z)",
        "fun '(dt, only, n, off, ln, r) => st_res (st_opt Z.eqb) (read_channel_data_alloc_gen dt only n off ln) r", cases)

    # --- read_raw_data_for_channel: the window arithmetic (the source statements themselves, on NumPy offsets)
    import ast
    import types as pytypes
    frag = fragments["read_window_bounds"]
    names = ["object_metadata", "first_segment", "segment_offsets", "offset", "length"]
    fn = ast.FunctionDef(name="frag", args=ast.arguments(posonlyargs=[], args=[ast.arg(a) for a in names], kwonlyargs=[],
                                                         kw_defaults=[], defaults=[]),
                         body=list(frag) + [ast.Return(value=ast.Tuple(elts=[ast.Name(id=r, ctx=ast.Load()) for r in
                                                                             ("length", "end_index", "start_segment", "end_segment")],
                                                                       ctx=ast.Load()))], decorator_list=[])
    mod = ast.Module(body=[fn], type_ignores=[])
    ast.fix_missing_locations(mod)
    ns = {"np": np, "min": min, "max": max}
    exec(compile(mod, "<window arithmetic>", "exec"), ns)
    cases = []
    for offs in ([], [6], [6, 6, 14], [3, 3, 9], [5, 17]):
        n = offs[-1] if offs else 0
        for first in (0, 2):
            for off in sorted({0, 1, 3, 5, 6, 7, 9, 14, n, n + 2}):
                for ln in (None, 0, 1, 3, 6, 8, n, n + 5):
                    r = observe(lambda: ns["frag"](pytypes.SimpleNamespace(num_values=n), first, np.array(offs, dtype=np.int64), off, ln),
                                lambda t: "(%s, %s, %s, %s)" % tuple(z(x) for x in t))
                    cases.append("(%s, %s, %s, %s, %s, %s)" % (z(n), z(first), zl(offs), z(off), "None" if ln is None else "(Some %s)" % z(ln), r))
    run("read_window_bounds", "Z * Z * list Z * Z * option Z * res (Z * Z * Z * Z)",
        "fun '(n, first, offs, off, ln, r) => st_res (fun (a b : Z * Z * Z * Z) => let '(a1, a2, a3, a4) := a in let '(b1, b2, b3, b4) := b in "
        "(a1 =? b1) && (a2 =? b2) && (a3 =? b3) && (a4 =? b4)) (read_window_bounds_gen n first offs off ln) r", cases)

    # --- _trim_channel_chunk (data and scaler data are cut alike)
    cases = []
    for n in (0, 1, 5):
        for skip in (0, 1, 2, 5, 6):
            for trim in (0, 1, 4, 5, 6, -1):
                def go():
                    c = RawChannelDataChunk(np.arange(n, dtype=np.int64), {7: np.arange(n, dtype=np.int64)})
                    t = reader._trim_channel_chunk(c, skip, trim)
                    if t.data.tolist() != t.scaler_data[7].tolist():
                        die("_trim_channel_chunk cuts the scaler data differently")
                    return t.data.tolist()
                cases.append("(%s, %s, %s, %s)" % (z(n), z(skip), z(trim), observe(go, zl)))
    run("trim_channel_chunk", "Z * Z * Z * res (list Z)",
        "fun '(n, skip, trim, r) => st_res (st_list Z.eqb) (trim_channel_chunk_gen Z (st_arr n) skip trim) r", cases)

    # --- TdmsChannel.data_chunks / TdmsFile.data_chunks on real files: offsets of the yielded chunk objects
    def write_file(sessions):
        f = io.BytesIO()
        with TdmsWriter(f) as w:
            for sess in sessions:
                w.write_segment([RootObject({}), GroupObject("g", {})] +
                                [ChannelObject("g", name, np.arange(n, dtype=np.int32)) for name, n in sess])
        f.seek(0)
        return f
    specs = [[[("a", 3), ("b", 2)]], [[("a", 3)], [("a", 3)], [("b", 4)]], [[("a", 2), ("b", 5)], [("a", 2), ("b", 5)], [("b", 1)], [("a", 4)]],
             [[("a", 0)]], [[("a", 1)], [("c", 2), ("a", 1)], [("c", 2), ("a", 1)], [("b", 7)], [("a", 3), ("b", 7)]]]
    for _ in range(8):
        specs.append([[(nm, rnd.choice([1, 2, 3, 5])) for nm in rnd.sample(["a", "b", "c"], rnd.choice([1, 2, 3]))]
                      for _ in range(rnd.choice([1, 2, 3, 4, 5]))])
    ccases, fcases = [], []
    for sp in specs:
        with TdmsFile.open(write_file(sp)) as tf:
            chans = [c for g in tf.groups() for c in g.channels()]
            for ch in chans:
                raw = [len(c) for c in ch._read_channel_data_chunks()]
                offs = [c.offset for c in ch.data_chunks()]
                ccases.append("(%s, %s)" % (zl(raw), zl(offs)))
            raw = [[(p, len(d)) for p, d in c.channel_data.items()] for c in tf._reader.read_raw_data()]
            seen = [[(c.path, dc[c.group_name][c.name].offset) for c in chans] for dc in tf.data_chunks()]
            fcases.append("(%s, %s)" % (
                clist([clist(["(%s, %s)" % (hexb(p), z(n)) for p, n in c]) for c in raw]),
                clist([clist(["(%s, %s)" % (hexb(p), z(o)) for p, o in s]) for s in seen])))
    ccases += ["(%s, %s)" % (zl(l), zl([sum(l[:i]) for i in range(len(l))])) for l in ([], [0], [0, 0, 3])]
    run("channel_data_chunks", "list Z * list Z", "fun '(lens, offs) => st_res (st_list Z.eqb) (channel_data_chunks_gen lens) (Ok offs)", ccases)
    if len(fcases) < 10:
        die("file data_chunks grid too small")
    counts["file_data_chunks"] = len(fcases)
    out.append(example("file_data_chunks", "list (list (bytes * Z)) * list (list (bytes * Z))", fcases,
                       "fun '(raw, seen) => match file_data_chunks_gen raw with\n"
                       "     | Ok ys => st_list (fun y s => forallb (fun '(p, o) => alookup_z0 p y =? o) s) ys seen\n"
                       "     | Err _ => false end"))
    objs = "".join("Definition %s : sobj := %s.\n" % (n, t) for t, n in O.names.items())
    out.insert(1, objs)
    return "\n".join(out), counts
